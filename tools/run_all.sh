#!/bin/sh
# Runs every claimed check (quick tier unless TIER is set) in parallel; prints one line per property.
cd "$(dirname "$0")/.."
T=${TIER:-quick}
python3 -c "import json; print('\n'.join(c['property_id'] for c in json.load(open('MANIFEST.json'))['checks']))" | \
  xargs -P ${JOBS:-8} -I{} sh -c './bin/check {} --tier '"$T"' > /tmp/stv_run_{}.log 2>&1; echo "{} exit=$? $(tail -n 60 /tmp/stv_run_{}.log | grep -m1 tier=)"' | sort
