SETUP = 'sh ./setup.sh'
HOOKS = dict(
    guard='ST_VERIF',
    enable='no hooks are needed: the checks read the unmodified headers of /repo (compiled to LLVM IR, never executed)',
    baseline_off_cmd='sh /verif/tools/baseline.sh',
    source_commits=[],
    add_only=True,
)
NOTES = ('All checks are static: /repo/include is lowered to LLVM IR through gen/driver.cpp (clang 14, -O0, mem2reg) on every run '
         '(cached by content hash) and analysed by the Python package stir/. Exit 2 = analysis could not be carried out (never a pass).')

CLAIMS = {
 'C20': dict(
    level='proof',
    text=('Every library global is an immutable constant, no library function stores into a global, no const member or '
          'const-reference function can write (deeply) through its read-only parameters, and no MT-unsafe external is reachable: '
          'all obligations are enumerated over the whole module and each is discharged by the analysis. With no shared mutable state '
          'and write-free readers, no data race can originate in the library and results cannot depend on other threads.'),
    note=('relative to: clang-14 lowering, the effect model of externals (declared const-ness, C table), glibc MT-safety classes, '
          'iostream internals trusted; only instantiations in gen/driver.cpp'),
    technique='static analysis: module-wide global/effect/call-graph facts over LLVM IR (pointer-provenance write summaries)'),
}
CLAIMS['C05'] = dict(
    level='proof',
    text=('Every mutating member of ST::buffer<T> (4 element types) is abstractly interpreted from every entry scenario the class '
          'invariant allows (in-object / heap size class of each object, this==other); at every exit the invariant (own storage, '
          'capacity, NUL at size, single owner, no leak / double free / out-of-bounds write) and the per-operation size and content '
          'clauses are discharged. Being inductive, the invariant holds after any finite history, moved-from objects included.'),
    note=('relative to: clang-14 lowering, STIR and its models of char_traits and operator new[]/delete[]; element counts < 2^47; '
          'user writes through data() are outside the analysis'),
    technique='static analysis: path-sensitive abstract interpretation over LLVM IR (ownership + linear-term/interval domains), inductive class invariant')
CLAIMS['C16'] = dict(
    level='proof',
    text=('Every mutating member of ST::string_stream is abstractly interpreted from both storage modes (and this==other for move '
          'assignment); the class invariant and the byte-string-model clause of each operation (where the appended range lands, how '
          'm_size changes, that growth preserves [0,m_size), what a move leaves in source and target) are discharged at every exit; the '
          'doubling loop is handled by widening with inductively verified bounds; every operator<< is shown to write the stream only '
          'through verified members; to_string hands (raw_buffer(), size()) to from_utf8 with the requested mode resp. to from_latin_1; a text '
          'rendered by snprintf straight into the stream counts only if snprintf reported less than the space given; no member hands the storage of a '
          'counted text argument (ST::string, buffer, std::basic_string, string_view) to a parameter that its callee measures as a NUL-terminated string. Induction over operations gives content == concatenation for all histories.'),
    note=('relative to: clang-14 lowering, STIR and its models; sizes < 2^47; the bytes produced by conversions and number formatting '
          'that operator<< inserts are the subject of C01/C03/C12/C13, not of this check'),
    technique='static analysis: path-sensitive abstract interpretation over LLVM IR with loop widening + Houdini invariants; call-graph funnel')
CLAIMS['C19'] = dict(
    level='proof',
    text=('At every operator new[] inside the two owner classes the interpreter forks a std::bad_alloc path; at each exceptional exit '
          'every object satisfies its class invariant, no block is leaked or freed twice and the target is unchanged or empty. '
          'Module-wide facts close the argument for the rest of the library: raw allocation only in the owners, no noexcept boundary '
          'around a may-throw callee, no landing pad that swallows bad_alloc, only owners release storage.'),
    note=('relative to: clang-14 lowering, STIR, throw model of externals; a single failing allocation per operation; operations '
          'outside the owners hold owners by value so unwinding releases through the verified destructors'),
    technique='static analysis: abstract fault enumeration at allocation sites (STIR) + throw-set / landing-pad / allocation-site facts over LLVM IR')
CLAIMS['C04'] = dict(
    level='proof',
    text=('Closed representation (struct layouts; only members of buffer<T>/string_stream store to the owner fields, checked on the IR; '
          'compile-fail witnesses for privacy and const handles), deep write-freedom of every const member / const-reference function, '
          'no bitwise copies of owner objects, the mutator allow-list of ST::string, and read-before-write ordering for raw pointer / '
          'view arguments (self-reference). With C05\'s inductive exclusive-ownership invariant this proves that reads never mutate and '
          'no two live strings share storage, for all operation sequences. R04.9: the owner invariant of each of the four buffer types (pointer and size class agree at the small-buffer limit of that type, long contents in an exclusively owned block) is established for every member that leaves a value behind, by the owner analysis shared with C05.'),
    note=('relative to: clang-14 lowering, effect summaries by pointer provenance (model of externals by declared const-ness), C05; '
          'that returned VALUES are the right bytes is the subject of C07-C09, not of this check'),
    technique='static analysis: effect summaries + IR encapsulation rules + CFG event ordering + compile-fail witnesses')
CLAIMS['C18'] = dict(
    level='proof',
    text=('For every library function that may write a string / buffer / string_stream / std::basic_string / numeric formatter object through `this` or a non-const '
          'reference (143 target parameters) and every rvalue parameter it may move from, a forward analysis over the function\'s CFG '
          'shows that no throw expression of the function itself and no call whose throw set contains unicode_error / codec_error / bad_format / out_of_range can follow the first '
          'write to the target or the consumption of the rvalue. Throw sets and write/move effects come from whole-module summaries; an exception raised only behind a test of the failure return of a C library call is reported undecided (its feasibility is not an effect-order question).'),
    note=('relative to: clang-14 lowering, effect and throw summaries, CFG paths not pruned for feasibility (conservative); FILE* / '
          'ostream sinks are not targets; leak-freedom on these paths is C19'),
    technique='static analysis: typestate-style event ordering on CFGs with interprocedural effect and throw summaries')
CLAIMS['C01'] = dict(
    level='proof',
    text=('Bit provenance of every unit written by write_utf8 / write_utf16 and of every scalar decoded by extract_utf8 / extract_utf16 '
          '(and of the Latin-1 loops) is compared bit for bit with Unicode Table 3-6 / 3-5, per value class, the class boundaries being '
          'read off the path conditions; an SSA dataflow rule shows the decoded value reaches the target encoder unmodified in each of the '
          '12 convert loops; the forwarding overloads hand on the (pointer,size) of their own argument. With C03 (unit-exact loops) and '
          'C02 (mode independence on well-formed classes) this gives the standard encoding of the same scalars for any chain of conversions. R01.4 also holds the accept-class obligations of every converter (each class of well-formed or tolerated units is accepted in every mode and advances the output alike), shared with C02.'),
    note=('relative to: clang-14 lowering, STIR + bit-provenance evaluator, the transcribed tables; 32-bit wchar_t only; ST::string members and '
          'literal operators are covered as forwarders of the st_utf_conv.h entry points through C03 R03.3/R03.5, not re-derived here'),
    technique='static analysis: abstract interpretation with a bit-provenance domain vs the Unicode encoding tables; SSA dataflow; call-graph forwarding')
CLAIMS['C02'] = dict(
    level='proof',
    text=('The decision table of the property is enumerated as abstract input classes (range of each unit at the cursor x units remaining: '
          '48 UTF-8, 10 UTF-16, 3 UTF-32 classes); validate_utf8, cleanup_utf8, extract_utf8 and every converter are interpreted for one '
          'arbitrary iteration under each class, mode and flag (735 runs) and must accept / reject / substitute exactly as the table says, '
          'skipping exactly one unit on rejection; an accepting iteration that steps over more units than the sequence at the cursor (a validator skipping runs of ASCII a block at a time) is judged by which units it read on that path: a unit stepped over unread, inside the input, is accepted whatever it is (finding; witness: a stray continuation byte there). Every converter that takes a mode is also interpreted exactly (no loop abstraction) on all '
          'inputs of one and of two units under substitute_invalid and returns the success code on every path (substitution never fails). '
          'Error mapping, set() dispatch, substitute constants and the spelling of all 111 '
          'instantiated default arguments (AST query) complete the argument; induction over iterations extends it to whole inputs. Concatenation of raw text (operator+ with const char* / char8_t*, which += forwards to) hands the validator exactly the raw operand: a validated range that also holds bytes of the ST::string operand (followed through bulk copies) is a finding.'),
    note=('relative to: clang-14 lowering, STIR, the transcribed table; behaviour of assume_valid on malformed input is only required to be '
          'total (C03); 5 default arguments in never-instantiated 16-bit-wchar_t templates are not covered'),
    technique='static analysis: exhaustive abstract case analysis by path-sensitive interpretation of loop iterations; clang-query AST facts')
CLAIMS['C03'] = dict(
    level='proof',
    text=('For each of the 12 measure/convert pairs (+ cleanup_utf8 run twice, + validate_utf8) one arbitrary loop iteration is interpreted '
          'with the cursor symbolic; convert continues in the abstract state where measure ended, so only consistent path pairs (438) are '
          'compared: same units consumed, stored units = measured units, stores contiguous, every input read inside [input,input+size), '
          'at least one unit consumed, no assertion reachable. Induction over iterations gives exact sizing and memory safety for inputs '
          'of any length below the documented 2^28 bound; wrapper wiring and throw sets come from the fact base.'),
    note=('relative to: clang-14 lowering, STIR; inputs < 2^28 units (library contract); the result object\'s size()/NUL is C05\'s allocate; '
          '32-bit wchar_t'),
    technique='static analysis: per-iteration step summaries in lockstep (abstract interpretation), inductive argument over loop iterations')
CLAIMS['C10'] = dict(
    level='proof',
    text=('The whole parser (apply_format with fetch_prefix, next_format, parse_format interpreted in place) runs over an abstract '
          'NUL-terminated text of symbolic length; the three loops are widened and the cursor invariants (cursor <= L, < L, '
          'm_format_str <= next) are inferred as candidates and verified inductive, so every read is proved to be at or before the '
          'terminating NUL, every loop iteration to advance, the formatter table to be indexed below its size and parse_format\'s '
          'precondition to hold - for format strings of any length and content. Throw sets (virtual dispatch restricted to the writer the '
          'entry constructs), the assertion inventory, the digit-class defaults and the null guards of the pointer overloads close the claim. '
          'The first two iterations of parse_format are additionally interpreted exactly (witnesses over the text alone); C string writers '
          '(strcat / strncat / strcpy / strncpy) carry a capacity obligation on their destination. The two layout routines every field passes through (format_string, format_numeric_string) are interpreted with every member of the spec free - the width and precision are whatever int the format text narrows to - : every count handed to append_char is bounded by the field width, every run handed to append and every read of the text argument lies inside [text, text + size) (witnesses otherwise, e.g. a width of -2^31 turning into a count near 2^64).'),
    note=('relative to: clang-14 lowering, STIR, the model of strtol (reads from its argument up to at most the NUL; end >= start, > start '
          'on a leading decimal digit); user-defined format_type overloads and iostream internals are outside; assertions of the '
          'floating-point renderer are C13, of the converters C02/C03'),
    technique='static analysis: abstract interpretation over a symbolic NUL-terminated text with widening + Houdini-verified loop invariants; throw-set and assertion facts')
CLAIMS['C08'] = dict(
    level='proof',
    text=('substr, left and right are interpreted with start, count and n free over their whole 64-bit type and a symbolic string size in '
          'both storage classes; on every path the copied range lies inside the string, no allocation exceeds the source, and the '
          '(offset,length) of the result is compared with the clamp formula of the property (mismatches come with concrete witnesses; a path whose own conditions do not single out a case of the formula is refined by each case in turn). '
          'The trim walks are shown to stay inside [0,size] (widening with verified cursor bounds) and to call substr inside the string. '
          'The 12 before_/after_ overloads are interpreted with the search result as a symbol: on a match the slice is left(i) / '
          'substr(i + length of the separator searched for), without a match the whole / empty string as the property tabulates; every read '
          'of the string\'s storage on every explored path of these members lies inside it (a violation comes with a witness). A trim that tests units against a folded form of the character set (bit set, table) instead of find_cs: the place it reads, as a function of the unit (bit provenance of offset and shift), must differ for any two unit values (witness: two units selecting the same place). Any further trim overload reaches its charset core or, if it walks with a predicate of the unit alone, accepts exactly the bytes of ST_WHITESPACE (finite case analysis). A walk whose membership test is strchr(set, unit) must not move over a unit that may be NUL (strchr also finds the terminator of the set).'),
    note=('relative to: clang-14 lowering, STIR, C05 (storage of size()+1 units terminated at size()), C07 for the meaning of the index '
          'returned by find/find_last; which bytes a trim removes (membership in the set) is delegated to find_cs'),
    technique='static analysis: abstract interpretation with free scalars at full range (linear terms + intervals), oracle clamp formula, witness search')
CLAIMS['C06'] = dict(
    level='proof',
    text=('The comparison cores (buffer<T>::compare for 4 element types, compare_ci) are interpreted with both sizes free over 64 bits '
          'and the prefix comparator as an opaque three-valued symbol: in all 9 (comparator sign x size order) cases the result is the '
          'comparator verdict, else has the sign of the size difference (concrete witnesses otherwise, e.g. lengths 0 and 2^32), and the '
          'prefix length is min(lsize,rsize); the maxlen forms clamp and delegate. The ASCII fold maps are compared class by class with '
          'A-Z<->a-z; an SSA rule keeps unfolded units out of compare_ci / find_ci / hash_i; compare_ci\'s step (one folded unit each side, '
          'difference iff different) and the derived members / operators of ST::string, the compare / compare_n / == / != / < members of all four '
          'buffer<T> types (small and large operands) and less_i / equal_i (core on (data,size) of both operands, right predicate, null '
          'pointer = empty, no read past a C string\'s NUL; an equality that bypasses the ordering core must reject different sizes and '
          'otherwise compare exactly size() units of both storages) are checked by interpretation; no comparison / search member hands the string to a '
          'C primitive that stops at the first NUL (strcmp family; expected-zero rule with a positive control). Every library routine reachable from the compare family that orders units after a fold orders them after the same fold as the core (R06.8: units folded by the other map must not reach a subtraction or an ordering comparison; witness \'_\' against \'x\').'),
    note=('relative to: clang-14 lowering, STIR, std::char_traits<T>::compare being unsigned lexicographic (libstdc++); antisymmetry and '
          'transitivity follow from the lexicographic structure and are not mechanised separately; hash equality for equal strings follows from '
          'hash being a function of the bytes [0,size) only (C04/C20 effects)'),
    technique='static analysis: abstract interpretation with opaque comparator symbol and full-range sizes, exhaustive sign-case analysis, SSA taint rule')
CLAIMS['C12'] = dict(
    level='proof',
    text=('All 12 signed integer printers (from_int cores, ST::format\'s numeric renderer, string_stream <<) are interpreted with the value '
          'free over its whole type: the term handed to the digit generator (uint_formatter::format, or any function recognised by its divide-by-radix loop) equals |value| in the width the generator takes on every path, a caller that passes a position inside its own buffer leaves room for one unit per bit of the magnitude (a path that renders without the '
          'digit generator may not have written fewer characters than the value needs in the radix), no signed operation on the '
          'way can overflow (witness: the most negative value) and no abs() family call exists; the digit loop of every uint_formatter<U> '
          'is summarised per iteration (value := value / radix, one unit stored backwards, from index digits of a digits+1 buffer) which '
          'with the halving lemma bounds it by the width of U; the character stored per digit value and case flag is checked by finite case analysis, also on paths that bypass the loop (witness value / radix / case); the 7 parsing members are interpreted against the ok / full_match table '
          'with the strto* end position symbolic (embedded NULs included). R12.5: the narrowing parsing members return their wide sibling\'s result converted to the narrow width on every path (the wide member a free symbol, errno an ordinary object; witness otherwise).'),
    note=('relative to: clang-14 lowering, STIR, the strto* model and the lemma that division by a radix >= 2 reaches 0 within bit-width '
          'steps; bases 2..36; what strto* returns and that the quotient/remainder sequence spells the canonical digits is libc / arithmetic'),
    technique='static analysis: abstract interpretation with full-range integers (overflow events, magnitude term vs oracle), loop step summary + arithmetic lemma')
CLAIMS['C13'] = dict(
    level='other',
    text=('Equality with printf holds by delegation to the same C library; what is decided statically is everything around that call, for '
          'all 16 (sign flag, precision given, notation) combinations of ST::format\'s renderer and for float_formatter: the assembled '
          'conversion string is exactly %[+][.digits]{e,E,f,g} NUL-terminated (assembled in a buffer, or a literal with the precision passed through .*), the size given to snprintf is the size of its destination, no '
          'assertion is reachable whatever snprintf reports - any length (an unbounded symbol) or, when the conversion carries a precision, its failure return (<= 0: the rendering does not fit an int) -, the emitted length is the reported '
          'one and the pad count is width - length on the requested side; the renderer throws only on a path on which snprintf reported failure (model of the precision otherwise); to_float / to_double call strtof / strtod directly and follow '
          'the ok / full_match table.'),
    note=('relative to: clang-14 lowering, STIR, the snprintf model (writes at most size bytes, returns the untruncated length >= 1, or a value <= 0 when a precision / width in the conversion string can make the rendering longer than INT_MAX); the '
          'digits produced are libc\'s - not analysed, which is why the level is not "proof" of the value equation'),
    technique='static analysis: abstract interpretation around the libc call with the printed length symbolic; conversion-string reconstruction per flag combination')
CLAIMS['C14'] = dict(
    level='proof',
    text=('The four constant tables are compared entry by entry with RFC 4648 (alphabets; decode tables are their inverses, hex also A-F, '
          'everything else incl. \'=\' is -1; a decode table in another form than 256 ints is a finding only for an entry wrong under both the signed and the unsigned reading, else undecided). Bit provenance of every table index computed by every function that holds an encoding loop (plain '
          'or template instantiation; the table is any constant that is the alphabet) (hex nibbles; base64 full group '
          'and both tail forms with their \'=\' count) and of every byte rebuilt by the decoders from the table values is compared bit for bit '
          'with the RFC layout, per loop iteration (so for any length); a byte that depends on a table value of another group is flagged. '
          'Allocation terms (size*2, ((size+2)/3)*4) and the sharing of one decoder core by both decoder forms complete decode(encode(x)) == x.'),
    note=('relative to: clang-14 lowering, STIR + bit-provenance evaluator, the transcribed RFC alphabets; a codec rewritten without lookup '
          'tables or not of the group-per-iteration form is reported undecided, not wrong; the identity 4*floor(n/3)+4*[n%3!=0] == 4*ceil(n/3) is stated'),
    technique='static analysis: constant-table comparison + abstract interpretation with a bit-provenance domain per loop iteration')
CLAIMS['C15'] = dict(
    level='other',
    text=('Both decoder cores are interpreted over a symbolic string and a caller buffer whose claimed size ranges over the whole type: every '
          'table value is known non-negative where it contributes to a byte; oracle classes of RFC 4648 (7 hex / 9 base64 byte ranges x every '
          'position of a group) are accepted / rejected exactly; success paths have passed the length test; with a null output nothing is '
          'stored and the implied length is returned; stores are contiguous from the output cursor and inside the buffer, lookups in constant tables inside the table (model of the path otherwise), reads inside the '
          'string (affine cursor relations inferred and verified, facts combined by elimination). For hex this is complete. For base64 the '
          'placement of the tail group (that it is the last four characters) needs a divisibility argument outside the domains: its accesses '
          'are reported undecided - hence level "other", not proof. R15.5: b64_decode is interpreted exactly on one- and two-group inputs constrained by twenty digit / \'=\' patterns - the three well-formed endings return the decoded length, every other placement of \'=\' returns -1 on every path (state carried between groups shows on the two-group patterns).'),
    note=('relative to: clang-14 lowering, STIR, C14 R14.1 for what the tables accept; base64 tail bounds undecided (stated in DESIGN.md and '
          'in the evidence as `undecided`)'),
    technique='static analysis: abstract interpretation with oracle byte classes, sign-test dominance, inferred affine loop invariants, witness search')
CLAIMS['C09'] = dict(
    level='other',
    text=('The five searching loops (split x3, the two scans of replace) are summarised per iteration by abstract interpretation with the '
          'search primitive as a symbol (match inside the haystack or none; the primitive is find_cs / find_ci or any library function recognised as a substring search by its shape, whose treatment of an empty needle is established by interpreting it once with length 0). Machine-checked step facts: the needle handed to the '
          'search is never empty (an empty separator / pattern leaves the text whole); the next search starts at match + length of the '
          'needle searched for; split emits the piece [cursor, match) and decrements max_splits once per piece, the final piece reaches '
          'the end; the sizing scan of replace adds |to|-|from| (mod 2^64) per occurrence and the copying scan copies the gap then `to` '
          'and advances the output by gap+|to|, both scans issuing the same search; tokenize emits only non-empty ranges of the string, '
          'tests delimiters with find_cs on the whole set and never reads outside [0,size]; a result of replace produced without searching is '
          'justified only by an empty text / pattern or a byte-for-byte identical replacement; a searching loop of a helper that replace calls (a counting pass) must resume behind the whole match like the copying scan; a tokenize that tests units against a folded delimiter set must select a different place for every unit value; every token ends at the end of the string or at a unit found in the delimiter set on that path (walks exact for two rounds; witness: an embedded NUL); for one-unit operands replace and split are interpreted exactly and a returning path without a search on which the case mode decided nothing is a finding when text "X" / pattern "x" can take it. The overloads are shown to forward to the cores. '
          'Decided: these step facts. Not decided: that the search returns the FIRST match (C07), join (a plain concatenation loop), and the '
          'induction from steps to whole-string equations, which is stated in DESIGN.md but not mechanised.'),
    note=('relative to: clang-14 lowering, STIR, C05, C07; a codec that tests delimiters by other means than find_cs is reported undecided'),
    technique='static analysis: per-iteration loop summaries by abstract interpretation over LLVM IR (widening + verified invariants), sibling agreement of the two replace scans')
CLAIMS['C07'] = dict(
    level='other',
    text=('Decided: the step facts and call-site facts from which "first / last occurrence" follows by induction over the scan. The needle '
          'scan cores (find_cs / find_ci) and the backward cores (_find_last, find_last(max,char)) are summarised per iteration by abstract '
          'interpretation with the character search and the prefix comparison as symbols: a candidate is compared only when it fits and given '
          'up for not fitting only when it does not, the comparison is (candidate, needle, |needle|), the scan resumes exactly one unit after a '
          'rejected candidate, a non-null result is a position whose comparison returned 0, the backward window is [cursor, min(max,size)), and a comparison made directly on the text by a written-out backward scan covers a range inside the text and its terminator (model otherwise). '
          'The 23 find / find_last front ends are interpreted with start / max / lengths free over 64 bits: they search exactly '
          '(c_str()+start, size()-start) with start < size and a needle of length >= 1, return match - c_str() or -1, and return -1 without '
          'searching only for an empty / null needle or start >= size; contains == (find >= 0); starts_with / ends_with compare exactly |x| '
          'units at offset 0 / size-|x| under |x| <= size; the hit test of the case-insensitive character scan is decided by finite case analysis '
          'over all (unit, character) pairs; a result taken over from a delegated search must come from the same question (limit, needle, case mode). Not mechanised: the induction from these steps to "smallest / largest index".'),
    note=('relative to: clang-14 lowering, STIR, memchr / memcmp as specified, C06 for compare_ci and the fold; level "other" because the final '
          'induction is stated in DESIGN.md rather than machine-checked'),
    technique='static analysis: per-iteration loop summaries and per-path call-site facts by abstract interpretation over LLVM IR (free scalars at full range, witness search)')
CLAIMS['C11'] = dict(
    level='other',
    text=('Decided over the whole flag space with the values symbolic: for every (sign class, always_signed, class_prefix, digit_class, '
          'numeric_pad, alignment, width, digit count) the unit sequence format_numeric_string hands to the writer - however split into '
          'calls - is sign, radix prefix (none for zero), digits, extended to the width with max(0, width - digits - |sign| - |prefix|) pad '
          'units between sign/prefix and digits (zero-pad), in front (right / default) or behind (left); format_string emits the first '
          'min(size, precision) units and the pad on the side of the alignment (every alignment / default-alignment case judged by the rule itself, for an empty and a non-empty emitted text); every numeric printer hands the radix / letter case of its '
          'digit class to the digit generator and the true sign class to the layout; apply_format dispatches a field without &N to '
          'entry[counter] and advances the counter, &N to entry[N-1] leaving the counter alone; a value given the character class renders as the '
          'UTF-8 encoding of the code point bit for bit (U+FFFD outside 0..10FFFF, negatives included); every flag character of a field text '
          'stores exactly its documented fields of the public ST::format_spec (alignment, pad, numeric_pad, class_prefix, always_signed, digit / '
          'float class, width / precision / index from the decimal number that follows). Not decided here: the digits (C12), what the '
          'parser accepts and the literal / brace copying (C10 covers its safety, not its value), the character class. R11.5 also covers the fronts: for every integer overload the value handed to the character renderer is the argument when it lies in 0..10FFFF and lies outside that range when the argument does, over the whole range of the argument type (found F17).'),
    note=('relative to: clang-14 lowering, STIR, C10, C12, C16; texts < 2^28 units (library contract); level "other": necessary clauses over '
          'the whole configuration space, not the full output equation'),
    technique='static analysis: abstract interpretation of the layout routines with all format_spec fields symbolic; emitted unit sequence vs the rendering table, witness search')
CLAIMS['C17'] = dict(
    level='other',
    text=('Structural argument: a format call emits the sequence of append(data,size) / append_char(ch,count) calls that the one shared '
          'driver makes on the abstract writer, so sinks receive the same bytes iff every concrete writer hands each call to its sink '
          'unchanged. Decided by abstract interpretation with data, size, ch and count symbolic: append of the FILE* / narrow-stream / '
          'string writers is one hand-over of exactly [data, data+size) (fwrite, ostream::write, string_stream::append); the wchar_t / '
          'char16_t / char32_t stream writers write the whole buffer returned by the conversion into that stream\'s encoding '
          '(utf8_to_wchar / utf8_to_utf16 / utf8_to_utf32) of (data,size); append_char emits one unit equal to ch per iteration of a loop '
          'that runs count times (or forwards to string_stream::append_char); every format / format_latin_1 / printf / writef / _stfmt '
          'instantiation builds one writer over its format string and runs apply_format, the string forms ending in to_string(true, mode) '
          'resp. to_string(false, assume_valid); operator<< inserts basic_string(b.data(), b.size()) of to_buffer(b) and operator>> sets '
          'the string from the extracted token (c_str(), size()), a token object that is empty when the extraction starts on every path (a basic_string that outlives the call and is not cleared keeps the previous token when the stream yields none); the string writer, after constructor + append_char / append of a byte >= 0x80, answers to_string(utf8, validation) only through string_stream::to_string with those arguments; an append_char that writes a run in one piece from a std::basic_string block hands over units set to ch in this call. Not decided: that libc / iostream deliver what they are handed, what the '
          'conversions and the driver produce (C01-C03, C10, C11); for a writer that stages bytes in a buffer of its own the call-order clause is decided (no byte of a later call reaches the sink while staged bytes may be pending: witness with one staged byte), that it flushes everything in the end is reported undecided; a writer that transcodes its text in pieces is a finding when a piece can end inside a multi-byte character (witness: a well-formed text with that character across the cut, on a first-iteration path), otherwise undecided. R17.8: the data pointer of append never reaches a function that reads a NUL-terminated string (printf family, fputs, strlen, measuring library functions), and no append_char member hands a buffer of its own to fputs / puts / fputws (a run of NUL characters would arrive empty); in operator>> nothing changes the string after it was set from the token.'),
    note=('relative to: clang-14 lowering, STIR, libc / libstdc++ output primitives trusted, C10 (dispatch only through append / append_char), '
          'C16; writers instantiated in gen/driver.cpp; level "other": necessary hand-over facts plus a stated (not mechanised) induction over the call sequence'),
    technique='static analysis: abstract interpretation of the sink members with symbolic arguments (sink-call events vs the arguments received), call-graph facts for the entry points')
NOT_APPLICABLE = {
}
