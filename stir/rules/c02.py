"""C02 - validation modes accept, reject and repair malformed input correctly.

The decision table of the property (which unit sequences are well-formed, counting the tolerated forms) is the oracle; it
is enumerated as abstract input classes (range of each unit at the cursor x units remaining) and every piece of code that
decides well-formedness is interpreted for one arbitrary loop iteration under each class.

R02.1 the three UTF-8 deciders (validate_utf8, cleanup_utf8, extract_utf8) agree with the oracle on every class
R02.2 per-converter policy on every class and mode: check_validity -> error return (raised by the wrapper); other modes ->
      exactly one substitute unit of the target encoding, one source unit skipped; accepted classes behave alike in all modes
R02.3 raise_conversion_error maps every error code to ST::unicode_error
R02.4 ST::string::set(char_buffer, mode) dispatch: check -> validate+raise then commit, substitute -> cleaned copy, assume -> commit
R02.5 every defaulted utf_validation_t parameter is spelled ST_DEFAULT_VALIDATION (clang-query)
R02.6 the substitute constants are U+FFFD / EF BF BD / '?' and the repaired text re-validates (derived from R02.1)
R02.7 UTF-16 / UTF-32 deciders agree with the oracle (part of R02.2's class enumeration)
"""
import itertools
import re

from ..interp import Interp, Hooks, Budget
from ..state import State, Obj, IntV, PtrV, NULL
from ..terms import Lin, ZERO
from .. import cquery
from . import conv, c03, own
from .common import short, fn_loc

LEVEL = 'proof'
EXPLANATION = ('exhaustive enumeration of the abstract input classes of the property\'s decision table; each decider / converter '
               'iteration is abstractly interpreted under each class and mode and its outcome compared with the table; '
               'default-argument spelling by an AST query; dispatch and error mapping by interpretation with constant modes')

CONT, LOW, HIGH = (0x80, 0xBF), (0x00, 0x7F), (0xC0, 0xFF)


def utf8_classes():
    out = [dict(name='ascii', units=[(0x00, 0x7F)], k=None, need=1, expect='accept'),
           dict(name='stray continuation byte', units=[(0x80, 0xBF)], k=None, need=1, expect='reject'),
           dict(name='bytes F8-FF', units=[(0xF8, 0xFF)], k=None, need=1, expect='reject')]
    for nm, lead, need in (('2-byte lead', (0xC0, 0xDF), 2), ('3-byte lead', (0xE0, 0xEF), 3), ('4-byte lead', (0xF0, 0xF7), 4)):
        for k in range(1, need):
            out.append(dict(name='%s, only %d unit(s) left' % (nm, k), units=[lead], k=k, need=need, expect='reject'))
        for pat in itertools.product((('cont', CONT), ('low', LOW), ('high', HIGH)), repeat=need - 1):
            names = [p[0] for p in pat]
            # the library stops at the first non-continuation byte; later bytes are then irrelevant
            if 'cont' not in names[:1] and any(n != names[0] for n in names[1:]):
                pass
            ok = all(n == 'cont' for n in names)
            out.append(dict(name='%s + %s' % (nm, ','.join(names)), units=[lead] + [p[1] for p in pat], k=None, need=need,
                            expect='accept' if ok else 'reject'))
    return out


def utf16_classes():
    out = [dict(name='non-surrogate (low range)', units=[(0x0000, 0xD7FF)], k=None, need=1, expect='accept'),
           dict(name='non-surrogate (high range)', units=[(0xE000, 0xFFFF)], k=None, need=1, expect='accept'),
           dict(name='high surrogate last', units=[(0xD800, 0xDBFF)], k=1, need=2, expect='reject'),
           dict(name='low surrogate last', units=[(0xDC00, 0xDFFF)], k=1, need=2, expect='reject'),
           dict(name='high,low pair', units=[(0xD800, 0xDBFF), (0xDC00, 0xDFFF)], k=None, need=2, expect='accept'),
           dict(name='high + non-low (below)', units=[(0xD800, 0xDBFF), (0x0000, 0xDBFF)], k=None, need=2, expect='reject'),
           dict(name='high + non-low (above)', units=[(0xD800, 0xDBFF), (0xE000, 0xFFFF)], k=None, need=2, expect='reject'),
           dict(name='low,high pair (tolerated)', units=[(0xDC00, 0xDFFF), (0xD800, 0xDBFF)], k=None, need=2, expect='accept'),
           dict(name='low + non-high (below)', units=[(0xDC00, 0xDFFF), (0x0000, 0xD7FF)], k=None, need=2, expect='reject'),
           dict(name='low + non-high (above)', units=[(0xDC00, 0xDFFF), (0xDC00, 0xFFFF)], k=None, need=2, expect='reject')]
    return out


def utf32_classes():
    return [dict(name='value <= 0xFF', units=[(0x0, 0xFF)], k=None, need=1, expect='accept'),
            dict(name='value 0x100..0x10FFFF', units=[(0x100, 0x10FFFF)], k=None, need=1, expect='accept'),
            dict(name='value above 0x10FFFF', units=[(0x110000, 0xFFFFFFFF)], k=None, need=1, expect='reject')]


def latin1_classes():
    return [dict(name='any byte', units=[(0x0, 0xFF)], k=None, need=1, expect='accept')]


CLASSES = {'utf8': utf8_classes, 'utf16': utf16_classes, 'utf32': utf32_classes, 'latin_1': latin1_classes}


def class_state(cls, eb):
    st = conv.base_state(eb)
    for j, (lo, hi) in enumerate(cls['units']):
        st.rng[conv.unit_atom(eb, j)] = (lo, hi)
    rem = Lin.atom('n') - Lin.atom('cur')
    if cls['k'] is not None:
        ok = st.assume_eq0(rem - cls['k'])
    else:
        ok = st.assume_ge0(rem - cls['need'])
    assert ok
    return st


def ret_code(it):
    v = it.ret
    if isinstance(v, IntV) and not v.lin.t:
        return v.lin.c
    return None


def judge_decider(I, its, cls, eb, kind, m, undecided=None):
    """kind: 'validator' | 'repairer' | 'probe-check' | 'probe-subst'.  Returns list of mismatch strings."""
    bad = []
    if undecided is None:
        undecided = []
    need = cls['need']
    beyond = []
    for it in its:
        if it.kind == 'unreachable':
            continue
        st = it.st
        if it.kind == 'abort':
            bad.append('aborts: %s' % (it.info[1] if it.info and it.info[0] == 'assert' else it.info,))
            continue
        acc = cls['expect'] == 'accept'
        if kind == 'validator':
            if acc:
                if not (it.kind == 'backedge' and st.is_eq0(it.din - need * eb) is True):
                    more = consumed_beyond(I, it, need, eb) if it.kind == 'backedge' else None
                    if more is None:
                        bad.append('expected accept of %d unit(s), got %s' % (need, describe(it, eb)))
                    elif more[0] == 'bad':
                        beyond.append((len(more[1]), more[1]))
                    elif more[0] == 'und':
                        undecided.append(more[1])
            else:
                if not (it.kind == 'ret' and ret_code(it) not in (None, 0)):
                    bad.append('expected rejection, got %s' % describe(it, eb))
        elif kind == 'repairer':
            if it.kind != 'backedge':
                bad.append('expected the loop to continue, got %s' % describe(it, eb))
                continue
            copies = [e for e in st.events if e[0] == 'copy' and isinstance(e[2], PtrV) and e[2].obj == 'OUT']
            if acc:
                ok = st.is_eq0(it.din - need) is True and it.dout is not None and st.is_eq0(it.dout - need) is True
                if ok and need > 1:
                    bulk = len(copies) == 1 and isinstance(copies[0][3], PtrV) and copies[0][3].obj == 'IN' and \
                        st.is_eq0(copies[0][3].off - Lin.atom('cur')) is True and st.is_eq0(copies[0][4] - need) is True
                    # ... or unit by unit: store k is the unit read at cursor + k
                    single = not copies and len(it.stores) == need and all(
                        isinstance(e[4], IntV) and e[4].lin.single_atom() is not None and e[4].lin.single_atom()[0] == conv.unit_atom(1, k)
                        for k, e in enumerate(it.stores))
                    if not (bulk or single):
                        if copies or it.stores:
                            undecided.append('the %d unit(s) of an accepted sequence reach the output by other means than one copy or %d stores: not compared' % (need, need))
                            continue
                        ok = False
                if not ok:
                    bad.append('expected the %d unit(s) copied verbatim, got %s' % (need, describe(it, eb)))
            else:
                ok = st.is_eq0(it.din - 1) is True and it.dout is not None and st.is_eq0(it.dout - 3) is True and len(copies) == 1 and \
                    isinstance(copies[0][3], PtrV) and copies[0][3].obj.startswith('G:') and \
                    substitute_bytes(st, copies[0][3]) == [0xEF, 0xBF, 0xBD]
                if not ok:
                    bad.append('expected EF BF BD substituted for exactly one unit, got %s' % describe(it, eb))
        elif kind in ('probe-check', 'probe-subst'):
            if acc:
                if not (it.kind == 'backedge' and st.is_eq0(it.din - need * eb) is True):
                    bad.append('expected a decoded character of %d unit(s), got %s' % (need, describe(it, eb)))
            elif kind == 'probe-check':
                if not (it.kind == 'ret' and ret_code(it) not in (None, 0)):
                    bad.append('expected an error return, got %s' % describe(it, eb))
            else:
                vals = [e[4] for e in it.stores]
                ok = it.kind == 'backedge' and st.is_eq0(it.din - eb) is True and len(vals) == 1 and \
                    isinstance(vals[0], IntV) and not vals[0].lin.t and vals[0].lin.c == 0xFFFD
                if not ok:
                    bad.append('expected U+FFFD for exactly one unit, got %s' % describe(it, eb))
    return bad + [t for (_k, t) in sorted(beyond)]         # shortest stepped-over run first


def consumed_beyond(I, it, need, eb):
    """An accepting iteration that moves the cursor further than the sequence at the cursor (a validator that steps over a run of
    units at a time).  That is right iff every further unit is itself acceptable; decided here: a unit that is stepped over
    without having been read on this path is accepted whatever it is - a finding, the witness being a stray continuation unit
    there.  ('ok',) / ('bad', text) / ('und', text) / None (fewer units than the sequence: not this case)."""
    st = it.st
    d = it.din
    if d is None or d.t or d.c <= need * eb or d.c % eb or d.c > 4096:
        if d is not None and (d.t or d.c > need * eb):
            return ('und', 'an accepting iteration moves the cursor by %r bytes: the units stepped over are not judged' % (d,))
        return None
    base = Lin.atom('cur').scale(eb)
    read = set()
    for e in st.events:
        if e[0] == 'in-load' and isinstance(e[2], Lin):
            o = e[2] - base
            if not o.t and o.c % eb == 0:
                read.add(o.c // eb)
        elif e[0] == 'copy' and isinstance(e[3], PtrV) and e[3].obj == 'IN' and isinstance(e[4], Lin):
            o = e[3].off - base
            if not o.t and not e[4].t:
                for b in range(o.c, o.c + e[4].c, eb):
                    read.add(b // eb)
            else:
                return ('und', 'an accepting iteration moves the cursor by %d bytes after a bulk read of unknown extent' % d.c)
    units = d.c // eb
    blind = [j for j in range(need, units) if j not in read]
    # ... and lies inside the input on this path (a cursor stepping beyond the end consumes nothing)
    inside = []
    for j in blind:
        room = Lin.atom('n') - Lin.atom('cur') - j - 1
        if st.is_ge0(room) is True:
            inside.append(j)
        elif st.is_ge0(room) is None:
            env = st.find_model([room], lambda v: v[0] >= 0)
            if env is not None:
                inside.append(j)
    if blind and not inside:
        if all(st.is_ge0(Lin.atom('cur') + j - Lin.atom('n')) is True for j in blind):
            return ('ok',)
        return ('und', 'steps over unit[cur+%d] unread; whether it lies inside the input on that path is not decided' % blind[0])
    blind = inside
    if blind:
        return ('bad', 'accepts and steps over %d unit(s) in one iteration, but unit[cur+%d] is never read on that path: whatever stands '
                'there is accepted unexamined (e.g. a stray continuation unit 0x80, which must be rejected); witness: %d ASCII units followed by 0x80' %
                (units, blind[0], blind[0]))
    plain = all(conv.unit_atom(eb, j) in st.rng and st.rng[conv.unit_atom(eb, j)][1] < 0x80 for j in range(need, units))
    if plain:
        return ('ok',)
    return ('und', 'accepts and steps over %d units in one iteration, all of them read: whether each is acceptable is not decided' % units)


def substitute_bytes(st, p):
    o = st.objs.get(p.obj)
    if o is None or p.off.t:
        return None
    d = o.attrs.get('data')
    if not d:
        return None
    return list(d[p.off.c:p.off.c + 3])


def describe(it, eb):
    if it.kind == 'backedge':
        return 'continue (consumed %r bytes, produced %r bytes)' % (it.din, it.dout)
    if it.kind == 'ret':
        return 'return %r' % (it.ret,)
    return it.kind


def find(m, F, prefix):
    for name in F.lib:
        f = m.func(name)
        if f.dem.startswith(prefix):
            return f
    return None


def deciders(run, m, F, E):
    validate = find(m, F, '_ST_PRIVATE::validate_utf8(char const*, unsigned long)')
    cleanup = find(m, F, '_ST_PRIVATE::cleanup_utf8(char*, char const*, unsigned long)')
    probe = find(m, F, '_ST_PRIVATE::utf32_convert_from_utf8(')
    run.need(validate and cleanup and probe, 'validate_utf8 / cleanup_utf8 / utf32_convert_from_utf8 not found')
    modes = dict(c03.modes(m))
    n = 0
    nargs = [PtrV('IN'), IntV(64, Lin.atom('n'), 'u')]
    for cls in utf8_classes():
        n += 1
        for (label, fn, kind, args, ebd) in (
                ('validate_utf8', validate, 'validator', nargs, 1),
                ('cleanup_utf8', cleanup, 'repairer', [PtrV('OUT')] + nargs, 1),
                ('extract_utf8 (check_validity)', probe, 'probe-check', None, 4),
                ('extract_utf8 (substitute_invalid)', probe, 'probe-subst', None, 4)):
            I = Interp(m, F, E, conv.ConvHooks(1, ebd))
            st = class_state(cls, 1)
            if args is None:
                mode = modes['check_validity'] if kind == 'probe-check' else modes['substitute_invalid']
                args2 = c03.conv_args(I, fn, mode, 0, 1)
            else:
                args2 = args
            its = conv.run_iteration(I, fn, st, args2, 1, ebd)
            its = [it for it in its if not (it.kind == 'ret' and st_cursor_at_end(it))]
            if any(it.kind == 'untracked' for it in its) or not its:
                run.ob('R02.1', label, None, 'the loop does not move a recognised cursor over the input: class not judged' if its else 'no path explored',
                       disc=cls['name'], loc=fn_loc(fn))
                continue
            und_ = []
            bad = judge_decider(I, its, cls, 1, kind, m, und_)
            if not bad and und_:
                run.ob('R02.1', label, None, und_[0], disc=cls['name'], loc=fn_loc(fn))
                continue
            run.ob('R02.1', label, not bad, bad[0] if bad else '%s as the table says (%d path(s))' % (cls['expect'], len(its)),
                   disc=cls['name'], loc=fn_loc(fn))
    return n


def st_cursor_at_end(it):
    """Loop-exit return of the widened header (cursor == size): not an iteration."""
    return it.st.is_ge0(Lin.atom('cur') - Lin.atom('n')) is True


SUBST = {1: None, 2: 0xFFFD, 4: 0xFFFD}


def short_inputs(run, m, F, E, pairs):
    """R02.7: substitute_invalid never fails.  Each converter that takes a mode is interpreted exactly (no abstraction of the loop) on
    every input of one and of two units under substitute_invalid: every path must return the success code (Latin-1 output without
    the substitute flag may still report a character it cannot represent)."""
    modes = dict(c03.modes(m) or [])
    errs = m.enums.get('_ST_PRIVATE::conversion_error_t', {})
    if 'substitute_invalid' not in modes:
        return 0

    class XH(Hooks):
        unroll = 4
        widen_on_entry = False
        max_depth = 8
        max_paths = 8000
    n = 0
    for p in pairs:
        C = p.C
        if len(C.params) < 4 or getattr(p, 'cargs', None):
            continue
        eb_src = conv.elt_bytes(C.params[1]['ty'])
        has_flag = len(C.params) >= 5
        subject = '%s <- %s' % (p.tgt, p.src)
        for fl in ([0, 1] if has_flag else [0]):
            allowed = set([0])
            if p.tgt == 'latin_1' and fl == 0:
                allowed.add(errs.get('latin1_out_of_range'))
            for size in ((1, 2, 3, 4) if run.tier == 'thorough' else (1, 2)):
                n += 1
                XH.unroll = size + 2
                I = Interp(m, F, E, XH())
                st = conv.base_state(eb_src)
                st.rng['n'] = (size, size)
                st.rng['cur'] = (0, 0)
                disc = 'substitute_invalid%s / %d unit(s)' % ('/substitute_out_of_range=%d' % fl if has_flag else '', size)
                try:
                    outs = I.run(I.start(C, c03.conv_args(I, C, modes['substitute_invalid'], fl, eb_src), st))
                except Budget as e:
                    run.ob('R02.7', subject, None, 'not interpreted exactly: %s' % e, disc=disc, loc=fn_loc(C))
                    continue
                bad, und = [], []
                nret = 0
                for o in outs:
                    if o.kind == 'ret':
                        nret += 1
                        v = o.val
                        if not isinstance(v, IntV):
                            und.append('return value not tracked')
                            continue
                        lo, hi = o.st.range(v.lin)
                        if lo == hi and lo in allowed:
                            continue
                        ins = [Lin.atom(a) for a in o.st.rng if isinstance(a, str) and re.match(r'^IN\.\d+$', a)]
                        env = o.st.find_model(ins + [v.lin], lambda vals: vals[-1] not in allowed)
                        if env is not None:
                            names = dict((v2, k2) for k2, v2 in errs.items())
                            from . import own
                            bad.append('reports %s although the caller asked for substitution; witness input %s' %
                                       (names.get(lo, 'code %s' % (lo if lo == hi else '?')), ', '.join(
                                           'unit[%d]=0x%X' % (int(a[3:]) // eb_src, v3) for a, v3 in sorted(env.items()) if isinstance(a, str) and a.startswith('IN.')) or own.fmt_env(env) or '(any)'))
                        else:
                            und.append('return value %r not decided to be the success code' % (v.lin,))
                    elif o.kind == 'abort':
                        pass        # totality is C03's subject
                    elif o.kind not in ('unreachable',):
                        und.append('a path ends in %s' % o.kind)
                if not nret:
                    und.append('no returning path')
                run.ob('R02.7', subject, False if bad else (None if und else True), bad[0] if bad else und[0] if und else
                       'success on all %d path(s)' % nret, disc=disc, loc=fn_loc(C))
    return n


def policy(run, m, F, E, pairs):
    modes = c03.modes(m)
    errs = m.enums.get('_ST_PRIVATE::conversion_error_t', {})
    n = 0
    for p in pairs:
        C = p.C
        if p.src not in CLASSES or getattr(p, 'cargs', None):
            continue
        eb_dst = conv.elt_bytes(C.params[0]['ty'])
        eb_src = conv.elt_bytes(C.params[1]['ty'])
        has_mode = len(C.params) >= 4
        has_flag = len(C.params) >= 5
        subject = '%s <- %s' % (p.tgt, p.src)
        for cls in CLASSES[p.src]():
            per_mode = {}
            for (mname, mv) in (modes if has_mode else [('n/a', 0)]):
                for fl in ([0, 1] if has_flag else [0]):
                    n += 1
                    I = Interp(m, F, E, conv.ConvHooks(eb_src, eb_dst))
                    st = class_state(cls, eb_src)
                    its = conv.run_iteration(I, C, st, c03.conv_args(I, C, mv, fl, eb_src), eb_src, eb_dst)
                    its = [it for it in its if not (it.kind == 'ret' and st_cursor_at_end(it)) and it.kind != 'unreachable']
                    label = mname + ('/substitute_out_of_range=%d' % fl if has_flag else '')
                    bad = []
                    sig = []
                    if any(it.kind == 'untracked' for it in its):
                        run.ob('R02.2', subject, None, 'the loop does not move a recognised cursor over the input: class not judged', disc=cls['name'] + ' / ' + label, loc=fn_loc(C))
                        continue
                    for it in its:
                        s2 = it.st
                        if it.kind == 'abort':
                            bad.append('aborts (%s)' % (it.info[1] if it.info and it.info[0] == 'assert' else it.info,))
                            continue
                        if cls['expect'] == 'reject':
                            if mname == 'check_validity':
                                if not (it.kind == 'ret' and ret_code(it) not in (None, 0)):
                                    bad.append('check_validity must report the malformed unit, got %s' % describe(it, eb_src))
                            elif mname == 'substitute_invalid':
                                ok = it.kind == 'backedge' and s2.is_eq0(it.din - eb_src) is True and it.dout is not None
                                if ok:
                                    ok = substitute_ok(s2, it, p.tgt, eb_dst)
                                if not ok:
                                    bad.append('%s must store one substitute unit and skip one source unit, got %s' % (mname, describe(it, eb_src)))
                            else:
                                # assume_valid on malformed input: unspecified beyond totality (C03); it must not abort
                                pass
                        else:
                            if it.kind == 'backedge':
                                if s2.is_eq0(it.din - cls['need'] * eb_src) is not True:
                                    bad.append('well-formed sequence of %d unit(s) consumed as %r bytes' % (cls['need'], it.din))
                                sig.append(('cont', repr(it.dout)))
                            elif it.kind == 'ret':
                                code = ret_code(it)
                                allowed = [errs.get('latin1_out_of_range')] if (p.tgt == 'latin_1' and fl == 0) else []
                                if mname == 'check_validity' and p.tgt in ('utf16', 'utf8', 'latin_1') and p.src == 'utf8':
                                    # a tolerated UTF-8 form (4 bytes above U+10FFFF) that the target cannot represent; UTF-16 / UTF-32
                                    # sources of an accepted class hold scalar values up to U+10FFFF only, which every target takes
                                    allowed.append(errs.get('out_of_range'))
                                if code in (None, 0) or code not in allowed:
                                    bad.append('well-formed input rejected with code %r under %s' % (code, label))
                                sig.append(('err', code))
                    if not its:
                        bad.append('no path explored')
                    per_mode[label] = sorted(set(sig), key=repr)
                    run.ob('R02.2', subject, not bad, bad[0] if bad else '%s: %s' % (cls['expect'], ', '.join(describe(it, eb_src) for it in its[:2])),
                           disc='%s / %s' % (cls['name'], label), loc=fn_loc(C))
            # accepted classes: same continuing behaviour in every mode (mode independence on well-formed input)
            if cls['expect'] == 'accept' and has_mode:
                conts = dict((k, [s for s in v if s[0] == 'cont']) for k, v in per_mode.items())
                groups = {}
                for k, v in conts.items():
                    groups.setdefault(k.split('/')[1] if '/' in k else '', []).append((k, v))
                for g, lst in groups.items():
                    vals = [v for (k, v) in lst if v]
                    same = all(v == vals[0] for v in vals) if vals else True
                    run.ob('R02.2', subject, same, 'output advance independent of the mode' if same else
                           'output advance differs between modes: %s' % '; '.join('%s=%s' % kv for kv in lst), disc='%s / mode independence %s' % (cls['name'], g))
    return n


def substitute_ok(st, it, tgt, eb_dst):
    if tgt == 'utf8':
        copies = [e for e in st.events if e[0] == 'copy' and isinstance(e[2], PtrV) and e[2].obj == 'OUT']
        return st.is_eq0(it.dout - 3) is True and len(copies) == 1 and isinstance(copies[0][3], PtrV) and \
            copies[0][3].obj.startswith('G:') and substitute_bytes(st, copies[0][3]) == [0xEF, 0xBF, 0xBD]
    want = 0x3F if tgt == 'latin_1' else 0xFFFD
    vals = [e[4] for e in it.stores]
    if st.is_eq0(it.dout - eb_dst) is not True or len(vals) != 1 or not isinstance(vals[0], IntV):
        return False
    v = vals[0]
    lo, hi = st.range(v.lin)
    return lo == hi == want


def error_mapping(run, m, F, E):
    f = find(m, F, '_ST_PRIVATE::raise_conversion_error(')
    run.need(f is not None, 'raise_conversion_error not found')
    errs = m.enums.get('_ST_PRIVATE::conversion_error_t')
    run.need(errs, 'enum conversion_error_t not found in debug info')
    n = 0
    for name, val in sorted(errs.items(), key=lambda x: x[1]):
        n += 1
        I = Interp(m, F, E, Hooks())
        from ..state import State
        st = I.start(f, [IntV(32, Lin.const(val), 'u')], State())
        outs = I.run(st)
        kinds = sorted(set((o.kind, o.val[0] if o.kind == 'throw' and o.val else None) for o in outs))
        if val == 0:
            ok = kinds == [('ret', None)]
            run.ob('R02.3', 'raise_conversion_error', ok, 'success returns normally' if ok else 'success code does not simply return: %s' % kinds, disc=name)
        else:
            ok = kinds == [('throw', 'ST::unicode_error')]
            run.ob('R02.3', 'raise_conversion_error', ok, 'raises ST::unicode_error' if ok else 'error code is not turned into ST::unicode_error: %s' % kinds, disc=name)
    return n


class TraceHooks(Hooks):
    """Record library calls without entering them."""
    def __init__(self, m, stop_re):
        self.m = m
        self.stop_re = stop_re

    def call(self, I, st, inst, name, args):
        if name is None:
            return None
        d = self.m.dem(name)
        if self.stop_re.match(d):
            st.ev('libcall', inst, d, args)
            if 'raise_conversion_error' in d:
                st.ev('raise-arg', inst, inst.a[0])
            return [(st, None)]
        return None


def set_dispatch(run, m, F, E):
    modes = dict(c03.modes(m))
    stop = re.compile(r'^(_ST_PRIVATE::(validate_utf8|cleanup_utf8_buffer|raise_conversion_error)\(|ST::buffer<char>::(operator=|buffer)\()')
    n = 0
    for name in F.lib:
        f = m.func(name)
        if not re.match(r'^ST::string::set\(ST::buffer<char>( const&|&&), ST::utf_validation_t\)$', f.dem):
            continue
        for mname, mv in sorted(modes.items(), key=lambda x: x[1]):
            n += 1
            I = Interp(m, F, E, TraceHooks(m, stop))
            from ..state import State
            st = State()
            this = I.fresh_ptr(st, 'this')
            init = I.fresh_ptr(st, 'init')
            outs = I.run(I.start(f, [this, init, IntV(32, Lin.const(mv), 'u')], st))
            problems = []
            for o in outs:
                calls = [e[2].split('(')[0] for e in o.st.events if e[0] == 'libcall']
                has = lambda s: any(s in c for c in calls)
                if o.kind != 'ret':
                    problems.append('path ends in %s' % o.kind)
                    continue
                if mname == 'check_validity':
                    if not (has('validate_utf8') and has('raise_conversion_error') and has('operator=') and not has('cleanup_utf8_buffer')):
                        problems.append('check_validity path calls %s' % calls)
                    elif not (calls.index([c for c in calls if 'raise_conversion_error' in c][0]) < calls.index([c for c in calls if 'operator=' in c][0])):
                        problems.append('commit precedes validation')
                    else:
                        # the value raised is the validator's result
                        ra = [e for e in o.st.events if e[0] == 'raise-arg']
                        vi = [e[1] for e in o.st.events if e[0] == 'libcall' and 'validate_utf8' in e[2]]
                        if ra and vi and ra[0][2] != ['v', vi[0].id]:
                            problems.append('raise_conversion_error is not given the validator\'s result')
                elif mname == 'substitute_invalid':
                    if not (has('cleanup_utf8_buffer') and has('operator=') and not has('validate_utf8')):
                        problems.append('substitute_invalid path calls %s' % calls)
                else:
                    if not (has('operator=') and not has('validate_utf8') and not has('cleanup_utf8_buffer')):
                        problems.append('assume_valid path calls %s' % calls)
            run.ob('R02.4', short(f.dem), not problems, problems[0] if problems else 'dispatch as specified', disc=mname, loc=fn_loc(f))
    return n


def defaults(run, m):
    q = '''set output diag
match parmVarDecl(hasType(qualType(hasDeclaration(enumDecl(hasName("::ST::utf_validation_t"))))), hasInitializer(expr(isExpandedFromMacro("ST_DEFAULT_VALIDATION"))), isExpansionInFileMatching("%s")).bind("ok")
match parmVarDecl(hasType(qualType(hasDeclaration(enumDecl(hasName("::ST::utf_validation_t"))))), hasInitializer(expr(unless(isExpandedFromMacro("ST_DEFAULT_VALIDATION")))), isExpansionInFileMatching("%s")).bind("bad")
match parmVarDecl(hasType(qualType(hasDeclaration(enumDecl(hasName("::ST::utf_validation_t"))))), hasDefaultArgument(), unless(hasInitializer(expr())), isExpansionInFileMatching("%s")).bind("uninst")
''' % ((m.repo_include,) * 3)
    rc, out = cquery.run_query(q)
    run.need(rc == 0, 'clang-query failed:\n' + out[-2000:])
    ok = cquery.matches(out, 'ok')
    bad = cquery.matches(out, 'bad')
    un = cquery.matches(out, 'uninst')
    for (fn, ln) in sorted(set(bad)):
        run.ob('R02.5', 'default argument at %s:%d' % (fn, ln), False,
               'a defaulted utf_validation_t parameter is not spelled ST_DEFAULT_VALIDATION: omitting the mode would not follow the configured default',
               disc='%s:%d' % (fn.split('/')[-1], ln), loc='%s:%d' % (fn, ln))
    run.ob('R02.5', 'defaulted utf_validation_t parameters', not bad, '%d spelled ST_DEFAULT_VALIDATION; %d in never-instantiated templates (16-bit wchar_t) not covered' % (len(set(ok)), len(set(un))))
    run.counts['uncovered default arguments (uninstantiated templates)'] = len(set(un))
    return len(set(ok))


def constants(run, m):
    g = [(k, v) for k, v in m.globals.items() if 'badchar_substitute_utf8' in v.get('dem', k) and 'init' in v]
    run.need(g, 'badchar_substitute_utf8 not found')
    data = g[0][1]['init']
    ok = isinstance(data, list) and data[:3] == [0xEF, 0xBF, 0xBD]
    run.ob('R02.6', 'badchar_substitute_utf8', ok, 'EF BF BD (U+FFFD), accepted by the 3-byte row of the table' if ok else 'substitute text is %r' % (data,))


SCOPE_RE = re.compile(r'^ST::operator\+\((ST::string const&, (?:char|char8_t) const\*|(?:char|char8_t) const\*, ST::string const&)\)$')


def region_sources(st, ptr, nbytes, depth=0):
    """Root objects whose bytes the range [ptr, ptr + nbytes) holds, following bulk copies through temporaries: a set of object
    names; None stands for bytes of unknown origin.  Regions are looked at from the most recent back; one that covers the whole
    range shadows everything older."""
    o = st.objs.get(ptr.obj)
    if o is None:
        return set([None])
    out = set()
    for (roff, rlen, tag, ver) in reversed(o.regions):
        rl = rlen if isinstance(rlen, Lin) else Lin.const(rlen)
        if tag[0] == 'val' or st.is_eq0(rl) is True:
            continue
        if st.is_ge0(roff - ptr.off - nbytes) is True or st.is_ge0(ptr.off - roff - rl) is True:
            continue                    # disjoint from the range
        if tag[0] == 'copy' and isinstance(tag[1], PtrV) and tag[1].obj is not None:
            src = tag[1]
            so = st.objs.get(src.obj)
            # the part of the source that lands in the range
            lo = ptr.off - roff
            part = PtrV(src.obj, src.off + lo) if st.is_ge0(lo) is True else PtrV(src.obj, src.off)
            plen = nbytes if st.is_ge0(lo) is True and st.is_ge0(roff + rl - ptr.off - nbytes) is True else rl
            if so is not None and depth < 5 and any(r[2][0] in ('copy', 'fill', 'havoc') for r in so.regions):
                out |= region_sources(st, part, plen, depth + 1)
            else:
                out.add(src.obj)
        else:
            out.add(None)
        if st.is_ge0(ptr.off - roff) is True and st.is_ge0(roff + rl - ptr.off - nbytes) is True:
            return out                  # covers the whole range: nothing older shows through
    if not out:
        out.add(ptr.obj)
    return out


def validation_scope(run, m, F, E):
    """R02.8: concatenating raw text to a string validates the raw text - all of it and nothing else.  The range handed to the
    validator (validate_utf8 / cleanup_utf8_buffer) in operator+(string, const char*) and its mirror must consist of bytes of the
    raw operand only: a range that also holds bytes of the ST::string operand judges the *joined* text, so that two pieces which are
    ill-formed on their own but complete each other are accepted (and well-formed raw text is rejected next to stored junk)."""
    from .c08 import string_scene, SliceHooks
    L = own.buffer_layout(m, 'char')
    n = 0
    for name in F.lib:
        f = m.func(name)
        mt = SCOPE_RE.match(f.dem)
        if not mt or L is None:
            continue
        n += 1
        raw_first = not mt.group(1).startswith('ST::string')
        probs, und, good = [], [], 0
        for cls in ('small', 'large'):
            def stop(I, st, inst, d, args):
                if d.startswith('_ST_PRIVATE::validate_utf8(char const*, unsigned long)'):
                    sz = I.as_u(st, args[1]) if isinstance(args[1], IntV) else None
                    srcs = region_sources(st, args[0], sz) if isinstance(args[0], PtrV) and sz is not None and args[0].obj != 'RAW' else set(['RAW'])
                    st.ev('validate', inst, args[0], sz, srcs)          # (origin of the bytes as of this call)
                    return [(st, IntV(32, ZERO, 'u'))]
                if d.startswith('_ST_PRIVATE::cleanup_utf8_buffer('):
                    b = args[-1]
                    if isinstance(b, PtrV) and b.obj in st.objs:
                        dp = I.load(st, inst, PtrV(b.obj, b.off + L.chars_off), 'i8*', 8)
                        sz = I.load(st, inst, PtrV(b.obj, b.off + L.size_off), 'i64', 8)
                        szl = I.as_u(st, sz) if isinstance(sz, IntV) else None
                        srcs = region_sources(st, dp, szl) if isinstance(dp, PtrV) and szl is not None and dp.obj != 'RAW' else set(['RAW'])
                        st.ev('validate', inst, dp, szl, srcs)
                    return None
                return None
            I = Interp(m, F, E, SliceHooks(m, stop))
            st = State()
            this, ret, entry = string_scene(I, st, L, cls)
            st.rng['rawlen'] = (0, (1 << 28) - 1)
            ro = Obj('ext', Lin.atom('rawlen') + 1)
            ro.attrs['cstr_len'] = Lin.atom('rawlen')
            st.objs['RAW'] = ro
            args = [PtrV(ret)] + ([PtrV('RAW'), PtrV(this)] if raw_first else [PtrV(this), PtrV('RAW')])
            try:
                outs = I.run(I.start(f, args, st))
            except Exception as e:
                und.append('not interpreted: %s' % (str(e)[:80],))
                continue
            sto = entry['storage'].obj
            for o in outs:
                if o.kind != 'ret':
                    continue
                s2 = o.st
                vals = [e for e in s2.events if e[0] == 'validate']
                if s2.is_eq0(Lin.atom('rawlen')) is True and not vals:
                    good += 1
                    continue
                if not vals:
                    und.append('a result is returned without the raw text having been validated (this=%s)' % cls)
                    continue
                okpath = False
                for e in vals:
                    if not isinstance(e[2], PtrV) or e[3] is None:
                        und.append('validated range not tracked')
                        continue
                    srcs = e[4]
                    if sto in srcs or this in srcs:
                        probs.append('the validator is handed a range that holds bytes of the ST::string operand as well as the raw text (line %d): '
                                     'the joined text is judged, so raw text that is ill-formed on its own is accepted when the string\'s bytes '
                                     'complete it (e.g. "caf\\xC3" taken with assume_valid, then + "\\xA9") and well-formed raw text is rejected '
                                     'next to stored junk' % e[1].line)
                    elif srcs == set(['RAW']) and s2.is_eq0(e[3] - Lin.atom('rawlen')) is True:
                        okpath = True
                    else:
                        und.append('validated range holds bytes of %s, %r of them: not decided to be exactly the raw text' %
                                   (sorted(str(x) for x in srcs), e[3]))
                if okpath:
                    good += 1
        probs = sorted(set(probs))
        run.ob('R02.8', short(f.dem), False if probs else (None if (und or not good) else True),
               probs[0] if probs else (und[0] if und else ('exactly the raw operand [text, text + strlen) is validated on %d returning paths' % good
                                                          if good else 'no returning path explored')), loc=fn_loc(f))
    return n


def check(run):
    m = run.module()
    F = run.facts()
    E = run.effects()
    run.trust('clang 14 lowering (LLVM IR, -O0, mem2reg)', 'STIR interpreter', 'clang-query-14 (default-argument spelling)',
              'the decision table written from the property text (stir/rules/c02.py: *_classes)')
    run.assume('32-bit wchar_t; 16-bit wchar_t twins are not lowered',
               'the convert loops are reached only through the public wrappers, which raise the returned error (C03 R03.3)')
    run.floor('UTF-8 classes x deciders', deciders(run, m, F, E), 40)
    pairs = conv.discover(m, F, run, 'R02.1')
    run.floor('converter x class x mode runs', policy(run, m, F, E, pairs), 150)
    run.floor('exact short-input runs under substitute_invalid', short_inputs(run, m, F, E, pairs), 10)
    run.floor('error codes', error_mapping(run, m, F, E), 6)
    run.floor('set(char_buffer) dispatch cases', set_dispatch(run, m, F, E), 6)
    run.floor('default arguments spelled ST_DEFAULT_VALIDATION', defaults(run, m), 100)
    run.floor('raw-text concatenation operators', validation_scope(run, m, F, E), 2)
    constants(run, m)
    for o in [o for o in run.obs if o['rule'] == 'R02.1'][:3] + [o for o in run.obs if o['rule'] == 'R02.2'][:3]:
        run.sample(dict(rule=o['rule'], subject=o['subject'], case=o['disc'], verdict=o['verdict'], detail=o['detail'][:160]))
