"""Per-iteration (step-summary) analysis of the measure / convert loops of st_utf_conv_priv.h.

An arbitrary loop iteration is interpreted from a widened header state in which the input cursor is IN + cur,
the output cursor OUT + outpos and everything else loop-carried is a fresh symbol.  The measure pass and the
convert pass are run in lockstep: the convert iteration continues in the abstract state (facts on the input
units at the cursor) in which a measure iteration ended, so only mutually consistent path pairs are compared.
"""
import re

from ..interp import Interp, Hooks, Budget, Unmodelled
from ..state import State, Obj, IntV, PtrV, TopV, MAXLEN
from ..terms import Lin, ZERO

HUGE = 0x10000000
EB = {'i8': 1, 'i16': 2, 'i32': 4}
# (a template instantiation is spelled with its return type in front and its arguments behind the name)
CONV_RE = re.compile(r'^(?:[\w:<>, \*&]+ )?_ST_PRIVATE::(\w+)_convert_from_([a-z0-9_]+?)(<[^()]*>)?\(')
MEAS_RE = re.compile(r'^(?:[\w:<>, \*&]+ )?_ST_PRIVATE::(\w+)_measure_from_([a-z0-9_]+?)(<[^()]*>)?\(')


class ConvHooks(Hooks):
    widen_on_entry = True
    unroll = 0
    max_depth = 8
    max_paths = 6000

    def __init__(self, eb_src, eb_dst):
        self.eb_src = eb_src
        self.eb_dst = eb_dst

    # a loop nested in the per-character loop (e.g. one that checks the continuation bytes of a sequence) runs a small, constant
    # number of times on each path: it is interpreted exactly for a few rounds rather than abstracted
    inner_unroll = 5

    root_fn = None

    def unroll_for(self, I, fn, header, st=None):
        from ..interp import loop_info
        if st is not None and len(st.frames) > 1:
            # a loop of a helper that is called from inside a loop of one of its callers (a per-character helper)
            for fr2 in st.frames[:-1]:
                loops2, _b = loop_info(fr2.fn)
                if any(fr2.block in body for body in loops2.values()):
                    # ... one that runs up to a small constant (a block of units examined at a time) is interpreted exactly
                    from .own import const_trip_bound
                    k = const_trip_bound(fn, header)
                    if k is not None and k <= 64:
                        return k + 2
                    return self.inner_unroll
        loops, back = loop_info(fn)
        for h2, body in loops.items():
            if h2 != header and header in body:
                return self.inner_unroll
        return self.unroll

    # loops that address the input / output through an index instead of a moving pointer: the carried slot holding the index
    # (found by a first run, see run_iteration) is given the cursor's name, so that both loop shapes are analysed in one vocabulary
    in_index = None
    out_index = None

    def widen_value(self, I, st, fn, header, name, current):
        if isinstance(current, PtrV):
            if current.obj == 'IN':
                return PtrV('IN', Lin.atom('cur').scale(self.eb_src))
            if current.obj == 'OUT':
                return PtrV('OUT', Lin.atom('outpos').scale(self.eb_dst))
        if isinstance(current, IntV):
            if self.in_index is not None and (fn.name, name) == self.in_index:
                if self.out_index == self.in_index:
                    # one index for both sides: input and output positions coincide
                    st.assume_eq0(Lin.atom('outpos') - Lin.atom('cur'))
                return IntV(current.bits, Lin.atom('cur'), current.kind)
            if self.out_index is not None and (fn.name, name) == self.out_index:
                return IntV(current.bits, Lin.atom('outpos'), current.kind)
        return None

    def on_access(self, I, st, inst, kind, p, nbytes):
        if kind == 'load' and p.obj == 'IN':
            st.ev('in-load', inst, p.off)

    def loop_candidates(self, I, st, fn, header, phis):
        # accumulator <= 4 * cursor (each iteration adds at most 4 output units and consumes at least one input unit);
        # verified inductive by the interpreter, it bounds the size accumulators (inputs are shorter than 2^28 units)
        eb = self.eb_src

        def lin(st2, fr):
            begin = st2.flags.get('wbegin:' + fn.name) or {}
            cur = None
            accs = []
            for name in begin:
                v = I.slot_value(st2, fr, name, {}) if name[0] == 'cell' else fr.regs.get(name[1])
                if isinstance(v, PtrV) and v.obj == 'IN':
                    cur = v.off
                elif isinstance(v, IntV) and self.in_index == (fn.name, name):
                    cur = I.as_u(st2, v).scale(eb)
                elif isinstance(v, IntV) and self.out_index == (fn.name, name):
                    pass
                elif isinstance(v, IntV) and v.bits == 64:
                    accs.append(v)
            if cur is None or len(accs) != 1:
                return Lin.const(0)
            return cur.scale(4) - I.as_u(st2, accs[0]).scale(eb)
        cands = [('acc<=4cur', lin)]
        # relations between the input cursor and the other carried integers / the end of the input, for loops that are not of
        # the plain `while (cursor < end)` form (do-while with a non-empty guard in front, countdown of the remaining units):
        # proposed here, base case decided on loop entry, inductive step verified at every back edge by the interpreter
        slot_names = list(getattr(I, 'cur_slots', None) or [('phi', ph.id) for ph in phis])

        def slot_val(st2, fr, name):
            return I.slot_value(st2, fr, name, {}) if name[0] == 'cell' else fr.regs.get(name[1])

        def cursor(st2, fr):
            for name in slot_names:
                v = slot_val(st2, fr, name)
                if isinstance(v, PtrV) and v.obj == 'IN':
                    return v.off
                if isinstance(v, IntV) and self.in_index == (fn.name, name):
                    return I.as_u(st2, v).scale(eb)
            return None

        def head_inside(st2, fr):
            c = cursor(st2, fr)
            return (Lin.atom('n').scale(eb) - c - eb) if c is not None else Lin.const(-1)
        cands.append(('cur<n', head_inside, 'entry'))
        for nm_ in slot_names:
            def mk(nm_, sign):
                def rel(st2, fr):
                    c = cursor(st2, fr)
                    v = slot_val(st2, fr, nm_)
                    if c is None or not isinstance(v, IntV) or v.bits != 64 or self.in_index == (fn.name, nm_):
                        return Lin.const(-1)
                    u = I.as_u(st2, v)
                    if u is None:
                        return Lin.const(-1)
                    d = u.scale(eb) + c - Lin.atom('n').scale(eb)          # remaining + consumed == size
                    return d if sign > 0 else -d
                return rel
            cands.append(('rem+cur>=n:%r' % (nm_,), mk(nm_, 1), 'entry'))
            cands.append(('rem+cur<=n:%r' % (nm_,), mk(nm_, -1), 'entry'))
        return cands

    def on_store(self, I, st, inst, p, v, nbytes):
        if p.obj == 'OUT':
            st.ev('out-store', inst, p.off, nbytes, v)


class Pair(object):
    def __init__(self, tgt, src, C, M):
        self.tgt, self.src, self.C, self.M = tgt, src, C, M

    def __repr__(self):
        return '%s<-%s' % (self.tgt, self.src)


ODD = [0]       # converters found by the last discover() but left out because of their signature (they count as anchors that exist)
ODD_M = [0]
ODD_PAIRS = []


def discover(m, F, run=None, rule=None):
    conv, meas = {}, {}
    for name in F.lib:
        f = m.func(name)
        mt = CONV_RE.match(f.dem)
        if mt:
            conv[(mt.group(1), mt.group(2), mt.group(3) or '')] = f
        mt = MEAS_RE.match(f.dem)
        if mt:
            meas[(mt.group(1), mt.group(2), mt.group(3) or '')] = f
    pairs = []
    ODD[0] = 0
    ODD_M[0] = 0
    del ODD_PAIRS[:]
    for key, C in sorted(conv.items()):
        # the scenes drive a converter as (unit* dest, const unit* src, size_t size, ...): any other signature (a cursor handed over
        # by reference, an extra leading parameter) is not interpreted with arguments it was not written for
        tys = [p['ty'] for p in C.params]
        if len(tys) < 3 or tys[0] not in ('i8*', 'i16*', 'i32*') or tys[1] not in ('i8*', 'i16*', 'i32*') or tys[2] != 'i64':
            if run is not None:
                run.ob(rule or 'scene', short_dem(C.dem), None, 'converter signature (%s) is not (dest*, src*, size, ...): not analysed' % ', '.join(tys),
                       disc='signature', loc='%s:%d' % (C.file, C.line))
            ODD[0] += 1
            ODD_M[0] += 1 if meas.get(key) is not None else 0
            ODD_PAIRS.append(Pair(key[0], key[1], C, meas.get(key)))
            continue
        pairs.append(Pair(key[0], key[1], C, meas.get(key)))
    return pairs


def short_dem(d, n=110):
    return d if len(d) <= n else d[:n - 3] + '...'


def elt_bytes(ty):
    return EB.get(ty.rstrip('*'), None)


def base_state(eb_src):
    st = State()
    st.rng['n'] = (0, HUGE - 1)
    st.rng['cur'] = (0, HUGE - 1)
    st.rng['outpos'] = (0, 4 * HUGE)
    st.assume_ge0(Lin.atom('n') - Lin.atom('cur'))
    IN = Obj('ext', Lin.atom('n').scale(eb_src))
    IN.lazy = True
    st.objs['IN'] = IN
    OUT = Obj('ext', None)
    OUT.lazy = True
    st.objs['OUT'] = OUT
    return st


def unit_atom(eb_src, k):
    """Atom of the input unit at cursor + k (matches what Interp.load creates for IN, which is never written)."""
    return ('load', 'IN', Lin.atom('cur').scale(eb_src) + k * eb_src, 0, eb_src * 8)


def call_args(f, mapping):
    """Build the argument list of a converter from parameter names/types."""
    args = []
    for k, p in enumerate(f.params):
        nm = f.argnames[k] if k < len(f.argnames) else ''
        args.append(mapping(k, nm, p['ty']))
    return args


class Iter(object):
    """One explored path of one loop iteration (or a non-iteration exit)."""
    __slots__ = ('kind', 'st', 'din', 'dout', 'dlen', 'ret', 'info', 'stores')


def _index_slot(outs, fn, obj, eb, evkind, offidx):
    """Name of the carried integer slot that the accesses of `obj` are indexed with (offset == eb * slot + constant), if any."""
    for o in outs:
        begin = o.st.flags.get('wbegin:' + fn.name) or {}
        syms = {}
        for name, bv in begin.items():
            if isinstance(bv, IntV):
                sa = bv.lin.single_atom()
                if sa is not None and sa[1] == 1 and sa[2] == 0:
                    syms[sa[0]] = name
        for e in o.st.events:
            if e[0] != evkind:
                continue
            off = e[offidx]
            for a, k in off.t:
                # the index may appear sign-/zero-extended (smod / mod of the full width): look through that
                while isinstance(a, tuple) and a[0] in ('smod', 'mod') and isinstance(a[1], Lin) and a[1].single_atom() is not None \
                        and a[1].single_atom()[1] == 1 and a[1].single_atom()[2] == 0:
                    a = a[1].single_atom()[0]
                if a in syms and k == eb:
                    return (fn.name, syms[a])
    return None


def run_iteration(I, fn, st, args, eb_src, eb_dst):
    h = I.h
    if hasattr(h, 'in_index'):
        h.in_index = h.out_index = None
    st_in = st.clone()
    res, outs = _run_iteration(I, fn, st, args, eb_src, eb_dst)
    if hasattr(h, 'in_index'):
        # a loop driven by an index: name the index slot after the cursor and interpret again
        has_in = any(isinstance(bv, PtrV) and bv.obj == 'IN' for o in outs for bv in (o.st.flags.get('wbegin:' + fn.name) or {}).values())
        has_out = any(isinstance(bv, PtrV) and bv.obj == 'OUT' for o in outs for bv in (o.st.flags.get('wbegin:' + fn.name) or {}).values())
        ii = None if has_in else _index_slot(outs, fn, 'IN', eb_src, 'in-load', 2)
        oi = None if has_out else _index_slot(outs, fn, 'OUT', eb_dst, 'out-store', 2)
        if ii is not None or oi is not None:
            h.in_index, h.out_index = ii, oi
            try:
                res, outs = _run_iteration(I, fn, st_in, args, eb_src, eb_dst)
            finally:
                pass
    return res


def _run_iteration(I, fn, st, args, eb_src, eb_dst):
    h = I.h
    if hasattr(h, 'root_fn'):
        h.root_fn = fn.name
    st.frames = []
    st.events = []
    for k in [k for k in st.flags if isinstance(k, str) and (k.startswith('wbegin:') or k.startswith('wend:'))]:
        del st.flags[k]
    st = I.start(fn, args, st)
    outs = I.run(st)
    res = []
    in_index = getattr(h, 'in_index', None)
    out_index = getattr(h, 'out_index', None)
    for o in outs:
        it = Iter()
        it.kind, it.st, it.ret, it.info = o.kind, o.st, o.val, o.info
        it.din = it.dout = it.dlen = None
        it.stores = [e for e in o.st.events if e[0] == 'out-store']
        bk = [k for k in o.st.flags if isinstance(k, str) and k.startswith('wbegin:')]
        b = o.st.flags.get(bk[0]) if len(bk) == 1 else None
        e = o.st.flags.get('wend:' + bk[0][7:]) if len(bk) == 1 else None
        if o.kind == 'backedge' and b and e:
            fname = bk[0][7:]
            for name, bv in b.items():
                ev = e.get(name)
                if isinstance(bv, PtrV) and isinstance(ev, PtrV) and bv.obj == ev.obj:
                    if bv.obj == 'IN':
                        it.din = (ev.off - bv.off)
                    elif bv.obj == 'OUT':
                        it.dout = (ev.off - bv.off)
                elif isinstance(bv, IntV) and isinstance(ev, IntV):
                    d = ev.lin - bv.lin
                    if in_index == (fname, name) or out_index == (fname, name):
                        if in_index == (fname, name):
                            it.din = d.scale(eb_src)
                        if out_index == (fname, name):
                            it.dout = d.scale(eb_dst)
                    else:
                        it.dlen = d if it.dlen is None else it.dlen     # first int slot = accumulator
        if o.kind == 'backedge' and it.din is None:
            # the loop does not move a cursor / index over the input that the analysis recognises: nothing is concluded from this path
            it.kind = 'untracked'
        res.append(it)
    return res, outs


def in_bounds_events(I, it):
    """(violations, undecided) from loads of the input object."""
    viol, und = [], []
    st = it.st
    for e in st.events:
        if e[0] == 'oob' and isinstance(e[3], PtrV) and e[3].obj == 'IN':
            viol.append((e[1], 'read of %r bytes at input offset %r beyond the %r bytes given' % (e[4], e[3].off, e[5]), None))
        elif e[0] == 'oob?' and isinstance(e[3], PtrV) and e[3].obj == 'IN':
            inst, p, n, size = e[1], e[3], e[4], e[5]
            env = e[6] if len(e) > 6 else st.find_model([p.off + n - size, p.off], lambda v: v[0] > 0 or v[1] < 0)
            # a witness is only trusted when the iteration is guarded by the cursor itself (cursor < size known);
            # loops driven by a separate counter need arithmetic between counter and cursor that widening dropped
            guarded = st.is_ge0(Lin.atom('n') - Lin.atom('cur') - 1) is True
            if env is not None and guarded:
                viol.append((inst, 'read of %r bytes at input offset %r may lie outside the %r bytes given' % (n, p.off, size), env))
            else:
                und.append((inst, 'bounds of input read at offset %r not decided' % (p.off,)))
    return viol, und


def fmt_env(env, eb_src):
    parts = []
    for k, v in sorted(env.items(), key=lambda x: repr(x[0])):
        if isinstance(k, tuple) and k[0] == 'load':
            off = k[2] - Lin.atom('cur').scale(eb_src)
            parts.append('unit[cur%+d]=0x%X' % (off.c // eb_src, v) if not off.t else '%r=0x%X' % (k, v))
        elif isinstance(k, str):
            parts.append('%s=%d' % (k, v))
    return ', '.join(parts)


def describe_units(st, eb_src, upto=4):
    """Ranges of the input units at the cursor on this path (for reports)."""
    out = []
    for k in range(upto):
        a = unit_atom(eb_src, k)
        if a in st.rng:
            lo, hi = st.rng[a]
            out.append('u%d in [0x%X,0x%X]' % (k, lo, hi))
    return ' '.join(out)
