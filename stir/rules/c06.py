"""C06 - comparison is a total order; operators, overloads and hashes agree with it.

R06.1 the 4-argument cores (buffer<T>::compare, compare_ci) return the comparator's verdict on the common prefix when it is
      non-zero and otherwise a value with the sign of (lsize - rsize), for sizes over their whole 64-bit range; the prefix
      length handed to the comparator is min(lsize, rsize); the maxlen forms clamp both sizes and delegate
R06.2 cl_fast_lower / cl_fast_upper map exactly A-Z <-> a-z and nothing else; case-insensitive routines (compare_ci, find_ci,
      hash_i) consume string units only through the fold (no raw unit reaches their arithmetic or comparisons)
R06.3 derived members and operators (compare*, ==, !=, <, less_i, equal_i, std::hash) hand (data,size) of both operands to a core and
      compare its result with zero by the right predicate; null const char* counts as empty
R06.6 compare_ci(3 args): each iteration folds one unit of each side, returns their difference iff they differ, else advances both
"""
import re

from ..interp import Interp, Hooks, Budget
from ..state import State, Obj, IntV, PtrV, NULL, MAXLEN
from ..terms import Lin, base_atoms, ZERO
from ..effects import func_roles
from . import own
from .common import short, fn_loc, slot_subst, subst, robust, class_of

LEVEL = 'proof'
EXPLANATION = ('abstract interpretation of the comparison cores with sizes free over 64 bits and the prefix comparator as an opaque '
               'three-valued symbol; every (comparator sign x size order) case is decided against the lexicographic oracle; the '
               'derived operators are interpreted with the cores as symbols; ASCII fold maps are compared interval by interval; '
               'an SSA taint rule keeps unfolded units out of the case-insensitive routines')

SIGNS = ('neg', 'zero', 'pos')


def sign_assume(st, lin, sg):
    if sg == 'neg':
        return st.assume_ge0(-lin - 1)
    if sg == 'zero':
        return st.assume_eq0(lin)
    return st.assume_ge0(lin - 1)


def sign_of(st, lin):
    lo, hi = st.range(lin)
    if hi < 0:
        return 'neg'
    if lo > 0:
        return 'pos'
    if lo == 0 and hi == 0:
        return 'zero'
    return None


class CoreHooks(Hooks):
    """Prefix comparators become an opaque symbol `cmp` (one per run)."""
    max_depth = 8

    def __init__(self, m, stop_cores=False):
        self.m = m
        self.stop_cores = stop_cores

    def call(self, I, st, inst, name, args):
        if name is None:
            return None
        d = self.m.dem(name)
        if re.match(r'^std::char_traits<[\w ]+>::compare\(', d) or d.startswith('_ST_PRIVATE::compare_ci(char const*, char const*, unsigned long)'):
            st.ev('prefix-compare', inst, args[0], args[1], args[2], d.split('(')[0])
            st.rng.setdefault('cmp', (-(1 << 31), (1 << 31) - 1))
            return [(st, IntV(32, Lin.atom('cmp'), 's'))]
        if d in ('memcmp', 'bcmp') and len(args) >= 3:
            # a bytewise comparison standing in for the unit comparator: recorded with what it is
            st.ev('byte-compare', inst, args[0], args[1], args[2], d)
            st.ev('prefix-compare', inst, args[0], args[1], args[2], d)
            st.rng.setdefault('cmp', (-(1 << 31), (1 << 31) - 1))
            return [(st, IntV(32, Lin.atom('cmp'), 's'))]
        if re.match(r'^std::char_traits<[\w ]+>::length\(', d) and isinstance(args[0], PtrV) and args[0].obj == 'STR' and not args[0].off.t and args[0].off.c == 0 \
                and 'slen' in st.rng:
            return [(st, IntV(64, Lin.atom('slen'), 'u'))]
        if self.stop_cores and re.match(r'^(ST::buffer<(\w+)>::compare\(\2 const\*, unsigned long, \2 const\*, unsigned long(, unsigned long)?\)|'
                                        r'_ST_PRIVATE::compare_c[si]\(char const\*, unsigned long, char const\*, unsigned long(, unsigned long)?\))', d):
            st.ev('core', inst, d.split('(')[0], list(args))
            st.rng.setdefault('core', (-(1 << 31), (1 << 31) - 1))
            return [(st, IntV(32, Lin.atom('core'), 's'))]
        return None


def cores(run, m, F, E):
    n = 0
    pats = [r'^ST::buffer<(char|wchar_t|char16_t|char32_t)>::compare\((\w+) const\*, unsigned long, \2 const\*, unsigned long\)$',
            r'^_ST_PRIVATE::compare_ci\(char const\*, unsigned long, char const\*, unsigned long\)$']
    for name in F.lib:
        f = m.func(name)
        if not any(re.match(p, f.dem) for p in pats):
            continue
        n += 1
        I = Interp(m, F, E, CoreHooks(m))
        st = State()
        lp, rp = I.fresh_ptr(st, 'left'), I.fresh_ptr(st, 'right')
        ls, rs = I.fresh_int(st, 64, 'lsize'), I.fresh_int(st, 64, 'rsize')
        outs = I.run(I.start(f, [lp, ls, rp, rs], st))
        d = ls.lin - rs.lin
        problems, und = [], []
        for o in outs:
            if o.kind != 'ret':
                if o.kind == 'abort':
                    continue        # noexcept terminate pads are unreachable (std::min does not throw)
                problems.append('path ends in %s' % o.kind)
                continue
            s2 = o.st
            pc = [e for e in s2.events if e[0] == 'prefix-compare']
            if len(pc) != 1:
                und.append('%d calls of the prefix comparator on one path' % len(pc))
                continue
            _, inst, a0, a1, cnt, who = pc[0]
            if who in ('memcmp', 'bcmp'):
                ebw = {'char': 1, 'char16_t': 2, 'char32_t': 4, 'wchar_t': 4}.get((re.match(r'^ST::buffer<(\w+)>', f.dem) or re.match(r'(char)', 'char')).group(1), 1)
                if ebw > 1:
                    problems.append('the common prefix is ordered by %s over %d-byte units: the order of their byte images, not of their values (on a '
                                    'little-endian host U+00FF sorts after U+0100; witness the one-unit texts {0x00FF} and {0x0100})' % (who, ebw))
                    continue
                und.append('the prefix is compared with %s: not analysed further' % who)
                continue
            # prefix length = min(lsize, rsize), pointers as given
            cl = I.as_u(s2, cnt) if isinstance(cnt, IntV) else None
            mn = ls.lin if s2.is_ge0(rs.lin - ls.lin) is True else (rs.lin if s2.is_ge0(ls.lin - rs.lin) is True else None)
            if cl is None or mn is None or s2.is_eq0(cl - mn) is not True:
                env = s2.find_model([cl - ls.lin, cl - rs.lin], lambda v: not (min(-v[0], -v[1]) == 0 and v[0] <= 0 and v[1] <= 0)) if cl is not None else None
                (problems if env is not None else und).append('prefix comparator is given %r units, not min(lsize, rsize)%s' % (cl, '; witness ' + own.fmt_env(env) if env else ''))
            if not (isinstance(a0, PtrV) and isinstance(a1, PtrV) and a0.obj == lp.obj and a1.obj == rp.obj):
                problems.append('prefix comparator is not given (left, right)')
            v = o.val
            if not isinstance(v, IntV):
                und.append('return value not tracked')
                continue
            vl = I.as_s(s2, v)
            for cs in SIGNS:
                for ds in SIGNS:
                    s3 = s2.clone()
                    if not sign_assume(s3, Lin.atom('cmp'), cs) or not sign_assume(s3, d, ds):
                        continue
                    want = cs if cs != 'zero' else ds
                    if cs != 'zero':
                        # must hand back the comparator's verdict
                        if vl == Lin.atom('cmp') or sign_of(s3, vl) == want:
                            continue
                    got = sign_of(s3, vl)
                    if got == want:
                        continue
                    env = s3.find_model([vl, d], (lambda w: (lambda vals: ('neg' if vals[0] < 0 else 'pos' if vals[0] > 0 else 'zero') != w))(want))
                    if env is not None:
                        problems.append('equal prefix' * (cs == 'zero') + 'comparator %s' % cs * (cs != 'zero') +
                                        ', lsize %s rsize: returns a value whose sign is not %s; witness %s' %
                                        ({'neg': '<', 'zero': '==', 'pos': '>'}[ds], want, own.fmt_env(dict((k, v2) for k, v2 in env.items() if isinstance(k, str)))))
                    elif got is not None and not s3.facts and not s3.nefacts:
                        problems.append('comparator %s, sizes %s: returns %s, expected %s' % (cs, ds, got, want))
                    elif got is not None:
                        und.append('comparator %s, sizes %s: returns %s where %s is expected, but no witness consistent with the path was found' % (cs, ds, got, want))
                    else:
                        und.append('sign of the result not decided for comparator %s / sizes %s' % (cs, ds))
        if problems:
            run.ob('R06.1', short(f.dem), False, problems[0], loc=fn_loc(f), disc='core')
        elif und:
            run.ob('R06.1', short(f.dem), None, und[0], loc=fn_loc(f), disc='core')
        else:
            run.ob('R06.1', short(f.dem), True, 'comparator verdict, else the sign of the size difference, for all 9 cases', disc='core')
        # the same question with both operands at one address (a text compared with a prefix of itself, an object with its own
        # c_str()): the common prefix is equal by construction, so the result is the sign of the size difference
        I = Interp(m, F, E, CoreHooks(m))
        st = State()
        lp = I.fresh_ptr(st, 'left')
        ls, rs = I.fresh_int(st, 64, 'lsize'), I.fresh_int(st, 64, 'rsize')
        try:
            outs = I.run(I.start(f, [lp, ls, lp, rs], st))
        except Exception:
            outs = []
        d = ls.lin - rs.lin
        p2, u2 = [], []
        for o in outs:
            if o.kind != 'ret' or not isinstance(o.val, IntV):
                continue
            vl = I.as_s(o.st, o.val)
            for ds in SIGNS:
                s3 = o.st.clone()
                if 'cmp' in s3.rng and not sign_assume(s3, Lin.atom('cmp'), 'zero'):
                    continue            # (a text compared with itself over the common length is equal)
                if not sign_assume(s3, d, ds):
                    continue
                got = sign_of(s3, vl)
                if got == ds:
                    continue
                env = s3.find_model([vl, d], (lambda w: (lambda vals: ('neg' if vals[0] < 0 else 'pos' if vals[0] > 0 else 'zero') != w))(ds))
                if env is not None:
                    p2.append('both operands at one address, lsize %s rsize: returns a value whose sign is not %s although the common prefix is the same '
                              'memory; witness %s' % ({'neg': '<', 'zero': '==', 'pos': '>'}[ds], ds, own.fmt_env(dict((k, v2) for k, v2 in env.items() if isinstance(k, str)))))
                elif got is None:
                    u2.append('operands at one address, sizes %s: sign of the result not decided' % ds)
        if outs:
            run.ob('R06.1', short(f.dem), False if p2 else (None if u2 else True), p2[0] if p2 else (u2[0] if u2 else
                   'operands at one address: the sign of the size difference'), loc=fn_loc(f), disc='core / one address')
    # maxlen forms
    pats5 = [r'^ST::buffer<(char|wchar_t|char16_t|char32_t)>::compare\((\w+) const\*, unsigned long, \2 const\*, unsigned long, unsigned long\)$',
             r'^_ST_PRIVATE::compare_ci\(char const\*, unsigned long, char const\*, unsigned long, unsigned long\)$']
    for name in F.lib:
        f = m.func(name)
        if not any(re.match(p, f.dem) for p in pats5):
            continue
        n += 1
        core4 = f.dem.replace(', unsigned long)', ')')

        class H5(CoreHooks):
            def call(self2, I, st, inst, name2, args):
                if name2 is not None and m.dem(name2) == core4:
                    st.ev('core4', inst, list(args))
                    st.rng.setdefault('core', (-(1 << 31), (1 << 31) - 1))
                    return [(st, IntV(32, Lin.atom('core'), 's'))]
                return CoreHooks.call(self2, I, st, inst, name2, args)
        I = Interp(m, F, E, H5(m))
        st = State()
        lp, rp = I.fresh_ptr(st, 'left'), I.fresh_ptr(st, 'right')
        ls, rs, mx = I.fresh_int(st, 64, 'lsize'), I.fresh_int(st, 64, 'rsize'), I.fresh_int(st, 64, 'maxlen')
        outs = I.run(I.start(f, [lp, ls, rp, rs, mx], st))
        problems = []
        for o in outs:
            if o.kind != 'ret':
                continue
            s2 = o.st
            c4 = [e for e in s2.events if e[0] == 'core4']
            if len(c4) != 1:
                problems.append('does not delegate to the 4-argument core exactly once')
                continue
            a = c4[0][2]
            for (given, size, nm) in ((a[1], ls, 'lsize'), (a[3], rs, 'rsize')):
                g = I.as_u(s2, given) if isinstance(given, IntV) else None
                mn = size.lin if s2.is_ge0(mx.lin - size.lin) is True else (mx.lin if s2.is_ge0(size.lin - mx.lin) is True else None)
                if g is None or mn is None or s2.is_eq0(g - mn) is not True:
                    problems.append('%s handed on as %r, not min(%s, maxlen)' % (nm, g, nm))
            if not (isinstance(a[0], PtrV) and a[0].obj == lp.obj and isinstance(a[2], PtrV) and a[2].obj == rp.obj):
                problems.append('pointers are not handed on unchanged')
            if not (isinstance(o.val, IntV) and o.val.lin == Lin.atom('core')):
                problems.append('does not return the core\'s result')
        run.ob('R06.1', short(f.dem), not problems, problems[0] if problems else 'clamps both sizes to maxlen and returns the core result', disc='maxlen form', loc=fn_loc(f))
    return n


def folds(run, m, F, E):
    n = 0
    for nm, lo, hi, delta in (('cl_fast_lower', 65, 90, 32), ('cl_fast_upper', 97, 122, -32)):
        f = [m.func(x) for x in F.lib if m.func(x).dem == '_ST_PRIVATE::%s(char)' % nm]
        run.need(f, '%s not found' % nm)
        f = f[0]
        n += 1
        I = Interp(m, F, E, Hooks())
        st = State()
        ch = I.fresh_int(st, 8, 'ch')
        outs = I.run(I.start(f, [ch], st))
        problems = []
        covered = []
        for o in outs:
            if o.kind != 'ret' or not isinstance(o.val, IntV):
                problems.append('path ends in %s' % o.kind)
                continue
            s2 = o.st
            clo, chi = s2.arange(ch.lin.t[0][0])
            covered.append((clo, chi))
            # value as unsigned byte: compare with the oracle on this class
            vl = I.as_u(s2, o.val) if I.ulin(s2, o.val) is not None else None
            inside = clo >= lo and chi <= hi
            outside = chi < lo or clo > hi
            if not (inside or outside):
                problems.append('a path covers [%d,%d], which straddles the letter range [%d,%d]' % (clo, chi, lo, hi))
                continue
            exp = ch.lin + (delta if inside else 0)
            if vl is None:
                vl2 = I.as_s(s2, o.val)
                exp2 = exp - (256 if clo >= 128 else 0)
                ok = s2.is_eq0(vl2 - exp2) is True
            else:
                ok = s2.is_eq0(vl - exp) is True
            if not ok:
                problems.append('for ch in [%d,%d] returns %r, expected %s' % (clo, chi, o.val, 'ch%+d' % delta if inside else 'ch unchanged'))
        # the classes must tile 0..255 with the letter range as one class
        if not problems:
            if (lo, hi) not in covered:
                problems.append('no path class is exactly the letter range [%d,%d] (classes: %s)' % (lo, hi, sorted(covered)))
        run.ob('R06.2', nm, not problems, problems[0] if problems else 'maps [%d,%d] by %+d and every other unit to itself' % (lo, hi, delta), loc=fn_loc(f))
    return n


CI_FUNCS = [r'^_ST_PRIVATE::compare_ci\(char const\*, char const\*, unsigned long\)$',
            r'^_ST_PRIVATE::find_ci\(char const\*, unsigned long, char\)$',
            r'^_ST_PRIVATE::find_ci\(char const\*, unsigned long, char const\*, unsigned long\)$',
            r'^ST::hash_i::operator\(\)\(ST::string const&\) const$']


def unfolded_uses(m, f, raw, depth=0):
    """Uses of unfolded units in f: `raw` holds the value ids that carry a unit as read (the i8 loads of f, or a parameter of a helper
    that is handed such a unit).  A unit may be passed on to a fold function, to the single-unit search (which folds it), or to a
    library helper that itself folds that parameter before using it (followed, a few levels deep)."""
    raw = set(raw)
    bad = []
    changed = True
    while changed:
        changed = False
        for i in f.all_insts():
            if i.op in ('zext', 'sext', 'trunc', 'phi', 'select') and i.id not in raw:
                ops = [x[0] for x in i.d['inc']] if i.op == 'phi' else i.a
                if any(o[0] == 'v' and o[1] in raw for o in ops):
                    raw.add(i.id)
                    changed = True
    for i in f.all_insts():
        uses = [o for o in (i.a if i.op != 'phi' else []) if o[0] == 'v' and o[1] in raw]
        if not uses:
            continue
        if i.op in ('call', 'invoke'):
            callee = m.dem(i.callee) if i.callee else ''
            if callee.startswith('_ST_PRIVATE::cl_fast_lower(') or callee.startswith('_ST_PRIVATE::cl_fast_upper(') or \
                    callee.startswith('_ST_PRIVATE::find_ci(char const*, unsigned long, char)'):
                continue
            g = m.func(i.callee) if i.callee and m.has(i.callee) else None
            if g is not None and m.is_lib(g) and depth < 3:
                sub = []
                for k, a in enumerate(i.a):
                    if a[0] == 'v' and a[1] in raw and k < g.nargs:
                        sub += unfolded_uses(m, g, [k], depth + 1)
                bad += ['%s (in %s, handed the unit at line %d)' % (b, callee.split('(')[0], i.line) for b in sub]
                continue
            bad.append('unfolded unit passed to %s at line %d' % (callee.split('(')[0] or 'a call', i.line))
        elif i.op in ('icmp', 'xor', 'add', 'sub', 'mul', 'and', 'or'):
            bad.append('unfolded unit used by `%s` at line %d' % (i.op, i.line))
    return bad


def taint(run, m, F):
    """Units loaded in a case-insensitive routine reach arithmetic / comparisons only through the fold."""
    n = 0
    for name in F.lib:
        f = m.func(name)
        if not any(re.match(p, f.dem) for p in CI_FUNCS):
            continue
        n += 1
        raw = set(i.id for i in f.all_insts() if i.op == 'load' and i.ty == 'i8')
        bad = unfolded_uses(m, f, raw)
        run.ob('R06.2', short(f.dem), not bad, bad[0] if bad else 'every unit is folded before it is compared / hashed', disc='fold discipline', loc=fn_loc(f))
    return n


def fold_agreement(run, m, F):
    """R06.8: every routine that *orders* case-insensitively orders the units after the same fold.  The fold of the three-argument
    core compare_ci (R06.6) is the reference; a library function reachable from the compare family in which units folded by the other
    map reach a subtraction or an ordering comparison sorts the units 0x5B..0x60 ([ \\ ] ^ _ `) on the other side of the letters
    than its siblings do, so the overloads / functors / operators disagree (witness '_' against 'x').  Equality-only uses (a hit
    test) are not affected by which fold is used."""
    from .common import tainted_insts
    core = None
    for name in F.lib:
        if m.func(name).dem.startswith('_ST_PRIVATE::compare_ci(char const*, char const*, unsigned long)'):
            core = m.func(name)
    if core is None:
        run.ob('R06.8', 'compare_ci', None, 'three-argument core compare_ci not found', loc='')
        return 0

    def folds_called(g):
        out = {}
        for i in g.all_insts():
            if i.op in ('call', 'invoke') and i.callee:
                d = m.dem(i.callee)
                mt = re.match(r'^_ST_PRIVATE::cl_fast_(lower|upper)\(char\)', d)
                if mt:
                    out.setdefault(mt.group(1), []).append(i)
        return out
    ref = set(folds_called(core))
    for t in F.reachable_from([core.name]):
        if m.has(t) and m.is_lib(m.func(t)) and not re.match(r'^_ST_PRIVATE::cl_fast_', m.func(t).dem):
            ref |= set(folds_called(m.func(t)))         # the fold may sit in a helper of the core (one step of the comparison)
    if len(ref) != 1:
        run.ob('R06.8', short(core.dem), None, 'the core does not fold with exactly one of cl_fast_lower / cl_fast_upper (%s)' % sorted(ref), loc=fn_loc(core))
        return 1
    ref = list(ref)[0]
    roots = [name for name in F.lib if re.match(r'^(ST::string::compare(_n|_i|_ni)?\(|ST::(less_i|equal_i)::operator\(\)|ST::buffer<.*>::compare)', m.func(name).dem)]
    n = 0
    seen = set()
    for t in list(roots) + [x for x in F.reachable_from(roots) if m.has(x)]:
        if t in seen or not m.has(t):
            continue
        seen.add(t)
        g = m.func(t)
        if not m.is_lib(g):
            continue
        fc = folds_called(g)
        other = [k for k in fc if k != ref]
        if not fc:
            continue
        n += 1
        bad = None
        for k in other:
            for call in fc[k]:
                tset = set([call.id])
                changed = True
                while changed:
                    changed = False
                    for i in g.all_insts():
                        if i.id in tset:
                            continue
                        ops = [x[0] for x in i.d.get('inc', [])] if i.op == 'phi' else i.a
                        ids = set()
                        from .common import _operand_ids
                        _operand_ids(ops, ids)
                        if ids & tset and i.op in ('zext', 'sext', 'trunc', 'phi', 'select', 'sub', 'icmp'):
                            tset.add(i.id)
                            changed = True
                for i in g.all_insts():
                    if i.id in tset and (i.op == 'sub' or (i.op == 'icmp' and i.d.get('pred') not in ('eq', 'ne'))):
                        bad = (k, i)
                        break
                if bad:
                    break
            if bad:
                break
        if bad:
            run.ob('R06.8', short(g.dem), False,
                   'orders units after folding them with cl_fast_%s (line %d) while the core compare_ci folds with cl_fast_%s: the units 0x5B..0x60 fall on '
                   'the other side of the letters, so this routine and its siblings order "_" and "x" differently (0x5F < 0x78 after the lower '
                   'fold, 0x5F > 0x58 after the upper fold)' % (bad[0], bad[1].line, ref), loc=fn_loc(g), disc='fold of an ordering')
        else:
            run.ob('R06.8', short(g.dem), True, 'orders after the same fold as the core (cl_fast_%s)%s' % (ref, '' if not other else '; the other fold only feeds equality tests'),
                   disc='fold of an ordering')
    if n == 0:
        run.ob('R06.8', 'compare family', None, 'no routine reachable from the compare family calls a fold function: not analysed')
        n = 1
    return n


def derived(run, m, F, E):
    """R06.3: members and operators are a core applied to (data,size) of both operands + a predicate on its result."""
    L = own.buffer_layout(m, 'char')
    specs = []
    for name in F.lib:
        f = m.func(name)
        d = f.dem
        mt = re.match(r'^ST::string::(compare|compare_n|compare_i|compare_ni|operator==|operator!=|operator<)\((ST::string const&|char const\*)(, unsigned long)?(, ST::case_sensitivity_t)?\) const$', d)
        if mt:
            specs.append((f, mt.group(1), 'string' if 'ST::string' in mt.group(2) else 'cstr', bool(mt.group(3)), bool(mt.group(4))))
    for name in F.lib:
        f = m.func(name)
        mt = re.match(r'^ST::(less_i|equal_i)::operator\(\)\(ST::string const&, ST::string const&\) const$', f.dem)
        if mt:
            specs.append((f, mt.group(1), 'string', False, False))
    specs = [x + (L, 'large', 'large') for x in specs]
    # the same members of the four buffer types; small and large operands (the two storage forms take different branches in a
    # member that looks at its own fields)
    for elt in ('char', 'wchar_t', 'char16_t', 'char32_t'):
        LB = own.buffer_layout(m, elt)
        if LB is None:
            continue
        pat = re.compile(r'^ST::buffer<%s>::(compare|compare_n|operator==|operator!=|operator<)\((ST::buffer<%s> const&|%s const\*)(, unsigned long)?\) const$' % (elt, elt, elt))
        for name in F.lib:
            f = m.func(name)
            mt = pat.match(f.dem)
            if mt:
                form = 'string' if 'ST::buffer' in mt.group(2) else 'cstr'
                for (ca, cb) in ((('small', 'small'), ('large', 'large'), ('small', 'large'), ('large', 'small')) if form == 'string' else (('small', ''), ('large', ''))):
                    specs.append((f, mt.group(1), form, bool(mt.group(3)), False, LB, ca, cb))
    n = 0
    for (f, op, form, has_n, has_cs, L, cls_a, cls_b) in specs:
        n += 1
        problems, und = [], []
        is_buf = f.dem.startswith('ST::buffer<')
        for other_null in ([False, True] if form == 'cstr' else [False]):
            I = Interp(m, F, E, CoreHooks(m, stop_cores=True))
            st = State()
            this = own.make_buffer(I, st, L, 'this', cls_a)
            if form == 'string':
                oth = own.make_buffer(I, st, L, 'other', cls_b)
                oarg = PtrV(oth)
                odata, osize = st.flags['entry:other']['storage'], st.flags['entry:other']['size']
            elif other_null:
                oarg = NULL
                odata, osize = None, ZERO
            else:
                st.rng['slen'] = (0, MAXLEN)
                so = Obj('ext', (Lin.atom('slen') + 1).scale(L.eb))
                if L.eb == 1:
                    so.attrs['cstr_len'] = Lin.atom('slen')
                else:
                    so.lazy = True
                st.objs['STR'] = so
                oarg = PtrV('STR')
                odata, osize = PtrV('STR'), None
            args = [PtrV(this), oarg]
            if op in ('less_i', 'equal_i'):
                st.objs['FUNCTOR'] = Obj('ext', Lin.const(1))
                args = [PtrV('FUNCTOR')] + args
            cnt = None
            if has_n:
                cnt = I.fresh_int(st, 64, 'count')
                args.append(cnt)
            csv = None
            if has_cs:
                csv = I.fresh_int(st, 32, 'cs', hi=1)
                args.append(csv)
            e_this = st.flags['entry:this']
            outs = I.run(I.start(f, args, st))
            for o in outs:
                for e in o.st.events:
                    if e[0] in ('oob', 'oob?') and isinstance(e[3], PtrV) and e[3].obj in ('STR', e_this['storage'].obj):
                        env = e[6] if len(e) > 6 else None
                        what = 'the const char* operand (past its terminating NUL)' if e[3].obj == 'STR' else 'the string'
                        if e[0] == 'oob' or env is not None:
                            problems.append('reads %s at offset %r (line %d)%s' % (what, e[3].off, e[1].line, '; witness ' + own.fmt_env(env) if env else ''))
                if o.kind != 'ret':
                    if o.kind not in ('abort', 'backedge'):
                        problems.append('path ends in %s' % o.kind)
                    elif o.kind == 'backedge':
                        und.append('not of the form core-then-predicate (own loop)')
                    continue
                s2 = o.st
                cc = [e for e in s2.events if e[0] == 'core']
                if not cc and form == 'string' and op in ('operator==', 'operator!=') and isinstance(o.val, IntV):
                    # equality decided without the ordering core: from the sizes alone, or by the unit comparator on exactly the
                    # contents of both operands
                    r = direct_equality(I, s2, o.val, op, e_this, st.flags['entry:other'], L)
                    if r is True:
                        continue
                    (problems if r[0] == 'bad' else und).append(r[1])
                    continue
                if len(cc) != 1:
                    und.append('%d core calls on a path' % len(cc))
                    continue
                who, a = cc[0][2], cc[0][3]
                want_ci = op in ('compare_i', 'compare_ni', 'less_i', 'equal_i') or (csv is not None and s2.is_eq0(csv.lin - 1) is True)
                want_cs = op in ('operator==', 'operator!=', 'operator<') or (csv is not None and s2.is_eq0(csv.lin) is True) or \
                    (csv is None and op in ('compare', 'compare_n') )
                if want_ci and 'compare_ci' not in who:
                    problems.append('case-insensitive request reaches %s' % who)
                if want_cs and not want_ci and 'compare_ci' in who:
                    problems.append('case-sensitive request reaches %s' % who)
                # (data,size) of this
                if not (isinstance(a[0], PtrV) and a[0].obj == e_this['storage'].obj and s2.is_eq0(a[0].off - e_this['storage'].off) is True and
                        isinstance(a[1], IntV) and s2.is_eq0(I.as_u(s2, a[1]) - e_this['size']) is True):
                    # a member that clamps the sizes itself before calling the plain core (the _n forms) hands on a shorter left
                    # operand legitimately; anything that is not provably wrong is undecided
                    ptr_ok = isinstance(a[0], PtrV) and a[0].obj == e_this['storage'].obj and s2.is_eq0(a[0].off - e_this['storage'].off) is True
                    szl = I.as_u(s2, a[1]) if isinstance(a[1], IntV) else None
                    over = s2.find_model([szl - e_this['size']], lambda vv: vv[0] > 0) if (ptr_ok and szl is not None) else None
                    if over is not None:
                        problems.append('left operand is longer than *this: (data(), %r) for a size of %r; witness %s' % (szl, e_this['size'], own_fmt(over)))
                    elif ptr_ok and op in ('compare_n', 'compare_ni'):
                        und.append('left operand is (data(), %r): a clamped size, not compared with min(size(), count)' % (szl,))
                    elif ptr_ok and szl is not None and s2.find_model([szl - e_this['size']], lambda vv: vv[0] != 0) is None:
                        und.append('left operand size %r not decided equal to size()' % (szl,))
                    else:
                        problems.append('left operand is not (data(), size()) of *this')
                # (data,size) of other
                if form == 'string':
                    if not (isinstance(a[2], PtrV) and a[2].obj == odata.obj and s2.is_eq0(a[2].off - odata.off) is True and
                            isinstance(a[3], IntV) and s2.is_eq0(I.as_u(s2, a[3]) - osize) is True):
                        rptr_ok = isinstance(a[2], PtrV) and a[2].obj == odata.obj and s2.is_eq0(a[2].off - odata.off) is True
                        szr = I.as_u(s2, a[3]) if isinstance(a[3], IntV) else None
                        over_r = s2.find_model([szr - osize], lambda vv: vv[0] > 0) if (rptr_ok and szr is not None) else None
                        if over_r is not None:
                            problems.append('right operand is longer than the argument: %r units for a size of %r; witness %s' % (szr, osize, own_fmt(over_r)))
                        elif rptr_ok and op in ('compare_n', 'compare_ni'):
                            und.append('right operand is (data(), %r): a clamped size, not compared with min(size(), count)' % (szr,))
                        else:
                            problems.append('right operand is not (data(), size()) of the argument')
                elif other_null:
                    if not (isinstance(a[3], IntV) and s2.is_eq0(I.as_u(s2, a[3])) is True and isinstance(a[2], PtrV) and I.ptr_nullness(s2, a[2]) is False):
                        # (a null pointer replaced by an empty text of the member's own is as good as ("", 0))
                        sz3 = I.as_u(s2, a[3]) if isinstance(a[3], IntV) else None
                        nonnull = isinstance(a[2], PtrV) and I.ptr_nullness(s2, a[2]) is False
                        env3 = s2.find_model([sz3], lambda vv: vv[0] != 0) if sz3 is not None else None
                        if env3 is not None and any(isinstance(k9, tuple) and k9[0] == 'strlen' for k9 in env3):
                            env3 = None         # the measured length of a text of the member's own is not an input
                        if not nonnull and I.ptr_nullness(s2, a[2]) is True and isinstance(a[2], PtrV):
                            problems.append('null const char* is handed to the core as it is')
                        elif env3 is not None:
                            problems.append('null const char* is not treated as the empty string: the core is given %r units; witness %s' % (sz3, own_fmt(env3)))
                        else:
                            und.append('null const char*: the right operand handed to the core is not decided to be the empty string')
                else:
                    sl = [x for x, k in (I.as_u(s2, a[3]).t if isinstance(a[3], IntV) else ()) if isinstance(x, tuple) and x[0] == 'strlen' and x[1] == 'STR']
                    if isinstance(a[3], IntV) and s2.is_eq0(I.as_u(s2, a[3]) - Lin.atom('slen')) is True:
                        sl = [True]
                    if not (isinstance(a[2], PtrV) and a[2].obj == 'STR' and s2.is_eq0(a[2].off) is True and sl):
                        problems.append('right operand is not (str, strlen(str))')
                if has_n:
                    if not (len(a) >= 5 and isinstance(a[4], IntV) and s2.is_eq0(I.as_u(s2, a[4]) - cnt.lin) is True):
                        # a member that clamps both sizes to n itself and calls the plain core has applied the limit already
                        szl2 = I.as_u(s2, a[1]) if isinstance(a[1], IntV) else None
                        if len(a) < 5 and szl2 is not None and s2.is_ge0(cnt.lin - szl2) is True:
                            und.append('the limit n is applied by clamping the sizes before a plain core call: not compared further')
                        else:
                            problems.append('the limit n is not handed to the core')
                elif len(a) >= 5:
                    problems.append('a limit is handed to the core although none was given')
                # predicate on the result
                v = o.val
                k = Lin.atom('core')
                if op.startswith('compare'):
                    if not (isinstance(v, IntV) and v.lin == k):
                        problems.append('does not return the core\'s result')
                else:
                    cond = I.cond_of(s2, v) if isinstance(v, IntV) else None
                    pred = {'operator==': 'zero', 'operator!=': 'nonzero', 'operator<': 'neg', 'less_i': 'neg', 'equal_i': 'zero'}[op]
                    for sg in SIGNS:
                        s3 = s2.clone()
                        if not sign_assume(s3, k, sg):
                            continue
                        if cond is not None:
                            got = I.decide(s3, cond)
                        else:
                            got = None
                            if isinstance(v, IntV):
                                lo, hi = s3.range(v.lin)
                                got = True if lo >= 1 else (False if hi <= 0 and lo >= 0 else None)
                        want = (sg == 'zero') if pred == 'zero' else (sg != 'zero') if pred == 'nonzero' else (sg == 'neg')
                        if got is None:
                            und.append('result not decided for core %s' % sg)
                        elif got != want:
                            problems.append('%s returns %s when the core result is %s' % (op, got, {'neg': 'negative', 'zero': 'zero', 'pos': 'positive'}[sg]))
        disc = form + (' +n' if has_n else '') + (' +cs' if has_cs else '') + ((' %s/%s' % (cls_a, cls_b)).rstrip('/') if is_buf else '')
        if problems:
            run.ob('R06.3', short(f.dem), False, problems[0], disc=disc, loc=fn_loc(f))
        elif und:
            run.ob('R06.3', short(f.dem), None, und[0], disc=disc, loc=fn_loc(f))
        else:
            run.ob('R06.3', short(f.dem), True, 'core on (data,size) of both operands, right predicate', disc=disc)
    # std::hash: call-graph form
    for name in F.lib:
        f = m.func(name)
        if f.dem.startswith('std::hash<ST::string>::operator()('):
            n += 1
            callees = [m.dem(t) for (i, ts, k) in F.calls[name] for t in ts]
            ok = len(callees) == 1 and callees[0].startswith('ST::hash::operator()(')
            run.ob('R06.3', short(f.dem), True if ok else None, 'forwards to ST::hash' if ok else 'does not simply forward to ST::hash (%s): not analysed' % callees, loc=fn_loc(f))
    return n


_STALE = {}


def stale_tail(I0, L):
    """A member of the buffer class that leaves an object empty while units after its terminator keep the earlier contents (the
    library does not promise zero padding of the in-object array): (member, description), or None when no such member is found -
    then a comparison of the whole array could be equivalent to a comparison of the contents and is not called wrong."""
    m, F, E = I0.m, I0.F, I0.E
    if L.elt in _STALE:
        return _STALE[L.elt]
    res = None
    for name in F.lib:
        f = m.func(name)
        if not re.match(r'^ST::buffer<%s>::(buffer\(ST::buffer<%s>&&\)|operator=\(ST::buffer<%s>&&\)|clear\(\))$' % (L.elt, L.elt, L.elt), f.dem):
            continue
        roles = own.owner_param_roles(f, L)
        tag = 'other' if 'other' in roles else 'this'
        scen = ('undef' if own.is_ctor(f) else 'small', 'small' if 'other' in roles else None, False)
        try:
            I, outs, info = own.run_method(m, F, E, L, f, scen)
        except Exception:
            continue
        for o in outs:
            if o.kind != 'ret':
                continue
            ob = o.st.objs.get('own:' + tag)
            ent = o.st.flags.get('entry:' + tag)
            if ob is None or ent is None or L.n_local < 3:
                continue
            c = ob.cells.get(L.size_off)
            if not (c and isinstance(c[1], IntV) and o.st.is_eq0(c[1].lin) is True):
                continue
            lo, hi = L.data_off + L.eb, L.data_off + 2 * L.eb          # unit 1 of the in-object array
            untouched = True
            for (roff, rlen, tg, ver) in ob.regions:
                if ver <= ent.get('storage_ver', 0):
                    continue
                if roff.t or not isinstance(rlen, (int, Lin)) or (isinstance(rlen, Lin) and rlen.t):
                    untouched = False
                    break
                rl = rlen if isinstance(rlen, int) else rlen.c
                if roff.c < hi and roff.c + rl > lo:
                    untouched = False
                    break
            if untouched:
                res = (f, '%s leaves the object empty with its old units still in the array after the terminator' % short(f.dem, 60))
                break
        if res:
            break
    _STALE[L.elt] = res
    return res


def direct_equality(I, s2, val, op, ea, eb_, L):
    """operator== / operator!= of two buffers on a path that does not call the ordering core.  True when the decision is the one the
    contents give; ('bad', text) with a witness; ('und', text) otherwise."""
    sa, sb = ea['size'], eb_['size']
    pcs = [e for e in s2.events if e[0] == 'prefix-compare']
    want_eq_true = (op == 'operator==')

    def result_is(flag):
        cond = I.cond_of(s2, val)
        if cond is not None:
            got = I.decide(s2, cond)
            if got is not None:
                return got == flag
        lo, hi = s2.range(val.lin)
        return (lo >= 1) if flag else (lo == 0 and hi == 0)
    if not pcs:
        if s2.is_eq0(sa - sb) is False:
            return True if result_is(not want_eq_true) else ('und', 'sizes differ on this path but the result is not the constant "unequal"')
        if s2.is_eq0(sa) is True and s2.is_eq0(sb) is True:
            return True if result_is(want_eq_true) else ('und', 'both operands empty but the result is not the constant "equal"')
        return ('und', 'equality decided without comparing units on a path where the sizes may agree')
    if len(pcs) != 1:
        return ('und', '%d unit comparisons on one path' % len(pcs))
    _, inst, a0, a1, cnt, who = pcs[0]
    cl = I.as_u(s2, cnt) if isinstance(cnt, IntV) else None
    sta, stb = ea['storage'], eb_['storage']

    def at(p, sto):
        return isinstance(p, PtrV) and p.obj == sto.obj and s2.is_eq0(p.off - sto.off) is True
    if cl is None or not ((at(a0, sta) and at(a1, stb)) or (at(a0, stb) and at(a1, sta))):
        return ('und', 'unit comparator is not given the storage of the two operands')
    if s2.is_eq0(cl - sa) is True and s2.is_eq0(sa - sb) is True:
        # contents compared exactly: the predicate on the comparator's verdict
        k = Lin.atom('cmp')
        cond = I.cond_of(s2, val)
        for sg in SIGNS:
            s3 = s2.clone()
            if not sign_assume(s3, k, sg):
                continue
            got = I.decide(s3, cond) if cond is not None else None
            want = (sg == 'zero') if want_eq_true else (sg != 'zero')
            if got is None:
                return ('und', 'result not decided for comparator verdict %s' % sg)
            if got != want:
                return ('bad', '%s returns %s when the units compare %s' % (op, got, {'neg': 'less', 'zero': 'equal', 'pos': 'greater'}[sg]))
        return True
    env = s2.find_model([cl - sa, cl - sb], lambda v: v[0] > 0 or v[1] > 0)
    if env is not None:
        w = stale_tail(I, L)
        if w is not None:
            return ('bad', 'equality is decided by comparing %r units although an operand may hold fewer (witness %s): units after the '
                    'terminator are not part of the value, and %s - such an object then differs from an empty one under %s while '
                    'compare() calls them equal' % (cl, own.fmt_env(env), w[1], op))
        return ('und', 'equality compares %r units although an operand may hold fewer (witness %s); whether the units after the terminator '
                'are kept zero by every member is not analysed' % (cl, own.fmt_env(env)))
    return ('und', 'number of compared units %r not related to the sizes' % (cl,))


UNSIGNED_CHAR = [False]
REFERENCE_CONFIG = ('c++20', ())


def own_fmt(env):
    from . import own
    return own.fmt_env(env)


def ci_step(run, m, F, E):
    """R06.6 compare_ci(3-arg): one iteration."""
    f = [m.func(x) for x in F.lib if m.func(x).dem == '_ST_PRIVATE::compare_ci(char const*, char const*, unsigned long)']
    run.need(f, 'compare_ci(3) not found')
    f = f[0]

    class H(Hooks):
        unroll = 1                  # the first iteration is interpreted exactly: it supplies the entry values of the cursors and the
        widen_on_entry = False      # per-iteration deltas from which the affine relations between them are proposed (then verified)

        def call(self2, I, st, inst, name, args):
            if name and m.dem(name).startswith('_ST_PRIVATE::cl_fast_lower('):
                k = len([e for e in st.events if e[0] == 'fold'])
                st.ev('fold', inst, args[0])
                a = 'fold%d' % k
                # the folded value is a `char`: signed or unsigned as the configuration under analysis says
                if UNSIGNED_CHAR[0]:
                    st.rng[a] = (0, 255)
                    return [(st, IntV(8, Lin.atom(a), 'u'))]
                st.rng[a] = (-128, 127)
                return [(st, IntV(8, Lin.atom(a), 's'))]
            return None
    I = Interp(m, F, E, H())
    st = State()
    lo, ro = Obj('ext', None), Obj('ext', None)
    lo.lazy = ro.lazy = True
    st.objs['LEFT'], st.objs['RIGHT'] = lo, ro
    cnt = I.fresh_int(st, 64, 'fsize', hi=MAXLEN)
    fsize = cnt.lin
    outs = I.run(I.start(f, [PtrV('LEFT'), PtrV('RIGHT'), cnt], st))
    problems, und = [], []
    kinds = {}

    def unit_pos(v):
        """(object, offset) of the unit a folded value was loaded from."""
        if not isinstance(v, IntV):
            return None
        atoms = set()
        base_atoms(v.lin, atoms)
        ld = [a for a in atoms if isinstance(a, tuple) and a[0] == 'load' and a[1] in ('LEFT', 'RIGHT')]
        if len(atoms) != 1:
            return None
        if len(ld) == 1:
            return ld[0][1], ld[0][2]
        mt = re.match(r'^(LEFT|RIGHT)\.(\d+)$', list(atoms)[0]) if isinstance(list(atoms)[0], str) else None
        if mt:
            return mt.group(1), Lin.const(int(mt.group(2)))
        return None

    def differs(s2, d, what):
        """d == 0 required: discharged / violated with a witness / undecided."""
        if d is None:
            und.append(what + ': not expressible over the loop-carried values')
            return
        if s2.is_eq0(d) is True:
            return
        env = s2.find_model([d], lambda v: v[0] != 0) if robust([d]) else None
        if env is not None:
            problems.append('%s; witness %s' % (what, own_fmt(env)))
        else:
            und.append(what + ' (not decided)')
    pos_terms = None

    def nfold(s2, wi):
        return len([e for e in s2.events[:wi + 1] if e[0] == 'fold'])
    exits = []
    for o in outs:
        s2 = o.st
        kinds[o.kind] = kinds.get(o.kind, 0) + 1
        wi = max([k for k, e in enumerate(s2.events) if e[0] == 'widen' and e[1] == f.name] or [-1])
        folds_ = [e for e in s2.events[wi + 1:] if e[0] == 'fold']
        hdrs = [k for k in s2.flags if isinstance(k, str) and k.startswith('hbegin:' + f.name + ':')]
        b = s2.flags.get(hdrs[0]) if len(hdrs) == 1 else {}
        e2 = s2.flags.get('hend:' + hdrs[0][7:]) if len(hdrs) == 1 else {}
        en = s2.flags.get('hentry:' + hdrs[0][7:]) if len(hdrs) == 1 else {}
        if o.kind == 'backedge':
            if len(folds_) != 2:
                und.append('an iteration folds %d units, expected one of each side' % len(folds_))
                continue
            fa, fb = [Lin.atom('fold%d' % k) for k in range(nfold(s2, wi), nfold(s2, wi) + 2)]
            if s2.is_eq0(fa - fb) is not True:
                problems.append('the loop continues although the folded units may differ')
            ps = [unit_pos(e[2]) for e in folds_]
            if None in ps or sorted(p[0] for p in ps) != ['LEFT', 'RIGHT']:
                und.append('the folded values are not one unit read from each operand')
                continue
            pa = dict(ps)
            a, b_ = pa['LEFT'], pa['RIGHT']
            pos_terms = (a, b_)
            differs(s2, a - b_, 'the units compared in one iteration are at different offsets (%r of left, %r of right)' % (a, b_))
            nx = slot_subst(b, e2 or {})
            differs(s2, (lambda t: None if t is None else t - a - 1)(subst(a, nx)), 'the next iteration does not examine the unit after %r of left' % (a,))
            differs(s2, (lambda t: None if t is None else t - b_ - 1)(subst(b_, nx)), 'the next iteration does not examine the unit after %r of right' % (b_,))
            e0 = slot_subst(b, en or {})
            differs(s2, subst(a, e0), 'the first iteration does not examine unit 0 of left')
            differs(s2, subst(b_, e0), 'the first iteration does not examine unit 0 of right')
        elif o.kind == 'ret' and not (isinstance(o.val, IntV) and not o.val.lin.t):
            # a return of a non-constant: the difference of the two units folded last
            v = o.val
            allf = [e for e in s2.events if e[0] == 'fold']
            if len(allf) < 2 or (wi >= 0 and len(folds_) != 2):
                und.append('a returning iteration folds %d units' % len(folds_))
                continue
            fa, fb = Lin.atom('fold%d' % (len(allf) - 2)), Lin.atom('fold%d' % (len(allf) - 1))
            ps = [unit_pos(e[2]) for e in allf[-2:]]
            if None in ps or [p[0] for p in ps] != ['LEFT', 'RIGHT']:
                und.append('the value returned on a difference is not built from one unit of each operand (left first)')
                continue
            sv = I.as_s(s2, v)
            if s2.is_eq0(fa - fb) is True:
                problems.append('returns inside the loop although the folded units are equal')
            elif sv is None:
                und.append('return value on a difference not tracked')
            elif sv != fa - fb:
                # any value with the sign of folded(left) - folded(right) orders the same way
                lt = s2.find_model([sv, fa - fb], lambda w: (w[0] > 0) != (w[1] > 0) or (w[0] < 0) != (w[1] < 0)) if robust([sv]) else None
                if lt is not None:
                    problems.append('returns %r where folded(left) - folded(right) has another sign; witness %s' % (v, own_fmt(lt)))
                else:
                    und.append('returns %r on a difference: sign agreement with folded(left) - folded(right) not decided' % (v,))
        elif o.kind == 'ret':
            if o.val.lin.c != 0:
                problems.append('returns %r after the last unit, expected 0' % (o.val,))
            if wi >= 0:
                exits.append(s2)
            else:
                npairs = len([e for e in s2.events if e[0] == 'fold']) // 2
                differs(s2, fsize - npairs, 'returns 0 (equal) after %d of the count units' % npairs)
    if not kinds.get('backedge') or kinds.get('ret', 0) < 2:
        und.append('unexpected path structure %s' % kinds)
    if pos_terms is not None:
        for s2 in exits:
            differs(s2, pos_terms[0] - fsize, 'returns 0 (equal) with the cursor at %r, before all of the count units were examined' % (pos_terms[0],))
    run.ob('R06.6', short(f.dem), False if problems else (None if und else True), problems[0] if problems else (und[0] if und else
           'unit k of each side is folded in iteration k (k = 0, 1, ...); difference iff they differ; 0 after the count-th unit'), loc=fn_loc(f))
    return 1


def case_maps(run, m, F):
    """to_upper / to_lower: result sized by size(), each stored unit is the fold of the unit read."""
    n = 0
    for nm, fold in (('to_upper', 'cl_fast_upper'), ('to_lower', 'cl_fast_lower')):
        f = [m.func(x) for x in F.lib if m.func(x).dem == 'ST::string::%s() const' % nm]
        run.need(f, '%s not found' % nm)
        f = f[0]
        n += 1
        problems = []
        calls = [(i, m.dem(i.callee)) for i in f.all_insts() if i.op in ('call', 'invoke') and i.callee]
        fc = [i for (i, d) in calls if d.startswith('_ST_PRIVATE::%s(' % fold)]
        other = [d for (i, d) in calls if d.startswith('_ST_PRIVATE::cl_fast_') and not d.startswith('_ST_PRIVATE::%s(' % fold)]
        if len(fc) != 1 or other:
            problems.append('expected exactly one call of %s' % fold)
        else:
            arg = fc[0].a[0]
            src = f.inst(arg[1]) if arg[0] == 'v' else None
            if src is None or src.op != 'load':
                problems.append('%s is not applied to a unit loaded from the string' % fold)
            st_ = [i for i in f.all_insts() if i.op == 'store' and i.d.get('sty') == 'i8' and i.a[0] == ['v', fc[0].id]]
            if len(st_) != 1:
                problems.append('the folded unit is not what is stored into the result')
        al = [i for (i, d) in calls if re.match(r'^ST::buffer<char>::allocate\(unsigned long\)$', d)]
        if len(al) != 1:
            problems.append('result is not allocated exactly once')
        else:
            a1 = al[0].a[1]
            src = f.inst(a1[1]) if a1[0] == 'v' else None
            if src is None or not (src.op in ('call', 'invoke') and src.callee and m.dem(src.callee).startswith('ST::string::size()')):
                problems.append('result is not sized by size()')
        run.ob('R06.2', short(f.dem), not problems, problems[0] if problems else 'result of size() units, each the %s of the unit read' % fold, loc=fn_loc(f), disc='case map')
    return n


NUL_STOPPING = ('strcmp', 'strncmp', 'strcasecmp', 'strncasecmp', 'strcoll', 'wcscmp', 'wcsncmp', 'wcscasecmp', 'wcscoll', 'strstr', 'strchr', 'strrchr')


def nul_blind(run, m, F, tag='', only=None, rule='R06.7', prims=None, what='compare / search alike'):
    """R06.7: the comparison of two strings is over all size() units, embedded NULs included; the C primitives that stop at the first
    NUL (strcmp family) cannot decide it.  No function of ST::string / ST::buffer<T> / the private comparison helpers may hand the
    string's own storage (the result of c_str() / data() / begin() of a string or buffer) to one of them; handing them a C-string
    argument is fine; a pointer of unknown origin is undecided.  (Expected count on the library: zero; a positive control in
    gen/controls.cpp must fire.)"""
    from .common import pointer_roots
    prims = prims or NUL_STOPPING
    n = 0
    for name in F.lib:
        f = m.func(name)
        if only is not None and not only(f):
            continue
        cls = class_of(f)
        if only is None and not (cls.startswith('ST::string') or cls.startswith('ST::buffer<') or f.dem.startswith('_ST_PRIVATE::compare_') or
                                 f.dem.startswith('_ST_PRIVATE::find_') or cls in ('ST::hash', 'ST::hash_i', 'ST::equal_i', 'ST::less_i')):
            continue
        n += 1
        for (i, ts, k) in F.calls[name]:
            for t in ts:
                if t in prims or m.dem(t) in prims:
                    roots = set()
                    for a in i.a:
                        if isinstance(a, list) and a and a[0] in ('v', 'g', 'n', 'ce'):
                            vi = f.inst(a[1]) if a[0] == 'v' and a[1] >= f.nargs else None
                            is_ptr = (a[0] != 'v') or (a[1] < f.nargs and f.params[a[1]]['ty'].endswith('*')) or (vi is not None and str(vi.ty).endswith('*'))
                            if is_ptr:
                                roots |= pointer_roots(m, f, a)
                    own_ = sorted(r[1] for r in roots if r[0] == 'own')
                    other = sorted(r[1] for r in roots if r[0] == 'other')
                    if own_:
                        run.ob(rule + tag, short(f.dem), False, 'hands the result of %s() to %s: it stops at the first NUL, so texts that differ only after an '
                               'embedded NUL %s' % (own_[0], t, what), loc=f.loc(i), disc=t)
                    elif other:
                        run.ob(rule + tag, short(f.dem), None, 'calls %s (stops at the first NUL) on a pointer whose origin is not followed (%s)' % (t, other[0]),
                               loc=f.loc(i), disc=t)
    run.ob(rule + tag, 'no NUL-stopping C primitive on a string\'s own storage', True, '%d functions scanned' % n)
    return n


def check(run):
    m = run.module()
    UNSIGNED_CHAR[0] = '-funsigned-char' in run.config[1]
    F = run.facts()
    E = run.effects()
    run.trust('clang 14 lowering (LLVM IR, -O0, mem2reg)', 'STIR interpreter',
              'std::char_traits<T>::compare is unsigned lexicographic on the first n units (libstdc++)')
    run.assume('antisymmetry / transitivity follow from the lexicographic structure established here; they are not mechanised separately')
    run.floor('comparison cores', cores(run, m, F, E), 10)
    run.floor('fold functions', folds(run, m, F, E), 2)
    run.floor('case-insensitive routines (fold discipline)', taint(run, m, F), 4)
    run.floor('derived members / operators', derived(run, m, F, E), 14)
    ci_step(run, m, F, E)
    run.floor('case maps', case_maps(run, m, F), 2)
    run.floor('routines ordering folded units', fold_agreement(run, m, F), 1)
    run.floor('members scanned for NUL-stopping primitives', nul_blind(run, m, F), 300)
    if run.config == REFERENCE_CONFIG:
        import os
        from .. import facts as factsmod, frontend
        mc = run.module(tu='controls.cpp')
        mc.repo_include = os.path.join(frontend.VERIF, 'gen') + '/'
        Fc = factsmod.Facts(mc)
        sub = type(run)(run.prop, run.tier)
        nul_blind(sub, mc, Fc, only=lambda f: 'verif_controls' in f.dem)
        run.need(any(o['verdict'] == 'violated' for o in sub.obs), 'positive control gen/controls.cpp: rule R06.7 did not fire on its planted violation')
        run.counts['positive controls fired'] = 1
    for o in run.obs[:3] + [o for o in run.obs if o['rule'] == 'R06.3'][:2]:
        run.sample(dict(rule=o['rule'], subject=o['subject'], case=o['disc'], verdict=o['verdict'], detail=o['detail'][:160]))
