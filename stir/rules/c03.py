"""C03 - conversions are total and memory-safe on arbitrary input.

R03.1 every read of the input in a measure / convert loop is inside [input, input+size)
R03.2 two-pass agreement: on every pair of mutually consistent paths of one loop iteration the convert pass consumes the same
      units as the measure pass and either returns an error or stores exactly the measured number of units, contiguously
R03.3 wiring of the public wrappers: the same (pointer,size) feed measure and convert, the measured size is what is allocated
R03.4 no assertion other than the documented contract ones is reachable from a conversion loop
R03.5 throw set of every conversion entry is a subset of {ST::unicode_error, std::bad_alloc}
R03.6 progress: every iteration consumes at least one unit
"""
import re

from ..interp import Interp, Budget, Unmodelled, Hooks
from ..state import IntV, PtrV, State
from ..terms import Lin, ZERO
from . import conv
from .common import short, fn_loc, robust
from .conv import HUGE

LEVEL = 'proof'
EXPLANATION = ('step summaries of every measure/convert loop by abstract interpretation of one arbitrary iteration, run in lockstep '
               '(convert continues in the abstract state where measure ended); induction over iterations gives exact sizing and '
               'in-bounds reads for inputs of any length; wrapper wiring and throw sets from the module fact base')

CONTRACT_ASSERTS = ('String data buffer is too large', 'buffer cannot be constructed with non-zero size and NULL data',
                    'buffer<char_T>::strlen passed null buffer', 'Invalid validation type')
ALLOWED_THROWS = set(['ST::unicode_error', 'std::bad_alloc', 'std::bad_array_new_length', 'std::length_error'])


def modes(m):
    e = m.enums.get('ST::utf_validation_t')
    return sorted(e.items(), key=lambda x: x[1]) if e else None


def loc(m, inst):
    return '%s:%d' % (m.files[inst.file], inst.line) if inst is not None and hasattr(inst, 'line') else ''


def conv_args(I, C, v, flag, eb_src):
    def mp(k, nm, ty):
        if k == 0:
            return PtrV('OUT')
        if k == 1:
            return PtrV('IN')
        if k == 2:
            return IntV(64, Lin.atom('n'), 'u')
        if k == 3:
            return IntV(32, Lin.const(v), 'u')
        return IntV(int(ty[1:]) if ty[1:].isdigit() else 8, Lin.const(flag), 'u')
    return conv.call_args(C, mp)


def lockstep(run, m, F, E, pair, rule_sink):
    """Explore measure x convert path pairs; calls rule_sink(kind, ...) for every judged pair. Returns counts."""
    C, M = pair.C, pair.M
    eb_dst = conv.elt_bytes(C.params[0]['ty'])
    eb_src = conv.elt_bytes(C.params[1]['ty'])
    run.need(eb_dst and eb_src, 'cannot read element sizes of %s' % C.dem)
    h = conv.ConvHooks(eb_src, eb_dst)
    I = Interp(m, F, E, h)
    st0 = conv.base_state(eb_src)
    has_mode = len(C.params) >= 4 and not getattr(pair, 'cargs', None)
    has_flag = len(C.params) >= 5 and not getattr(pair, 'cargs', None)
    mlist = modes(m) if has_mode else [('n/a', 0)]
    flags = [0, 1] if has_flag else [0]
    npairs = 0
    def measure_args(mv):
        if getattr(pair, 'margs', None):
            return pair.margs
        out = []
        for k, p in enumerate(M.params):
            ty = p['ty']
            if ty.endswith('*'):
                out.append(PtrV('IN'))
            elif ty == 'i64':
                out.append(IntV(64, Lin.atom('n'), 'u'))
            elif ty == 'i32':
                out.append(IntV(32, Lin.const(mv), 'u'))       # a measure pass that takes the validation mode
            else:
                out.append(IntV(int(ty[1:]) if ty[1:].isdigit() else 8, Lin.const(0), 'u'))
        return out

    m_takes_mode = M is not None and not getattr(pair, 'margs', None) and any(p['ty'] == 'i32' for p in M.params)
    mits_by_mode = {}

    def measure_iterations(mv):
        key = mv if m_takes_mode else None
        if key not in mits_by_mode:
            if M is not None:
                mits_by_mode[key] = conv.run_iteration(I, M, st0.clone(), measure_args(mv), eb_src, eb_dst)
            else:
                s = st0.clone()
                s.assume_ge0(Lin.atom('n') - Lin.atom('cur') - 1)
                it = conv.Iter()
                it.kind, it.st, it.din, it.dlen, it.dout, it.ret, it.info, it.stores = 'backedge', s, Lin.const(eb_src), Lin.const(1), None, None, None, []
                mits_by_mode[key] = [it]
        return mits_by_mode[key]

    nm_total = 0
    for (mname, mv) in mlist:
      mits = measure_iterations(mv)
      nm_total = max(nm_total, len(mits))
      for mi, mit in enumerate(mits):
        if mit.kind == 'untracked':
            rule_sink('untracked', pair, 'measure', mname, mit, None, eb_src)
            continue
        if mit.kind != 'backedge':
            if mit.kind == 'abort':
                rule_sink('abort', pair, 'measure', None, mit, None, eb_src)
            continue
        if not m_takes_mode and mname != mlist[0][0]:
            pass
        else:
            v1, u1 = conv.in_bounds_events(I, mit)
            rule_sink('bounds', pair, 'measure', None, mit, (v1, u1), eb_src)
            rule_sink('progress', pair, 'measure', None, mit, None, eb_src)
        for fl in flags:
            cargs = pair.cargs if getattr(pair, 'cargs', None) else conv_args(I, C, mv, fl, eb_src)
            cits = conv.run_iteration(I, C, mit.st.clone(), cargs, eb_src, eb_dst)
            label = mname + ('/substitute_out_of_range=%d' % fl if has_flag else '')
            for cit in cits:
                npairs += 1
                if cit.kind == 'backedge':
                    v2, u2 = conv.in_bounds_events(I, cit)
                    rule_sink('bounds', pair, 'convert', label, cit, (v2, u2), eb_src)
                    rule_sink('agree', pair, label, mit, cit, eb_dst, eb_src)
                elif cit.kind == 'untracked':
                    rule_sink('untracked', pair, 'convert', label, cit, None, eb_src)
                elif cit.kind == 'ret':
                    rule_sink('ret', pair, label, mit, cit, None, eb_src)
                elif cit.kind == 'abort':
                    rule_sink('abort', pair, 'convert ' + label, mit, cit, None, eb_src)
                elif cit.kind == 'throw':
                    rule_sink('throw', pair, label, mit, cit, None, eb_src)
    return nm_total, npairs


def _unused():
    mits = []
    for mi, mit in enumerate(mits):
        if mit.kind != 'backedge':
            if mit.kind == 'abort':
                rule_sink('abort', pair, 'measure', None, mit, None, eb_src)
            continue
        v1, u1 = conv.in_bounds_events(I, mit)
        rule_sink('bounds', pair, 'measure', None, mit, (v1, u1), eb_src)
        rule_sink('progress', pair, 'measure', None, mit, None, eb_src)
        for (mname, mv) in mlist:
            for fl in flags:
                cargs = pair.cargs if getattr(pair, 'cargs', None) else conv_args(I, C, mv, fl, eb_src)
                cits = conv.run_iteration(I, C, mit.st.clone(), cargs, eb_src, eb_dst)
                label = mname + ('/substitute_out_of_range=%d' % fl if has_flag else '')
                for cit in cits:
                    npairs += 1
                    if cit.kind == 'backedge':
                        v2, u2 = conv.in_bounds_events(I, cit)
                        rule_sink('bounds', pair, 'convert', label, cit, (v2, u2), eb_src)
                        rule_sink('agree', pair, label, mit, cit, eb_dst, eb_src)
                    elif cit.kind == 'ret':
                        rule_sink('ret', pair, label, mit, cit, None, eb_src)
                    elif cit.kind == 'abort':
                        rule_sink('abort', pair, 'convert ' + label, mit, cit, None, eb_src)
                    elif cit.kind == 'throw':
                        rule_sink('throw', pair, label, mit, cit, None, eb_src)
    return len(mits), npairs


def simple_loops(pair):
    """Both passes are single loops (the lockstep comparison is per character only then)."""
    from ..interp import loop_info
    r = getattr(pair, '_simple', None)
    if r is None:
        r = True
        for f in (pair.M, pair.C):
            if f is None:
                continue
            loops, back = loop_info(f)
            if len(loops) > 1:
                r = False
        pair._simple = r
    return r


def check_pairs(run, m, F, E):
    pairs = conv.discover(m, F, run, 'R03.1')
    run.floor('convert loops', len(pairs) + conv.ODD[0], 12)
    run.floor('measure loops', sum(1 for p in pairs if p.M is not None) + conv.ODD_M[0], 9)
    # the repairer runs the same function twice: without output (sizing) and with it
    from ..state import NULL
    for name in F.lib:
        f = m.func(name)
        if f.dem.startswith('_ST_PRIVATE::cleanup_utf8(char*, char const*, unsigned long)'):
            p = conv.Pair('utf8(cleaned)', 'utf8', f, f)
            p.margs = [NULL, PtrV('IN'), IntV(64, Lin.atom('n'), 'u')]
            p.cargs = [PtrV('OUT'), PtrV('IN'), IntV(64, Lin.atom('n'), 'u')]
            pairs.append(p)
    run.floor('two-pass pairs incl. cleanup_utf8', len(pairs) + conv.ODD[0], 13)
    tot_pairs = 0
    agg = {}

    def sink(kind, pair, a, b, it, extra, eb_src):
        subject = '%s <- %s' % (pair.tgt, pair.src)
        st = it.st
        units = conv.describe_units(st, eb_src)
        if kind == 'untracked':
            key = ('R03.2', subject, b)
            r = agg.setdefault(key, [0, [], []])
            r[0] += 1
            r[2].append('the %s loop does not move a recognised cursor over the input: its iterations are not compared' % a)
        elif kind == 'bounds':
            viol, und = extra
            fn = pair.M if a == 'measure' else pair.C
            key = ('R03.1', subject, a)
            r = agg.setdefault(key, [0, [], []])
            r[0] += 1
            for (inst, msg, env) in viol:
                r[1].append('%s at %s%s' % (msg, loc(m, inst), ('; witness ' + conv.fmt_env(env, eb_src)) if env else ''))
            for (inst, msg) in und:
                r[2].append('%s at %s' % (msg, loc(m, inst)))
        elif kind == 'progress':
            key = ('R03.6', subject, a)
            r = agg.setdefault(key, [0, [], []])
            r[0] += 1
            if it.din is None or not simple_loops(pair):
                r[2].append('cursor advance of this loop is not tracked (not a single cursor loop)')
            elif st.is_ge0(it.din - eb_src) is not True:
                r[1].append('an iteration may consume no input (delta = %r bytes) [%s]' % (it.din, units))
        elif kind == 'agree':
            label, mit, cit, eb_dst = a, b, it, extra
            key = ('R03.2', subject, label)
            r = agg.setdefault(key, [0, [], []])
            r[0] += 1
            cst = cit.st
            if not simple_loops(pair):
                r[2].append('a pass is not a single cursor loop (chunked / nested loops): step summaries are not comparable unit by unit')
                return
            if cit.din is None or mit.din is None:
                r[2].append('cursor advance not tracked')
                return
            e = cst.is_eq0(cit.din - mit.din)
            if e is not True:
                env = cst.find_model([cit.din - mit.din], lambda v: v[0] != 0)
                if e is False or env is not None:
                    r[1].append('measure consumes %r bytes but convert %r on the same input [%s]' % (mit.din, cit.din, units))
                else:
                    r[2].append('input advance %r vs %r not decided' % (mit.din, cit.din))
            if cit.dout is None:
                r[2].append('output advance not tracked')
                return
            want = mit.dlen.scale(eb_dst) if mit.dlen is not None else None
            if want is None:
                r[2].append('measure increment not tracked')
                return
            e = cst.is_eq0(cit.dout - want)
            if e is not True:
                env = cst.find_model([cit.dout - want], lambda v: v[0] != 0)
                if e is False or env is not None:
                    r[1].append('measure adds %r units but convert stores %r bytes (%d bytes per unit) [%s]%s' %
                                (mit.dlen, cit.dout, eb_dst, units, ('; witness ' + conv.fmt_env(env, eb_src)) if env else ''))
                else:
                    r[2].append('output advance %r vs measured %r not decided' % (cit.dout, want))
            base = Lin.atom('outpos').scale(eb_dst)
            for (_, inst, off, nb, _v) in cit.stores:
                rel = off - base
                ok = cst.is_ge0(rel) is True and cst.is_ge0(cit.dout - rel - nb) is True
                if not ok:
                    r[1].append('store of %d bytes at output offset %r outside the %r bytes this iteration accounts for at %s' %
                                (nb, rel, cit.dout, loc(m, inst)))
            # copies into OUT (substitute text) are region writes
            for e2 in cst.events:
                if e2[0] == 'copy' and isinstance(e2[2], PtrV) and e2[2].obj == 'OUT':
                    rel = e2[2].off - base
                    if not (cst.is_ge0(rel) is True and cst.is_ge0(cit.dout - rel - e2[4]) is True):
                        r[1].append('copy of %r bytes at output offset %r outside the %r bytes this iteration accounts for' % (e2[4], rel, cit.dout))
        elif kind == 'ret':
            label, mit, cit = a, b, it
            key = ('R03.2', subject, label)
            r = agg.setdefault(key, [0, [], []])
            r[0] += 1
            v = cit.ret
            if isinstance(v, IntV) and not v.lin.t and v.lin.c == 0:
                # the measure iteration this pass continues from had the cursor inside the input; a success return is a finding only
                # if the returning path is really consistent with that (loops that count the remaining units down instead of
                # comparing the cursor with the end reach their exit only at the end, which the path's facts then imply)
                cst = cit.st
                at_end = cst.is_ge0(Lin.atom('cur') - Lin.atom('n'))
                if at_end is True:
                    pass
                else:
                    env = cst.find_model([Lin.atom('n') - Lin.atom('cur')], lambda w: w[0] > 0)
                    if env is not None and not [k for k in env if not isinstance(k, str) or k not in ('cur', 'n', 'outpos')] or at_end is False:
                        r[1].append('convert returns success in the middle of the input (cursor < size) [%s]' % units)
                    else:
                        r[2].append('a success return of convert is not decided to happen only at the end of the input')
            elif not isinstance(v, IntV) and v is not None:
                r[2].append('return value of convert not tracked')
        elif kind == 'abort':
            where, mit, cit = a, b, it
            info = cit.info
            msg = info[1] if info and info[0] == 'assert' else str(info[0] if info else '?')
            key = ('R03.4', subject, msg)
            r = agg.setdefault(key, [0, [], []])
            r[0] += 1
            if msg not in CONTRACT_ASSERTS:
                inst = info[2] if info and len(info) > 2 else None
                r[1].append('assertion "%s" is reachable in %s at %s on input units [%s]' % (msg, where, loc(m, inst), units))
        elif kind == 'throw':
            key = ('R03.4', subject, 'throw')
            r = agg.setdefault(key, [0, [], []])
            r[0] += 1
            r[1].append('exception %s raised inside the conversion loop' % (it.ret,))

    for p in pairs:
        nm, npairs = lockstep(run, m, F, E, p, sink)
        tot_pairs += npairs
    nv = 0
    for name in F.lib:
        f = m.func(name)
        if f.dem.startswith('_ST_PRIVATE::validate_utf8(char const*, unsigned long)'):
            nv += 1
            h = conv.ConvHooks(1, 1)
            I = Interp(m, F, E, h)
            vp = conv.Pair('(validated)', 'utf8', f, f)
            for it in conv.run_iteration(I, f, conv.base_state(1), [PtrV('IN'), IntV(64, Lin.atom('n'), 'u')], 1, 1):
                if it.kind == 'backedge':
                    sink('bounds', vp, 'measure', None, it, conv.in_bounds_events(I, it), 1)
                    sink('progress', vp, 'measure', None, it, None, 1)
                elif it.kind == 'ret':
                    sink('bounds', vp, 'measure', None, it, conv.in_bounds_events(I, it), 1)
                elif it.kind == 'abort':
                    sink('abort', vp, 'validate', None, it, None, 1)
    run.floor('validate_utf8', nv, 1)
    for (rule, subject, disc), (n, viol, und) in sorted(agg.items()):
        if viol:
            run.ob(rule, subject, False, viol[0] + (' (+%d more)' % (len(set(viol)) - 1) if len(set(viol)) > 1 else ''), disc=disc)
        elif und:
            run.ob(rule, subject, None, und[0], disc=disc)
        else:
            run.ob(rule, subject, True, '%d path pairs / paths analysed' % n, disc=disc)
    run.counts['measure x convert path pairs'] = tot_pairs
    return pairs


def same_value(m, f, a, b, depth=0):
    """Two operands denote the same value: identical, or calls of the same const accessor on the same object."""
    if a == b:
        return True
    if depth > 3 or a[0] != 'v' or b[0] != 'v':
        return False
    ia, ib = f.inst(a[1]), f.inst(b[1])
    if ia is None or ib is None or ia.op != ib.op:
        return False
    if ia.op in ('call', 'invoke') and ia.callee and ia.callee == ib.callee and m.resolve(ia.callee).startswith('_ZNK'):
        return len(ia.a) == len(ib.a) and all(same_value(m, f, x, y, depth + 1) for x, y in zip(ia.a, ib.a))
    if ia.op in ('bitcast', 'getelementptr') and ia.op == ib.op:
        if ia.op == 'getelementptr':
            return ia.d['steps'] == ib.d['steps'] and same_value(m, f, ia.d['base'], ib.d['base'], depth + 1)
        return same_value(m, f, ia.a[0], ib.a[0], depth + 1)
    return False


# the most units of the target encoding that one unit of the source encoding can become (Unicode: a BMP UTF-16 unit is up to 3 UTF-8
# bytes, a scalar value up to 4 UTF-8 bytes or 2 UTF-16 units, a Latin-1 byte up to 2 UTF-8 bytes; everything else 1:1 or shrinking)
EXPANSION = {('utf8', 'utf16'): 3, ('utf8', 'utf32'): 4, ('utf8', 'latin_1'): 2, ('utf16', 'utf32'): 2}


def capacity(run, m, F, E, f, pairs_by_name, mnames, subject_disc):
    """A wrapper that does not size its result with the measure pass: interpret it with the converter call as an event and compare
    the room behind the destination pointer (when the destination is a buffer of a size that does not come from a measurement) with
    the most the converter can write for the size it is given.  Returns (problems, undecided)."""
    from ..state import State, Obj, MAXLEN

    class WH(Hooks):
        max_depth = 6
        unroll = 1
        widen_on_entry = False
        max_paths = 3000

        def call(self2, I, st, inst, name, args):
            if name is None:
                return None
            if name in pairs_by_name:
                st.ev('conv-call', inst, name, list(args))
                ty = getattr(inst, 'ty', 'void')
                return [(st, None if ty == 'void' else I.fresh_for_type(st, ty, 'ret'))]
            if name in mnames:
                st.ev('measure-call', inst, name)
                v = I.fresh_int(st, 64, 'measured', hi=4 * HUGE)
                return [(st, v)]
            return None
    I = Interp(m, F, E, WH())
    st = State()
    args = []
    sret = f.sret_index() if hasattr(f, 'sret_index') else None
    for k, p in enumerate(f.params):
        ty = p['ty']
        if k == sret:
            o = Obj('ext', None)
            o.lazy = True
            st.objs['RET'] = o
            args.append(PtrV('RET'))
        elif ty.endswith('*'):
            o = Obj('ext', None)
            o.lazy = True
            st.objs['ARG%d' % k] = o
            args.append(PtrV('ARG%d' % k))
        elif ty == 'i64':
            args.append(I.fresh_int(st, 64, 'size', hi=HUGE - 1))
        else:
            args.append(I.fresh_int(st, int(ty[1:]) if ty[1:].isdigit() else 32, 'mode', hi=2))
    problems, und = [], []
    try:
        outs = I.run(I.start(f, args, st))
    except Exception as e:
        return [], ['not interpreted: %s' % (str(e)[:80],)]
    seen = set()
    ncalls = 0
    for o in outs:
        s2 = o.st
        measured = set()
        for e in s2.events:
            if e[0] == 'measure-call':
                measured.add(e[2])
            if e[0] != 'conv-call':
                continue
            ncalls += 1
            p = pairs_by_name[e[2]]
            if p.M is not None and p.M.name in measured:
                continue                # this path ran the measure pass first: how its result sizes the destination is R03.2 / R03.3's subject
            a = e[3]
            dest = a[0]
            if p.C.params[0]['ty'].endswith('**') and isinstance(dest, PtrV):
                dest = I.load(s2, e[1], dest, 'i8*', 8)         # the cursor is handed over by reference
            if not isinstance(dest, PtrV) or dest.obj is None or not isinstance(a[2], IntV):
                und.append('destination or size of the %s call not tracked' % m.dem(e[2]).split('(')[0])
                continue
            ob = s2.objs.get(dest.obj)
            if ob is None or ob.size is None:
                und.append('room behind the destination of the %s call not known' % m.dem(e[2]).split('(')[0])
                continue
            eb = conv.elt_bytes(p.C.params[0]['ty']) or 1
            room = ob.size - dest.off
            if 'measured' in repr(room):
                continue                # sized by the measure pass: R03.2's subject
            need = I.as_u(s2, a[2]).scale(EXPANSION.get((p.tgt, p.src), 1) * eb)
            if s2.is_ge0(room - need) is True:
                continue
            env = s2.find_model([room - need], lambda v: v[0] < 0) if robust([room - need]) else None
            key = (e[1].id, repr(room))
            if env is not None:
                if key not in seen:
                    seen.add(key)
                    problems.append('%s is given a destination with room for %r byte(s) and %r source unit(s), each of which can become %d unit(s) '
                                    'of %d byte(s) (line %d); witness %s' % (m.dem(e[2]).split('(')[0], room, I.as_u(s2, a[2]),
                                                                              EXPANSION.get((p.tgt, p.src), 1), eb, e[1].line, own_fmt(env)))
            else:
                und.append('room %r for %r source unit(s) not decided' % (room, I.as_u(s2, a[2])))
    if not ncalls and not und:
        und.append('no path reaches the converter call')
    return problems, und


def own_fmt(env):
    from . import own
    return own.fmt_env(env)


def wrappers(run, m, F, E, pairs):
    """R03.3 wiring and R03.5 throw sets."""
    cnames = dict((p.C.name, p) for p in pairs)
    mnames = dict((p.M.name, p) for p in pairs if p.M is not None)
    odd = dict((p.C.name, p) for p in conv.ODD_PAIRS)
    allc = dict(cnames)
    allc.update(odd)
    allm = dict(mnames)
    allm.update(dict((p.M.name, p) for p in conv.ODD_PAIRS if p.M is not None))
    nw = 0
    for name in F.lib:
        f = m.func(name)
        calls = F.calls[name]
        cc = [(i, ts[0]) for (i, ts, k) in calls if ts and ts[0] in cnames]
        oc = [(i, ts[0]) for (i, ts, k) in calls if ts and ts[0] in odd]
        if (not cc and not oc) or name in allc:
            continue
        nw += 1
        if oc or any(cnames[cn].M is not None and not [1 for (i, ts, k) in calls if ts and ts[0] == cnames[cn].M.name] for (ci, cn) in cc):
            # some converter call here is not of the measure-allocate-convert form: the room behind its destination is checked instead
            probs, und = capacity(run, m, F, E, f, allc, allm, None)
            run.ob('R03.3', short(f.dem), False if probs else (None if und else True), probs[0] if probs else und[0] if und else
                   'every destination that is not sized by the measure pass has room for the largest possible output', loc=fn_loc(f), disc='capacity')
        for (ci, cn) in cc:
            p = cnames[cn]
            subject = short(f.dem)
            # source pointer/size operands of the convert call
            src, size = ci.a[1], ci.a[2]
            if p.M is not None:
                mc = [(i, ts[0]) for (i, ts, k) in calls if ts and ts[0] == p.M.name]
                if not mc:
                    # another way of sizing the result (an upper bound trimmed afterwards, ...) is not wrong by itself: not decided here
                    run.ob('R03.3', subject, None, 'calls %s without its measure pass %s: how the result is sized is not analysed' % (m.dem(cn)[:60], p.M.dem[:60]), loc=f.loc(ci), disc=p.tgt + '<-' + p.src)
                    continue
                mi = mc[0][0]
                if p.M.name == cn:
                    others = [x for x in mc if x[0].id != ci.id]
                    if not others:
                        continue            # the sizing call itself
                    mi = others[0][0]
                    if mi.id > ci.id:
                        continue
                    same = same_value(m, f, mi.a[1], src) and same_value(m, f, mi.a[2], size)
                else:
                    same = same_value(m, f, mi.a[0], src) and same_value(m, f, mi.a[1], size)
                if not same:
                    run.ob('R03.3', subject, None, 'measure and convert are not given syntactically the same (pointer,size) operands: not decided', loc=f.loc(ci), disc=p.tgt + '<-' + p.src)
                    continue
                # measured value must reach allocate()
                alloc = [i for (i, ts, k) in calls if ts and re.match(r'^ST::buffer<[^>]*>::allocate\(unsigned long\)$', m.dem(ts[0]))]
                ok = any(a.a[1] == ['v', mi.id] for a in alloc)
                run.ob('R03.3', subject, True if ok else None, 'measure result is the allocated size' if ok else 'allocate() is not given the measured value itself: not decided',
                       loc=f.loc(ci), disc=p.tgt + '<-' + p.src)
            else:
                alloc = [i for (i, ts, k) in calls if ts and re.match(r'^ST::buffer<[^>]*>::allocate\(unsigned long\)$', m.dem(ts[0]))]
                ok = any(a.a[1] == size for a in alloc)
                run.ob('R03.3', subject, True if ok else None, 'one output unit per input unit: allocate(size)' if ok else 'allocate() is not given the input size itself: not decided',
                       loc=f.loc(ci), disc=p.tgt + '<-' + p.src)
    # throw sets of all conversion entry points (functions of st_utf_conv.h)
    ne = 0
    for name in F.lib:
        f = m.func(name)
        if not f.file.endswith('st_utf_conv.h'):
            continue
        ne += 1
        extra = set(t for t in F.throws[name] if t not in ALLOWED_THROWS)
        run.ob('R03.5', short(f.dem), not extra, 'throws only unicode_error / bad_alloc' if not extra else 'may throw %s' % ', '.join(sorted(extra)),
               loc=fn_loc(f))
    return nw, ne


def error_codes(run, m, F, E):
    """R03.9: every enumerator of conversion_error_t has a handler in raise_conversion_error: success returns, every other code
    throws ST::unicode_error; no code reaches the 'Invalid conversion_error_t value' assertion."""
    en = m.enums.get('_ST_PRIVATE::conversion_error_t')
    run.need(en, 'enum conversion_error_t not in debug info')
    fs = [m.func(x) for x in F.lib if m.func(x).dem == '_ST_PRIVATE::raise_conversion_error(_ST_PRIVATE::conversion_error_t)']
    run.need(fs, 'raise_conversion_error not found')
    f = fs[0]
    n = 0
    for nm, val in sorted(en.items(), key=lambda x: x[1]):
        n += 1
        I = Interp(m, F, E, Hooks())
        st = State()
        outs = I.run(I.start(f, [IntV(32, Lin.const(val), 'u')], st))
        kinds = sorted(set(o.kind for o in outs))
        if nm == 'success':
            ok = kinds == ['ret']
            msg = 'returns' if ok else 'success ends in %s' % kinds
        else:
            thrown = set()
            for o in outs:
                if o.kind == 'throw':
                    t = o.val[0] if o.val else None
                    thrown |= set(t if isinstance(t, (tuple, list)) else [t])
            ok = kinds == ['throw'] and thrown == {'ST::unicode_error'}
            msg = 'throws ST::unicode_error' if ok else ('error code %s reaches %s: an input-dependent code without a handler aborts the process' % (nm, kinds)
                                                         if 'abort' in kinds else 'error code %s ends in %s %s' % (nm, kinds, sorted(thrown, key=str)))
        run.ob('R03.9', 'raise_conversion_error(%s)' % nm, ok, msg, loc=fn_loc(f), disc='code %d' % val)
    return n


def check(run):
    m = run.module()
    F = run.facts()
    E = run.effects()
    run.trust('clang 14 lowering (LLVM IR, -O0, mem2reg)', 'STIR interpreter (intervals, linear terms, exhaustive enumeration of bit masks on byte-sized ranges)')
    run.assume('inputs shorter than 256 Mi units (the library asserts it; makes the size accumulators overflow-free)',
               'a non-null pointer designates at least `size` readable units', '32-bit wchar_t (the 16-bit twins are not lowered on this platform)')
    pairs = check_pairs(run, m, F, E)
    nw, ne = wrappers(run, m, F, E, pairs)
    run.floor('wrappers calling a convert loop', nw, 12)
    run.floor('conversion entry points (st_utf_conv.h)', ne, 36)
    run.floor('conversion error codes', error_codes(run, m, F, E), 6)
    for o in run.obs[:4]:
        run.sample(dict(rule=o['rule'], pair=o['subject'], case=o['disc'], verdict=o['verdict'], detail=o['detail'][:200]))
