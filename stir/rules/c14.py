"""C14 - hex and base64 encodings are standard and decode back to the original bytes.

R14.1 tables: hex_chars = "0123456789abcdef", b64_chars = RFC 4648 section 4; the decode tables invert them (dec[enc[i]] == i),
      hex additionally accepts A-F, every other entry (incl. '=') is -1
R14.2 bit regrouping (bit provenance): encoders index their table with exactly the RFC bit groups (high nibble first; 6-bit groups
      MSB first, zero-padded tails, '=' count); decoders rebuild each byte from the table values in the same layout.  With R14.1
      decode(encode(x)) == x per group.
R14.3 sizes: 2 output units per byte; 4 per 3-byte group and 4 for a tail; allocation terms size*2 and ((size+2)/3)*4; both decoder
      forms share one core
"""
import re

from ..interp import Interp, Hooks, Budget
from ..state import State, Obj, IntV, PtrV, NULL, MAXLEN
from ..terms import Lin, ZERO
from .. import bits as B
from . import own
from .common import short, fn_loc

LEVEL = 'proof'
EXPLANATION = ('constant-table comparison with RFC 4648 and bit-provenance comparison of every table index / output byte computed by the '
               'encoders and decoders (per full group and per tail form) with the RFC bit layout; sizes from step summaries and call operands')

HEX = b'0123456789abcdef'
B64 = b'ABCDEFGHIJKLMNOPQRSTUVWXYZabcdefghijklmnopqrstuvwxyz0123456789+/'


def table(m, fn_prefix, suffix):
    for gname, g in m.globals.items():
        d = g.get('dem', '')
        if d.startswith(fn_prefix) and d.endswith('::' + suffix) and 'init' in g:
            return gname, g['init']
    return None, None


def signed32(v):
    return v - (1 << 32) if v >= (1 << 31) else v


def tables(run, m):
    n = 0
    gh, hex_chars = table(m, '_ST_PRIVATE::hex_encode(', 'hex_chars')
    gb, b64_chars = table(m, '_ST_PRIVATE::b64_encode(', 'b64_chars')
    gdh, hex_values = table(m, '_ST_PRIVATE::hex_decode(', 'hex_values')
    gdb, b64_values = table(m, '_ST_PRIVATE::b64_decode(', 'b64_values')
    run.need(any([hex_chars, b64_chars, hex_values, b64_values]), 'no codec table found (hex_chars, b64_chars, hex_values, b64_values)')
    for nm, got, want in (('hex_chars', hex_chars, HEX), ('b64_chars', b64_chars, B64)):
        n += 1
        if not got:
            run.ob('R14.1', nm, None, 'table not present (the codec does not use a lookup table): not analysed')
            continue
        ok = list(got[:len(want)]) == list(want)
        bad = [i for i in range(min(len(got), len(want))) if got[i] != want[i]]
        run.ob('R14.1', nm, ok, 'equals the RFC 4648 alphabet' if ok else 'entry %d is %r, RFC 4648 says %r' % (bad[0], chr(got[bad[0]]), chr(want[bad[0]])) if bad else 'wrong length')
    for nm, dec, enc, extra in (('hex_values', hex_values, HEX, dict((c, 10 + i) for i, c in enumerate(b'ABCDEF'))), ('b64_values', b64_values, B64, {})):
        n += 1
        if not dec:
            run.ob('R14.1', nm, None, 'table not present (the codec does not use a lookup table): not analysed')
            continue
        exp = [-1] * 256
        for i, c in enumerate(enc):
            exp[c] = i
        for c, v in extra.items():
            exp[c] = v
        got = [signed32(v) for v in dec]
        bad = [i for i in range(256) if i >= len(got) or got[i] != exp[i]]
        run.ob('R14.1', nm, not bad, 'inverse of the encode table, every other byte rejected' if not bad else
               'entry 0x%02X is %s, expected %d' % (bad[0], got[bad[0]] if bad[0] < len(got) else 'missing', exp[bad[0]]))
    return n, dict(hex_chars=gh, b64_chars=gb, hex_values=gdh, b64_values=gdb)


class EncHooks(Hooks):
    unroll = 0
    widen_on_entry = True
    max_depth = 4

    def widen_value(self, I, st, fn, header, name, current):
        if isinstance(current, PtrV):
            if current.obj == 'IN':
                return PtrV('IN', Lin.atom('cur'))
            if current.obj == 'OUT':
                return PtrV('OUT', Lin.atom('outpos'))
        return None

    def on_store(self, I, st, inst, p, v, nbytes):
        if p.obj == 'OUT':
            st.ev('out-store', inst, p.off, nbytes, v)


def X(sym, hi, lo):
    return [('x', sym, i) for i in range(lo, hi + 1)]


def cat(*fields):
    out = []
    for f in reversed(fields):
        out += f
    return out


def inb(k):
    return ('load', 'IN', Lin.atom('cur') + k, 0, 8)


def idx_bits(I, st, v, table_obj, names, w):
    """v must be a read of `table_obj` at a symbolic index: returns the bit vector of that index."""
    if not isinstance(v, IntV):
        return None
    sa = v.lin.single_atom()
    if sa is None or sa[1] != 1 or sa[2] != 0 or not isinstance(sa[0], tuple) or sa[0][0] != 'load' or sa[0][1] != 'G:' + table_obj:
        return None
    be = B.BitEval(st, names)
    return be.lin_bits(sa[0][2], w)


def encoders(run, m, F, E, g):
    n = 0
    names = dict((inb(k), 'b%d' % k) for k in range(3))
    # hex
    f = [m.func(x) for x in F.lib if m.func(x).dem == '_ST_PRIVATE::hex_encode(char*, void const*, unsigned long)']
    run.need(f, 'hex_encode core not found')
    f = f[0]
    I = Interp(m, F, E, EncHooks())
    st = base(False)
    outs = I.run(I.start(f, [PtrV('OUT'), PtrV('IN'), IntV(64, Lin.atom('n'), 'u')], st))
    its = [o for o in outs if o.kind == 'backedge']
    problems = []
    und = []
    if len(its) != 1:
        problems.append('%d iteration paths' % len(its))
    for o in its:
        stores = [e for e in o.st.events if e[0] == 'out-store']
        want = [pad(X('b0', 7, 4), 8), pad(X('b0', 3, 0), 8)]
        if len(stores) != 2:
            problems.append('%d units stored per byte, expected 2' % len(stores))
            continue
        for k, (e, w) in enumerate(zip(stores, want)):
            got = idx_bits(I, o.st, e[4], g['hex_chars'], names, 8)
            if o.st.is_eq0(e[2] - Lin.atom('outpos') - k) is not True:
                problems.append('digit %d stored at offset %r' % (k, e[2] - Lin.atom('outpos')))
            if got is None:
                und.append('digit %d is not a table read: not analysed' % k)
            elif got != w:
                problems.append('digit %d indexes the table with [%s], expected [%s]' % (k, B.fmt(got), B.fmt(w)))
        adv = deltas(o.st, f)
        if adv != {'IN': Lin.const(1), 'OUT': Lin.const(2)}:
            problems.append('iteration advances (input,output) by %s, expected (1,2)' % adv)
    n += 1
    run.ob('R14.2', 'hex_encode', False if problems else (None if und else True), problems[0] if problems else (und[0] if und else 'high nibble then low nibble index the digit table; 1 byte in, 2 digits out'), loc=fn_loc(f))
    # base64
    f = [m.func(x) for x in F.lib if m.func(x).dem == '_ST_PRIVATE::b64_encode(char*, void const*, unsigned long)']
    run.need(f, 'b64_encode core not found')
    f = f[0]
    GROUP = [pad(X('b0', 7, 2), 8), pad(cat(X('b0', 1, 0), X('b1', 7, 4)), 8), pad(cat(X('b1', 3, 0), X('b2', 7, 6)), 8), pad(X('b2', 5, 0), 8)]
    TAIL2 = [GROUP[0], GROUP[1], pad(cat(X('b1', 3, 0), [0, 0]), 8), '=']
    TAIL1 = [GROUP[0], pad(cat(X('b0', 1, 0), [0, 0, 0, 0]), 8), '=', '=']
    I = Interp(m, F, E, EncHooks())
    st = base(False)
    outs = I.run(I.start(f, [PtrV('OUT'), PtrV('IN'), IntV(64, Lin.atom('n'), 'u')], st))
    problems = []
    seen = {}
    for o in outs:
        s2 = o.st
        if o.kind == 'abort':
            # "Unexpected bytes left": reachable only if the loop guard were not size > 2
            problems.append('assertion reachable: %s' % (o.info[1] if o.info and len(o.info) > 1 else o.info,))
            continue
        stores = [e for e in s2.events if e[0] == 'out-store']
        if o.kind == 'backedge':
            kind, want = 'group', GROUP
            adv = deltas(s2, f)
            if adv.get('IN') != Lin.const(3) or adv.get('OUT') != Lin.const(4):
                problems.append('full group advances (input,output) by %s, expected (3,4)' % adv)
        elif o.kind == 'ret':
            if not stores:
                seen['empty'] = True
                continue
            eq = sum(1 for e in stores if isinstance(e[4], IntV) and not e[4].lin.t and e[4].lin.c == 0x3D)
            kind, want = ('tail1', TAIL1) if eq == 2 else ('tail2', TAIL2) if eq == 1 else ('?', None)
            if want is None:
                problems.append('tail stores %d units with %d \'=\'' % (len(stores), eq))
                continue
            # tail forms are entered with exactly 1 / 2 bytes left
            rem = Lin.atom('n') - Lin.atom('cur')
        else:
            continue
        seen[kind] = True
        if len(stores) != 4:
            problems.append('%s: %d units stored, expected 4' % (kind, len(stores)))
            continue
        for k, (e, w) in enumerate(zip(stores, want)):
            if w == '=':
                if not (isinstance(e[4], IntV) and not e[4].lin.t and e[4].lin.c == 0x3D):
                    problems.append("%s: unit %d is not '='" % (kind, k))
                continue
            got = idx_bits(I, s2, e[4], g['b64_chars'], names, 8)
            if got != w:
                problems.append('%s: unit %d indexes the alphabet with [%s], RFC 4648 says [%s]' % (kind, k, B.fmt(got) if got else 'not a table read', B.fmt(w)))
    for k in ('group', 'tail1', 'tail2'):
        if k not in seen:
            problems.append('no path for the %s form' % k)
    n += 1
    run.ob('R14.2', 'b64_encode', not problems, problems[0] if problems else 'full group and both tails regroup the input bits MSB-first into 6-bit indices; \'=\' padding as RFC 4648', loc=fn_loc(f))
    return n


def pad(v, w):
    return (v + [0] * w)[:w]


def base(decode):
    st = State()
    st.rng['n'] = (0, MAXLEN)
    st.rng['cur'] = (0, MAXLEN)
    st.rng['outpos'] = (0, MAXLEN)
    st.assume_ge0(Lin.atom('n') - Lin.atom('cur'))
    i = Obj('ext', Lin.atom('n'))
    i.lazy = True
    st.objs['IN'] = i
    o = Obj('ext', None)
    o.lazy = True
    st.objs['OUT'] = o
    return st


def deltas(st, f):
    b = st.flags.get('wbegin:' + f.name) or {}
    e = st.flags.get('wend:' + f.name) or {}
    out = {}
    for nm, bv in b.items():
        ev = e.get(nm)
        if isinstance(bv, PtrV) and isinstance(ev, PtrV) and bv.obj == ev.obj and bv.obj in ('IN', 'OUT'):
            out[bv.obj] = ev.off - bv.off
    return out


def tbl_bits(st, v, table_obj, names, w):
    """Bit vector of a decoder output byte whose operands are decode-table reads: table value of input unit k -> symbol vk."""
    be = TblEval(st, table_obj, names)
    if not isinstance(v, IntV):
        return None
    return be.lin_bits(v.lin, w)


class TblEval(B.BitEval):
    def __init__(self, st, table_obj, names):
        B.BitEval.__init__(self, st, names)
        self.tbl = 'G:' + table_obj

    def atom_bits(self, a, w):
        if isinstance(a, tuple) and a[0] in ('tbl', 'load') and a[1] == self.tbl:
            idx = a[2]
            sa = idx.single_atom()
            nm = None
            if sa is not None and isinstance(sa[0], tuple):
                nm = self.symnames.get(sa[0])
            if nm is None:
                return B.sym_bits('vother', w, w)
            lo, hi = self.st.arange(a)
            nb = max(hi, 0).bit_length() if lo >= 0 else w
            return B.sym_bits('v' + nm[1:], nb, w)
        if isinstance(a, tuple) and a[0] == 'smod':
            return self.lin_bits(a[1], w)
        if isinstance(a, tuple) and a[0] == 'mod':
            x = self.lin_bits(a[1], w)
            return [x[i] if i < a[2] else 0 for i in range(w)]
        return B.BitEval.atom_bits(self, a, w)


def decoders(run, m, F, E, g):
    """Output bytes of the decoders in terms of the table values v0.. of the input units (after the < 0 rejections)."""
    from .c08 import string_scene, SliceHooks
    L = own.buffer_layout(m, 'char')
    n = 0
    specs = [('_ST_PRIVATE::hex_decode(ST::string const&, void*, unsigned long)', 'hex_values', 2,
              [pad(cat(X('v0', 3, 0), X('v1', 3, 0)), 8)]),
             ('_ST_PRIVATE::b64_decode(ST::string const&, void*, unsigned long)', 'b64_values', 4,
              [pad(cat(X('v0', 5, 0), X('v1', 5, 4)), 8), pad(cat(X('v1', 3, 0), X('v2', 5, 2)), 8), pad(cat(X('v2', 1, 0), X('v3', 5, 0)), 8)])]
    for dem, tbl, nin, want in specs:
        f = [m.func(x) for x in F.lib if m.func(x).dem == dem]
        run.need(f, '%s not found' % dem)
        f = f[0]
        n += 1

        class DH(SliceHooks):
            unroll = 1
            widen_on_entry = False

            def on_store(self2, I, st, inst, p, v, nbytes):
                if p.obj == 'OUT':
                    st.ev('out-store', inst, p.off, nbytes, v)
        I = Interp(m, F, E, DH(m))
        st = State()
        this, ret, entry = string_scene(I, st, L, 'large', with_ret=False)
        st.rng['osize'] = (0, MAXLEN)
        out = Obj('ext', Lin.atom('osize'))
        out.lazy = True
        st.objs['OUT'] = out
        outs = I.run(I.start(f, [PtrV(this), PtrV('OUT'), IntV(64, Lin.atom('osize'), 'u')], st))
        problems = []
        und = []
        ngroups = 0
        for o in outs:
            s2 = o.st
            if o.kind != 'backedge':
                continue
            wi = max([k for k, e in enumerate(s2.events) if e[0] == 'widen' and e[1] == f.name] or [-1])
            if wi < 0:
                continue
            evs = s2.events[wi + 1:]
            stores = [e for e in evs if e[0] == 'out-store']
            tl = [e for e in evs if e[0] == 'table-load' and e[2] == 'G:' + g[tbl]]
            if not stores:
                continue
            if len(stores) % len(want) != 0 or len(tl) != (len(stores) // len(want)) * nin:
                und.append('an iteration makes %d stores from %d table reads: not of the group form' % (len(stores), len(tl)))
                continue
            for gi in range(len(stores) // len(want)):
                ngroups += 1
                grp = stores[gi * len(want):(gi + 1) * len(want)]
                names = {}
                for k, e in enumerate(tl[gi * nin:(gi + 1) * nin]):
                    sa = e[3].single_atom()
                    if sa is not None:
                        names[sa[0]] = 'u%d' % k
                for k, (e, w) in enumerate(zip(grp, want)):
                    got = tbl_bits(s2, e[4], g[tbl], names, 8)
                    if got is not None and any(isinstance(x, tuple) and x[1] == 'vother' for x in got):
                        problems.append('output byte %d of group %d depends on a table value read for another group' % (k, gi))
                    elif got is None or B.T in got or any(isinstance(x, tuple) and not str(x[1]).startswith('v') for x in got):
                        und.append('output byte %d of group %d not expressible as table-value bits' % (k, gi))
                    elif got != w:
                        problems.append('output byte %d of group %d is [%s], expected [%s]' % (k, gi, B.fmt(got), B.fmt(w)))
        if ngroups == 0 and not und:
            und.append('no full-group iteration explored')
        run.ob('R14.2', short(f.dem, 60), False if problems else (None if und else True),
               problems[0] if problems else (und[0] if und else 'each output byte rebuilt from the table values in the RFC layout (%d group paths)' % ngroups), loc=fn_loc(f))
    return n


def sizes(run, m, F):
    n = 0
    for dem, want in (('ST::hex_encode(void const*, unsigned long)', 'mul2'), ('ST::base64_encode(void const*, unsigned long)', 'b64size')):
        f = [m.func(x) for x in F.lib if m.func(x).dem == dem]
        run.need(f, '%s not found' % dem)
        f = f[0]
        n += 1
        al = [i for i in f.all_insts() if i.op in ('call', 'invoke') and i.callee and re.match(r'^ST::buffer<char>::allocate\(unsigned long\)$', m.dem(i.callee))]
        ok = False
        why = 'allocate() call not found'
        if len(al) == 1:
            a = al[0].a[1]
            d = f.inst(a[1]) if a[0] == 'v' else None
            if want == 'mul2':
                ok = d is not None and ((d.op == 'mul' and ['i', 2, 64] in d.a) or (d.op == 'shl' and d.a[1] == ['i', 1, 64])) and ['v', f.sret_index() is not None and 2 or 1] in d.a
                why = 'result is not sized size*2'
            else:
                ok = d is not None and d.op in ('call', 'invoke') and d.callee and m.dem(d.callee).startswith('_ST_PRIVATE::b64_encode_size(')
                why = 'result is not sized by b64_encode_size(size)'
        run.ob('R14.3', short(f.dem), ok, 'result sized as the encoding requires' if ok else why, loc=fn_loc(f))
    # b64_encode_size = ((size + 2) / 3) * 4
    f = [m.func(x) for x in F.lib if m.func(x).dem == '_ST_PRIVATE::b64_encode_size(unsigned long)']
    run.need(f, 'b64_encode_size not found')
    f = f[0]
    ops = [(i.op, [x for x in i.a if x[0] == 'i']) for i in f.all_insts() if i.op in ('add', 'udiv', 'mul', 'shl')]
    ok = ops == [('add', [['i', 2, 64]]), ('udiv', [['i', 3, 64]]), ('mul', [['i', 4, 64]])] or \
        ops == [('add', [['i', 2, 64]]), ('udiv', [['i', 3, 64]]), ('shl', [['i', 2, 64]])]
    n += 1
    run.ob('R14.3', 'b64_encode_size', ok, '((size + 2) / 3) * 4' if ok else 'computes %s' % ops, loc=fn_loc(f))
    # both decoder forms share one core
    for dem, core in (('ST::hex_decode(ST::string const&)', '_ST_PRIVATE::hex_decode('), ('ST::hex_decode(ST::string const&, void*, unsigned long)', '_ST_PRIVATE::hex_decode('),
                      ('ST::base64_decode(ST::string const&)', '_ST_PRIVATE::b64_decode('), ('ST::base64_decode(ST::string const&, void*, unsigned long)', '_ST_PRIVATE::b64_decode(')):
        f = [m.func(x) for x in F.lib if m.func(x).dem == dem]
        run.need(f, '%s not found' % dem)
        f = f[0]
        n += 1
        callees = [m.dem(t) for (i, ts, k) in F.calls[f.name] for t in ts]
        ok = sum(1 for c in callees if c.startswith(core)) == 1
        run.ob('R14.3', short(f.dem), ok, 'decodes through the shared core' if ok else 'does not call %s exactly once' % core, loc=fn_loc(f))
    return n


def check(run):
    m = run.module()
    F = run.facts()
    E = run.effects()
    run.trust('clang 14 lowering (LLVM IR, -O0, mem2reg)', 'STIR interpreter and bit-provenance evaluator', 'RFC 4648 alphabets as transcribed in stir/rules/c14.py')
    run.assume('the arithmetic identity 4*floor(n/3) + 4*[n mod 3 != 0] == 4*ceil(n/3) (size of loop output vs allocation) is stated, not analysed')
    nt, g = tables(run, m)
    g = dict((k, m.resolve(v) if v else '<absent>') for k, v in g.items())
    run.floor('tables', nt, 4)
    run.floor('encoders', encoders(run, m, F, E, g), 2)
    run.floor('decoders', decoders(run, m, F, E, g), 2)
    run.floor('size / sharing facts', sizes(run, m, F), 7)
    for o in run.obs[:6]:
        run.sample(dict(rule=o['rule'], subject=o['subject'], verdict=o['verdict'], detail=o['detail'][:160]))
