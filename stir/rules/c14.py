"""C14 - hex and base64 encodings are standard and decode back to the original bytes.

R14.1 tables: hex_chars = "0123456789abcdef", b64_chars = RFC 4648 section 4; the decode tables invert them (dec[enc[i]] == i),
      hex additionally accepts A-F, every other entry (incl. '=') is -1
R14.2 bit regrouping (bit provenance): encoders index their table with exactly the RFC bit groups (high nibble first; 6-bit groups
      MSB first, zero-padded tails, '=' count); decoders rebuild each byte from the table values in the same layout.  With R14.1
      decode(encode(x)) == x per group.
R14.3 sizes: 2 output units per byte; 4 per 3-byte group and 4 for a tail; allocation terms size*2 and ((size+2)/3)*4; both decoder
      forms share one core
"""
import re

from ..interp import Interp, Hooks, Budget
from ..state import State, Obj, IntV, PtrV, NULL, MAXLEN
from ..terms import Lin, ZERO
from .. import bits as B
from . import own
from .common import short, fn_loc, slot_subst, subst, robust

LEVEL = 'proof'
EXPLANATION = ('constant-table comparison with RFC 4648 and bit-provenance comparison of every table index / output byte computed by the '
               'encoders and decoders (per full group and per tail form) with the RFC bit layout; sizes from step summaries and call operands')

HEX = b'0123456789abcdef'
B64 = b'ABCDEFGHIJKLMNOPQRSTUVWXYZabcdefghijklmnopqrstuvwxyz0123456789+/'


def table(m, fn_prefix, suffix, all_matches=False):
    """A constant table (list of integers) that is a static local of the named function - of any instantiation of it, when the
    function is a template.  A table computed at run time has no initialiser to compare: not found."""
    base = fn_prefix.rstrip('(')
    pat = re.compile(r'(^|[\s:])' + re.escape(base.split('::')[-1]) + r'(<[^()]*>)?\(')
    found = []
    for gname, g in sorted(m.globals.items()):
        d = g.get('dem', '')
        init = g.get('init')
        if base.split('::')[0] in d and pat.search(d) and d.endswith('::' + suffix) and isinstance(init, list) and init and all(isinstance(x, int) for x in init):
            found.append((gname, init))
    if all_matches:
        return found
    return found[0] if found else (None, None)


def signed32(v):
    return v - (1 << 32) if v >= (1 << 31) else v


def tables(run, m):
    n = 0
    gh, hex_chars = table(m, '_ST_PRIVATE::hex_encode(', 'hex_chars')
    gb, b64_chars = table(m, '_ST_PRIVATE::b64_encode(', 'b64_chars')
    gdh, hex_values = table(m, '_ST_PRIVATE::hex_decode(', 'hex_values')
    gdb, b64_values = table(m, '_ST_PRIVATE::b64_decode(', 'b64_values')
    for nm, got, want in (('hex_chars', hex_chars, HEX), ('b64_chars', b64_chars, B64)):
        n += 1
        if not got:
            run.ob('R14.1', nm, None, 'table not present (the codec does not use a lookup table): not analysed')
            continue
        ok = list(got[:len(want)]) == list(want)
        bad = [i for i in range(min(len(got), len(want))) if got[i] != want[i]]
        run.ob('R14.1', nm, ok, 'equals the RFC 4648 alphabet' if ok else 'entry %d is %r, RFC 4648 says %r' % (bad[0], chr(got[bad[0]]), chr(want[bad[0]])) if bad else 'wrong length')
    for nm, dec, enc, extra in (('hex_values', hex_values, HEX, dict((c, 10 + i) for i, c in enumerate(b'ABCDEF'))), ('b64_values', b64_values, B64, {})):
        n += 1
        if not dec:
            run.ob('R14.1', nm, None, 'table not present (the codec does not use a lookup table): not analysed')
            continue
        exp = [-1] * 256
        for i, c in enumerate(enc):
            exp[c] = i
        for c, v in extra.items():
            exp[c] = v
        gname = gdh if nm == 'hex_values' else gdb
        mt_ = re.match(r'\[(\d+) x i(\d+)\]', m.globals.get(gname, {}).get('ty', ''))
        ebits = int(mt_.group(2)) if mt_ else 32
        if ebits == 32 and len(dec) == 256:
            got = [signed32(v) for v in dec]
            bad = [i for i in range(256) if got[i] != exp[i]]
            run.ob('R14.1', nm, not bad, 'inverse of the encode table, every other byte rejected' if not bad else
                   'entry 0x%02X is %s, expected %d' % (bad[0], got[bad[0]], exp[bad[0]]))
            continue
        # another form of the table (narrower elements, fewer entries behind a range guard): whether an element is read as a signed
        # or an unsigned value, and what answers for the units the table does not cover, is decided where the table is used (the
        # acceptance classes and lookup bounds of C15, the group values of R14.4) - here only an entry that is wrong under either
        # reading is a finding
        got_u = [v % (1 << ebits) for v in dec]
        got_s = [v - (1 << ebits) if v >= (1 << (ebits - 1)) else v for v in got_u]
        bad = [i for i in range(min(256, len(dec))) if got_u[i] != exp[i] and got_s[i] != exp[i]]
        run.ob('R14.1', nm, False if bad else None,
               ('entry 0x%02X is %d, expected %d' % (bad[0], got_s[bad[0]], exp[bad[0]])) if bad else
               'a table of %d entries of %d bits: every entry present is the inverse of the encode table under a signed or an unsigned reading; '
               'which reading applies and what covers the other units is decided where the table is used' % (len(dec), ebits))
    return n, dict(hex_chars=gh, b64_chars=gb, hex_values=gdh, b64_values=gdb)


class EncHooks(Hooks):
    unroll = 0
    widen_on_entry = True
    max_depth = 4

    def widen_value(self, I, st, fn, header, name, current):
        if isinstance(current, PtrV):
            if current.obj == 'IN':
                return PtrV('IN', Lin.atom('cur'))
            if current.obj == 'OUT':
                return PtrV('OUT', Lin.atom('outpos'))
        return None

    def on_store(self, I, st, inst, p, v, nbytes):
        if p.obj == 'OUT':
            st.ev('out-store', inst, p.off, nbytes, v)

    def on_access(self, I, st, inst, kind, p, nbytes):
        if kind == 'load' and p.obj == 'IN' and nbytes == 1:
            st.ev('in-load', inst, p.off, st.objs['IN'].version)


def group_view(s2, f):
    """The input units read and the output units stored since the last loop head on this path, by position: names of the input-unit
    atoms (b0, b1, ... by distance from the lowest offset read), that lowest offset, the stores, and how far the next iteration's
    group lies from this one (input, output) - whatever variables the loop uses to get there."""
    wi = max([k for k, e in enumerate(s2.events) if e[0] == 'widen' and e[1] == f.name] or [-1])
    evs = s2.events[wi + 1:]
    loads = []
    for e in evs:
        if e[0] == 'in-load' and (e[2], e[3]) not in loads:
            loads.append((e[2], e[3]))
    names, pbase = {}, None
    if loads:
        ds = [(off - loads[0][0]) for off, ver in loads]
        if any(d.t for d in ds):
            return None
        lo = min(d.c for d in ds)
        pbase = loads[0][0] + lo
        for (off, ver), d in zip(loads, ds):
            names[('load', 'IN', off, ver, 8)] = 'b%d' % (d.c - lo)
    stores = [e for e in evs if e[0] == 'out-store']
    hdrs = [k for k in s2.flags if isinstance(k, str) and k.startswith('hbegin:' + f.name + ':')]
    adv = None
    if len(hdrs) == 1 and pbase is not None and stores:
        b = s2.flags.get(hdrs[0]) or {}
        e2 = s2.flags.get('hend:' + hdrs[0][7:]) or {}
        nx = slot_subst(b, e2)
        pn, qn = subst(pbase, nx), subst(stores[0][2], nx)
        adv = (None if pn is None else pn - pbase, None if qn is None else qn - stores[0][2])
    return dict(names=names, pbase=pbase, stores=stores, adv=adv)


def check_advance(s2, view, want_in, want_out, what, problems, und):
    adv = view['adv']
    if adv is None or adv[0] is None or adv[1] is None:
        und.append('%s: where the next iteration reads / writes is not expressible over the loop-carried values' % what)
        return
    for d, w, nm in ((adv[0], want_in, 'input'), (adv[1], want_out, 'output')):
        if s2.is_eq0(d - w) is True:
            continue
        env = s2.find_model([d - w], lambda v: v[0] != 0) if robust([d]) else None
        if env is not None or not d.t:
            problems.append('%s: the next iteration continues %r %s unit(s) further, expected %d' % (what, d, nm, w))
        else:
            und.append('%s: %s advance %r not decided' % (what, nm, d))


def X(sym, hi, lo):
    return [('x', sym, i) for i in range(lo, hi + 1)]


def cat(*fields):
    out = []
    for f in reversed(fields):
        out += f
    return out


def inb(k):
    return ('load', 'IN', Lin.atom('cur') + k, 0, 8)


def idx_bits(I, st, v, table_obj, names, w):
    """v must be a read of `table_obj` at a symbolic index: returns the bit vector of that index."""
    if not isinstance(v, IntV):
        return None
    sa = v.lin.single_atom()
    if sa is None or sa[1] != 1 or sa[2] != 0 or not isinstance(sa[0], tuple) or sa[0][0] != 'load' or sa[0][1] != 'G:' + table_obj:
        return None
    be = B.BitEval(st, names)
    return be.lin_bits(sa[0][2], w)


def case_split(st, lin, inputs, expect, mask=0xFF, limit=1 << 17):
    """Finite case analysis of a term that depends only on input units: every assignment of the (8-bit) units is substituted and the term
    folded to a constant, which is compared with expect(env).  This is an exhaustive split over the unit values (256 per unit), not a run of
    the library.  Returns (True, None), (False, witness-env) or (None, reason)."""
    from ..terms import base_atoms, eval_lin
    try:
        deps = sorted(base_atoms(lin), key=repr)
    except Exception as e:
        return None, 'term not analysable (%s)' % e
    for a in deps:
        if a not in inputs:
            return None, 'depends on %s, which is not an input unit of this group' % (a if isinstance(a, str) else a[0],)
    # only the unit values this path admits (a path may have split on the sign or range of a unit)
    from .common import unit_models
    envs, mixed = unit_models(st, deps, limit=limit)
    if envs is None:
        return None, 'depends on %d input units: %s' % (len(deps), mixed)
    for env in envs:
        try:
            v = eval_lin(lin, env)
        except KeyError as e:
            return None, 'operator not evaluable: %s' % (e,)
        named = dict((inputs[a], env[a]) for a in deps)
        if (v & mask) != (expect(named) & mask):
            if mixed:
                return None, 'differs for input units %s, which the facts of the path may exclude' % fmt_units(named)
            return False, named
    return True, None


def enc_unit(I, st, v, table_obj, alphabet, names, want_bits, want_fn):
    """Is the stored unit v == alphabet[group]?  Bit provenance of the table index first; otherwise a finite case split over the input units.
    Returns (verdict, detail)."""
    if not isinstance(v, IntV):
        return None, 'stored value not tracked'
    inputs = dict((a, nm) for a, nm in names.items())
    sa = v.lin.single_atom()
    def is_alphabet(obj):
        if not (isinstance(obj, str) and obj.startswith('G:')):
            return False
        if table_obj and obj == 'G:' + table_obj:
            return True
        g_ = I.m.globals.get(obj[2:]) or {}
        init = g_.get('init')
        return bool(g_.get('const')) and isinstance(init, list) and list(init[:len(alphabet)]) == list(alphabet)
    if sa is not None and sa[1] == 1 and sa[2] == 0 and isinstance(sa[0], tuple) and sa[0][0] == 'load' and is_alphabet(sa[0][1]):
        idx = sa[0][2]
        got = B.BitEval(st, names).lin_bits(idx, 8)
        if got == want_bits:
            return True, ''
        ok, w = case_split(st, idx, inputs, want_fn, mask=(1 << 64) - 1)
        if ok is True:
            return True, ''
        if ok is False:
            return False, 'indexes the table with [%s], expected [%s]; e.g. input units %s' % (B.fmt(got), B.fmt(want_bits), fmt_units(w))
        return None, 'table index [%s] not comparable with [%s]: %s' % (B.fmt(got), B.fmt(want_bits), w)
    ok, w = case_split(st, v.lin, inputs, lambda e: alphabet[want_fn(e)])
    if ok is True:
        return True, ''
    if ok is False:
        return False, 'is not the alphabet character of its bit group for input units %s' % fmt_units(w)
    return None, 'not a table read and %s' % w


def fmt_units(w):
    return ', '.join('%s=0x%02X' % (k, v) for k, v in sorted(w.items()))


def encoder_variants(m, F, stem):
    """The functions that hold the encoding loop: _ST_PRIVATE::<stem>(char*, <units> const*, size_t), plain or any instantiation of a
    template of that name; variants without a loop of their own (forwarders to another variant) are left to the variant they call."""
    from ..interp import loop_info
    pat = re.compile(r'^(?:[\w:<>,\* ]+\s)?_ST_PRIVATE::%s(?:<[^()]*>)?\(char\*, [\w ]+ const\*, unsigned long\)$' % stem)
    out = []
    for x in F.lib:
        f = m.func(x)
        if pat.match(f.dem):
            loops, _b = loop_info(f)
            if loops:
                out.append(f)
    return sorted(out, key=lambda f: f.dem)


def encoders(run, m, F, E, g):
    n = 0
    hv = encoder_variants(m, F, 'hex_encode')
    run.need(hv, 'hex_encode core not found')
    for f in hv:
        n += hex_encoder(run, m, F, E, g, f, 'hex_encode' if len(hv) == 1 else short(f.dem, 80))
    bv = encoder_variants(m, F, 'b64_encode')
    run.need(bv, 'b64_encode core not found')
    for f in bv:
        n += b64_encoder(run, m, F, E, g, f, 'b64_encode' if len(bv) == 1 else short(f.dem, 80))
    return n


def hex_encoder(run, m, F, E, g, f, label):
    n = 0
    I = Interp(m, F, E, EncHooks())
    st = base(False)
    outs = I.run(I.start(f, [PtrV('OUT'), PtrV('IN'), IntV(64, Lin.atom('n'), 'u')], st))
    its = [o for o in outs if o.kind == 'backedge']
    problems = []
    und = []
    if not its:
        und.append('no iteration path explored')
    for o in its:
        view = group_view(o.st, f)
        if view is None or view['pbase'] is None:
            und.append('the input units read in an iteration are not at fixed distances')
            continue
        stores, names = view['stores'], view['names']
        want = [pad(X('b0', 7, 4), 8), pad(X('b0', 3, 0), 8)]
        if len(stores) != 2 or len(names) != 1:
            (problems if len(names) == 1 else und).append('%d units stored for %d unit(s) read per iteration, expected 2 for 1' % (len(stores), len(names)))
            continue
        fns = [lambda e: e.get('b0', 0) >> 4, lambda e: e.get('b0', 0) & 15]
        for k, (e, w) in enumerate(zip(stores, want)):
            if o.st.is_eq0(e[2] - stores[0][2] - k) is not True:
                problems.append('digit %d stored at offset %r, digit 0 at %r' % (k, e[2], stores[0][2]))
            ok, why = enc_unit(I, o.st, e[4], g['hex_chars'], HEX, names, w, fns[k])
            if ok is False:
                problems.append('digit %d %s' % (k, why))
            elif ok is None:
                und.append('digit %d: %s' % (k, why))
        check_advance(o.st, view, 1, 2, 'hex_encode', problems, und)
    n += 1
    run.ob('R14.2', label, False if problems else (None if und else True), problems[0] if problems else (und[0] if und else 'high nibble then low nibble index the digit table; 1 byte in, 2 digits out'), loc=fn_loc(f))
    return n


def b64_encoder(run, m, F, E, g, f, label):
    n = 0
    GROUP = [pad(X('b0', 7, 2), 8), pad(cat(X('b0', 1, 0), X('b1', 7, 4)), 8), pad(cat(X('b1', 3, 0), X('b2', 7, 6)), 8), pad(X('b2', 5, 0), 8)]
    TAIL2 = [GROUP[0], GROUP[1], pad(cat(X('b1', 3, 0), [0, 0]), 8), '=']
    TAIL1 = [GROUP[0], pad(cat(X('b0', 1, 0), [0, 0, 0, 0]), 8), '=', '=']
    GROUP_FN = [lambda e: e.get('b0', 0) >> 2, lambda e: ((e.get('b0', 0) & 3) << 4) | (e.get('b1', 0) >> 4),
                lambda e: ((e.get('b1', 0) & 15) << 2) | (e.get('b2', 0) >> 6), lambda e: e.get('b2', 0) & 63]
    und = []
    I = Interp(m, F, E, EncHooks())
    st = base(False)
    outs = I.run(I.start(f, [PtrV('OUT'), PtrV('IN'), IntV(64, Lin.atom('n'), 'u')], st))
    problems = []
    seen = {}
    for o in outs:
        s2 = o.st
        if o.kind == 'abort':
            # "Unexpected bytes left": reachable only if the loop guard were not size > 2
            problems.append('assertion reachable: %s' % (o.info[1] if o.info and len(o.info) > 1 else o.info,))
            continue
        view = group_view(s2, f)
        if view is None:
            und.append('the input units read on a path are not at fixed distances')
            continue
        stores, names = view['stores'], view['names']
        if o.kind == 'backedge':
            kind, want = 'group', GROUP
            check_advance(s2, view, 3, 4, 'full group', problems, und)
        elif o.kind == 'ret':
            if not stores:
                seen['empty'] = True
                continue
            eq = sum(1 for e in stores if isinstance(e[4], IntV) and not e[4].lin.t and e[4].lin.c == 0x3D)
            kind, want = ('tail1', TAIL1) if eq == 2 else ('tail2', TAIL2) if eq == 1 else ('?', None)
            if want is None:
                problems.append('tail stores %d units with %d \'=\'' % (len(stores), eq))
                continue
        else:
            continue
        seen[kind] = True
        if len(stores) != 4:
            problems.append('%s: %d units stored, expected 4' % (kind, len(stores)))
            continue
        for k, (e, w) in enumerate(zip(stores, want)):
            if w == '=':
                if not (isinstance(e[4], IntV) and not e[4].lin.t and e[4].lin.c == 0x3D):
                    problems.append("%s: unit %d is not '='" % (kind, k))
                continue
            fn = GROUP_FN[k]
            if kind == 'tail2' and k == 2:
                fn = lambda e: (e.get('b1', 0) & 15) << 2
            if kind == 'tail1' and k == 1:
                fn = lambda e: (e.get('b0', 0) & 3) << 4
            ok, why = enc_unit(I, s2, e[4], g['b64_chars'], B64, names, w, fn)
            if ok is False:
                problems.append('%s: unit %d %s (RFC 4648 group [%s])' % (kind, k, why, B.fmt(w)))
            elif ok is None:
                und.append('%s: unit %d: %s' % (kind, k, why))
    for k in ('group', 'tail1', 'tail2'):
        if k not in seen:
            problems.append('no path for the %s form' % k)
    n += 1
    run.ob('R14.2', label, False if problems else (None if und else True), problems[0] if problems else und[0] if und else 'full group and both tails regroup the input bits MSB-first into 6-bit indices; \'=\' padding as RFC 4648', loc=fn_loc(f))
    return n


def pad(v, w):
    return (v + [0] * w)[:w]


def base(decode):
    st = State()
    st.rng['n'] = (0, MAXLEN)
    st.rng['cur'] = (0, MAXLEN)
    st.rng['outpos'] = (0, MAXLEN)
    st.assume_ge0(Lin.atom('n') - Lin.atom('cur'))
    i = Obj('ext', Lin.atom('n'))
    i.lazy = True
    st.objs['IN'] = i
    o = Obj('ext', None)
    o.lazy = True
    st.objs['OUT'] = o
    return st


def deltas(st, f):
    b = st.flags.get('wbegin:' + f.name) or {}
    e = st.flags.get('wend:' + f.name) or {}
    out = {}
    for nm, bv in b.items():
        ev = e.get(nm)
        if isinstance(bv, PtrV) and isinstance(ev, PtrV) and bv.obj == ev.obj and bv.obj in ('IN', 'OUT'):
            out[bv.obj] = ev.off - bv.off
    return out


def tbl_bits(st, v, table_obj, names, w):
    """Bit vector of a decoder output byte whose operands are decode-table reads: table value of input unit k -> symbol vk."""
    be = TblEval(st, table_obj, names)
    if not isinstance(v, IntV):
        return None
    return be.lin_bits(v.lin, w)


class TblEval(B.BitEval):
    def __init__(self, st, table_obj, names):
        B.BitEval.__init__(self, st, names)
        self.tbl = 'G:' + table_obj

    def atom_bits(self, a, w):
        if isinstance(a, tuple) and a[0] in ('tbl', 'load') and a[1] == self.tbl:
            idx = a[2]
            sa = idx.single_atom()
            nm = None
            if sa is not None and isinstance(sa[0], tuple):
                nm = self.symnames.get(sa[0])
            if nm is None:
                return B.sym_bits('vother', w, w)
            lo, hi = self.st.arange(a)
            nb = max(hi, 0).bit_length() if lo >= 0 else w
            return B.sym_bits('v' + nm[1:], nb, w)
        if isinstance(a, tuple) and a[0] == 'smod':
            return self.lin_bits(a[1], w)
        if isinstance(a, tuple) and a[0] == 'mod':
            x = self.lin_bits(a[1], w)
            return [x[i] if i < a[2] else 0 for i in range(w)]
        return B.BitEval.atom_bits(self, a, w)


def decoders(run, m, F, E, g):
    """Output bytes of the decoders in terms of the table values v0.. of the input units (after the < 0 rejections)."""
    from .c08 import string_scene, SliceHooks
    L = own.buffer_layout(m, 'char')
    n = 0
    specs = [('_ST_PRIVATE::hex_decode(ST::string const&, void*, unsigned long)', 'hex_values', 2,
              [pad(cat(X('v0', 3, 0), X('v1', 3, 0)), 8)]),
             ('_ST_PRIVATE::b64_decode(ST::string const&, void*, unsigned long)', 'b64_values', 4,
              [pad(cat(X('v0', 5, 0), X('v1', 5, 4)), 8), pad(cat(X('v1', 3, 0), X('v2', 5, 2)), 8), pad(cat(X('v2', 1, 0), X('v3', 5, 0)), 8)])]
    for dem, tbl, nin, want in specs:
        f = [m.func(x) for x in F.lib if m.func(x).dem == dem]
        run.need(f, '%s not found' % dem)
        f = f[0]
        n += 1

        class DH(SliceHooks):
            unroll = 1
            widen_on_entry = False

            def on_store(self2, I, st, inst, p, v, nbytes):
                if p.obj == 'OUT':
                    st.ev('out-store', inst, p.off, nbytes, v)
        I = Interp(m, F, E, DH(m))
        st = State()
        this, ret, entry = string_scene(I, st, L, 'large', with_ret=False)
        st.rng['osize'] = (0, MAXLEN)
        out = Obj('ext', Lin.atom('osize'))
        out.lazy = True
        st.objs['OUT'] = out
        outs = I.run(I.start(f, [PtrV(this), PtrV('OUT'), IntV(64, Lin.atom('osize'), 'u')], st))
        problems = []
        und = []
        ngroups = 0
        for o in outs:
            s2 = o.st
            if o.kind != 'backedge':
                continue
            wi = max([k for k, e in enumerate(s2.events) if e[0] == 'widen' and e[1] == f.name] or [-1])
            if wi < 0:
                continue
            evs = s2.events[wi + 1:]
            # pace: the loop that just completed an iteration moves on nin input units for every len(want) output units
            # (by position, whatever cursors or indices the loop keeps; nested block loops are judged at every level)
            hdr = o.info[1] if o.info and o.info[0] == f.name else None
            hb = s2.flags.get('hbegin:%s:%s' % (f.name, hdr))
            he = s2.flags.get('hend:%s:%s' % (f.name, hdr))
            wh = max([k for k, e in enumerate(s2.events) if e[0] == 'widen' and e[1] == f.name and e[2] == hdr] or [-1])
            st_h = [e for e in s2.events[wh + 1:] if e[0] == 'out-store']
            tl_h = [e for e in s2.events[wh + 1:] if e[0] == 'table-load' and e[2] == 'G:' + g[tbl]]
            if hb and he and st_h and tl_h:
                from ..terms import base_atoms
                ua = [a for a in base_atoms(tl_h[0][3]) if isinstance(a, tuple) and a[0] == 'load']
                nx = slot_subst(hb, he)
                pin = ua[0][2] if len(ua) == 1 else None
                pn = subst(pin, nx) if pin is not None else None
                qn = subst(st_h[0][2], nx)
                if pn is None or qn is None:
                    und.append('pace of the loop at block %s not expressible over its carried values' % hdr)
                else:
                    d = (pn - pin).scale(len(want)) - (qn - st_h[0][2]).scale(nin)
                    if s2.is_eq0(d) is not True:
                        env = s2.find_model([d], lambda v: v[0] != 0) if robust([d]) else None
                        if not d.t or env is not None:
                            problems.append('one iteration of the loop at line %d moves on %r input unit(s) and %r output byte(s): expected %d input units per %d output byte(s)' % (
                                next((i.line for i in f.blocks[hdr].insts if i.line), f.line) if hdr is not None else f.line, pn - pin, qn - st_h[0][2], nin, len(want)))
                        else:
                            und.append('pace of the loop at block %s (%r in, %r out) not decided' % (hdr, pn - pin, qn - st_h[0][2]))
            stores = [e for e in evs if e[0] == 'out-store']
            tl = [e for e in evs if e[0] == 'table-load' and e[2] == 'G:' + g[tbl]]
            if not stores:
                continue
            if len(stores) % len(want) != 0 or len(tl) != (len(stores) // len(want)) * nin:
                und.append('an iteration makes %d stores from %d table reads: not of the group form' % (len(stores), len(tl)))
                continue
            for gi in range(len(stores) // len(want)):
                ngroups += 1
                grp = stores[gi * len(want):(gi + 1) * len(want)]
                names = {}
                for k, e in enumerate(tl[gi * nin:(gi + 1) * nin]):
                    sa = e[3].single_atom()
                    if sa is not None:
                        names[sa[0]] = 'u%d' % k
                for k, (e, w) in enumerate(zip(grp, want)):
                    got = tbl_bits(s2, e[4], g[tbl], names, 8)
                    if got is not None and any(isinstance(x, tuple) and x[1] == 'vother' for x in got):
                        problems.append('output byte %d of group %d depends on a table value read for another group' % (k, gi))
                    elif got is None or B.T in got or any(isinstance(x, tuple) and not str(x[1]).startswith('v') for x in got):
                        und.append('output byte %d of group %d not expressible as table-value bits' % (k, gi))
                    elif got != w:
                        problems.append('output byte %d of group %d is [%s], expected [%s]' % (k, gi, B.fmt(got), B.fmt(w)))
        if ngroups == 0 and not und:
            und.append('no full-group iteration explored')
        run.ob('R14.2', short(f.dem, 60), False if problems else (None if und else True),
               problems[0] if problems else (und[0] if und else 'each output byte rebuilt from the table values in the RFC layout (%d group paths)' % ngroups), loc=fn_loc(f))
    return n


def sizes(run, m, F, E):
    """R14.3: the allocating encoders size their result as the encoding requires - decided on the term handed to allocate() with the
    input size symbolic (not on how the arithmetic is spelled); both decoder forms reach one shared core."""
    n = 0
    N = Lin.atom('n')
    oracle = {'ST::hex_encode(void const*, unsigned long)': ('2 * size', N.scale(2)),
              'ST::base64_encode(void const*, unsigned long)': ('4 * ((size + 2) / 3)', Lin.atom(('udiv', N + 2, Lin.const(3), 64)).scale(4))}

    class SH(Hooks):
        max_depth = 6

        def call(self2, I, st, inst, name, args):
            if name is None:
                return None
            d = m.dem(name)
            if re.match(r'^ST::buffer<char>::allocate\(unsigned long\)$', d):
                st.ev('alloc', inst, I.as_u(st, args[1]) if isinstance(args[1], IntV) else None)
                return [(st, None)]
            if d.startswith('_ST_PRIVATE::hex_encode(') or d.startswith('_ST_PRIVATE::b64_encode('):
                st.ev('core', inst, list(args))
                return [(st, None)]
            return None
    for dem, (text, want) in oracle.items():
        f = [m.func(x) for x in F.lib if m.func(x).dem == dem]
        run.need(f, '%s not found' % dem)
        f = f[0]
        n += 1
        I = Interp(m, F, E, SH())
        st = State()
        st.rng['n'] = (0, MAXLEN)
        i = Obj('ext', N)
        i.lazy = True
        st.objs['IN'] = i
        L = own.buffer_layout(m, 'char')
        ret = own.make_buffer(I, st, L, 'ret', 'undef')
        args = [PtrV(ret), PtrV('IN'), IntV(64, N, 'u')] if f.sret_index() is not None else [PtrV('IN'), IntV(64, N, 'u')]
        problems, und = [], []
        try:
            outs = I.run(I.start(f, args, st))
        except Exception as e:          # unmodelled construct on the way: not decided, never a finding
            outs = []
            und.append('not interpreted: %s' % (str(e)[:80],))
        nret = 0
        for o in outs:
            if o.kind != 'ret':
                continue
            nret += 1
            s2 = o.st
            al = [e for e in s2.events if e[0] == 'alloc']
            if not al and s2.is_eq0(N) is True:
                continue                # empty input: the empty string, nothing to size
            if len(al) != 1 or al[0][2] is None:
                und.append('%d allocate() calls on a returning path' % len(al))
                continue
            d = al[0][2] - want
            if s2.is_eq0(d) is True:
                continue
            env = s2.find_model([d], lambda v: v[0] != 0) if robust([d]) else None
            if env is not None:
                problems.append('the result is sized %r, the encoding needs %s; e.g. %s' % (al[0][2], text, own.fmt_env(env)))
            else:
                und.append('result size %r not comparable with %s' % (al[0][2], text))
        if nret == 0 and not und:
            und.append('no returning path explored')
        run.ob('R14.3', short(f.dem), False if problems else (None if und else True), problems[0] if problems else (und[0] if und else 'result sized %s' % text), loc=fn_loc(f))
    # both decoder forms reach one shared core (call graph, any depth)
    for dem, core in (('ST::hex_decode(ST::string const&)', '_ST_PRIVATE::hex_decode('), ('ST::hex_decode(ST::string const&, void*, unsigned long)', '_ST_PRIVATE::hex_decode('),
                      ('ST::base64_decode(ST::string const&)', '_ST_PRIVATE::b64_decode('), ('ST::base64_decode(ST::string const&, void*, unsigned long)', '_ST_PRIVATE::b64_decode(')):
        f = [m.func(x) for x in F.lib if m.func(x).dem == dem]
        run.need(f, '%s not found' % dem)
        f = f[0]
        n += 1
        reach = F.reachable_from([f.name])
        ok = any(m.dem(x).startswith(core) for x in reach if x in F.lib)
        run.ob('R14.3', short(f.dem), True if ok else None, 'decodes through the shared core' if ok else 'does not reach %s: a separate decoder, not analysed here' % core, loc=fn_loc(f))
    return n


def check(run):
    m = run.module()
    F = run.facts()
    E = run.effects()
    run.trust('clang 14 lowering (LLVM IR, -O0, mem2reg)', 'STIR interpreter and bit-provenance evaluator', 'RFC 4648 alphabets as transcribed in stir/rules/c14.py')
    run.assume('the arithmetic identity 4*floor(n/3) + 4*[n mod 3 != 0] == 4*ceil(n/3) (size of loop output vs allocation) is stated, not analysed')
    nt, g = tables(run, m)
    g = dict((k, m.resolve(v) if v else '<absent>') for k, v in g.items())
    run.floor('tables', nt, 4)
    run.floor('encoders', encoders(run, m, F, E, g), 2)
    run.floor('decoders', decoders(run, m, F, E, g), 2)
    run.floor('size / sharing facts', sizes(run, m, F, E), 6)
    for o in run.obs[:6]:
        run.sample(dict(rule=o['rule'], subject=o['subject'], verdict=o['verdict'], detail=o['detail'][:160]))
