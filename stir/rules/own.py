"""Ownership analysis of the two storage-owner classes (ST::buffer<T>, ST::string_stream) with STIR.

Every owner method is interpreted from every entry scenario allowed by the class invariant
(size class of each owner object involved, aliasing of this/other).  At every exit (normal return,
unwinding) the class invariant is re-checked for every live owner object, heap blocks are accounted
for, and method-specific value clauses are compared with the entry state.  By induction over
operations the invariant then holds after any finite history.
"""
import re

from ..interp import Interp, Hooks, Budget, Unmodelled
from ..state import State, Obj, IntV, PtrV, TopV, NULL, MAXLEN
from ..terms import Lin, ZERO
from ..effects import func_roles
from .common import short, fn_loc, class_of, is_ctor, is_dtor

BAD_EVENTS = ('oob', 'double-free', 'free-nonheap', 'use-after-free', 'null-deref', 'free-interior', 'uninit-read')


class Layout(object):
    pass


def buffer_layout(m, elt):
    """Field layout of ST::buffer<elt> read from the IR struct type of its this-parameter."""
    mang = {'char': 'c', 'wchar_t': 'w', 'char16_t': 'Ds', 'char32_t': 'Di'}[elt]
    name = '_ZN2ST6bufferI%sE5clearEv' % mang
    if not m.has(name):
        return None
    f = m.func(name)
    ty = f.params[0]['ty']
    mt = re.match(r'%"?([^"*]+)"?\*', ty)
    sn = mt.group(1)
    st = m.structs.get(sn)
    if st is None or st.get('opaque'):
        return None
    fl = st['fields']
    L = Layout()
    L.cls = 'ST::buffer<%s>' % elt
    L.struct = sn
    L.size = st['size']
    L.elt = elt
    if len(fl) != 3 or not fl[0][0].endswith('*') or fl[1][0] != 'i64':
        return None
    ma = re.match(r'\[(\d+) x i(\d+)\]', fl[2][0])
    if not ma:
        return None
    L.chars_off, L.size_off, L.data_off = fl[0][1], fl[1][1], fl[2][1]
    L.n_local = int(ma.group(1))
    L.eb = int(ma.group(2)) // 8
    L.kind = 'buffer'
    L.nfields = len(fl)
    return L


def stream_layout(m):
    name = '_ZN2ST13string_stream8truncateEm'
    if not m.has(name):
        return None
    f = m.func(name)
    mt = re.match(r'%"?([^"*]+)"?\*', f.params[0]['ty'])
    sn = mt.group(1)
    st = m.structs.get(sn)
    if st is None or st.get('opaque'):
        return None
    fl = st['fields']
    L = Layout()
    L.cls = 'ST::string_stream'
    L.struct = sn
    L.size = st['size']
    if len(fl) != 4 or not fl[0][0].endswith('*') or fl[1][0] != 'i64' or fl[2][0] != 'i64':
        return None
    ma = re.match(r'\[(\d+) x i8\]', fl[3][0])
    if not ma:
        return None
    L.chars_off, L.alloc_off, L.size_off, L.data_off = fl[0][1], fl[1][1], fl[2][1], fl[3][1]
    L.n_local = int(ma.group(1))
    L.eb = 1
    L.kind = 'stream'
    L.nfields = len(fl)
    return L


class OwnHooks(Hooks):
    max_depth = 10
    max_paths = 4000
    unroll = 1

    def __init__(self, fork_bad_alloc=False):
        self.fork_bad_alloc = fork_bad_alloc

    def on_store(self, I, st, inst, p, v, nbytes):
        if isinstance(p, PtrV) and p.obj is not None:
            st.ev('own-store', inst, p.obj, p.off, nbytes)

    def unroll_for(self, I, fn, header, st=None):
        # a loop whose exit test compares against a small constant (an element-wise walk over the in-object array): interpreted exactly
        k = const_trip_bound(fn, header)
        if k is not None and k <= 40:
            return k + 2
        # a loop of a standard-library helper (swap_ranges, copy, fill over the in-object array): its trip count is the distance of
        # two pointers into one array, decided as the interpretation goes
        if not I.m.is_lib(fn) and fn.dem.startswith('std::') or re.match(r'^\w[\w:<>, \*&]* std::', fn.dem):
            return 40
        return self.unroll


def const_trip_bound(fn, header):
    """The constant an integer comparison in the loop's header block tests against (None if there is none or it is large)."""
    for b in fn.blocks:
        if b.id != header:
            continue
        for i in b.insts:
            if i.op == 'icmp':
                for a in i.a:
                    if isinstance(a, list) and a and a[0] == 'i' and 0 < a[1] <= 64:
                        return a[1]
    return None


def maybe_written(st, oid, lo, hi, base_ver=0):
    """Some store recorded after version base_ver may touch [lo, hi) (byte offsets, Lin) of object oid."""
    ob = st.objs.get(oid)
    if ob is None:
        return True
    for (roff, rlen, tag, ver) in ob.regions:
        if ver <= base_ver:
            continue
        rl = rlen if isinstance(rlen, Lin) else Lin.const(rlen)
        if st.is_ge0(roff - hi) is True or st.is_ge0(lo - roff - rl) is True:
            continue
        return True
    for e in st.events:
        if e[0] == 'own-store' and e[2] == oid:
            if st.is_ge0(e[3] - hi) is True or st.is_ge0(lo - e[3] - e[4]) is True:
                continue
            return True
    return False


def path_abstracted(st):
    """The path went through the abstraction of a loop: what the state does not know afterwards is lost precision, not a fact."""
    return any(e[0] == 'widen' for e in st.events)


# ------------------------------------------------------------------------------------------------
# scenario construction

def make_buffer(I, st, L, tag, cls):
    """cls: 'small' | 'large' | 'undef'.  Returns object id; records entry facts in st.flags."""
    oid = 'own:' + tag
    o = Obj('owner', Lin.const(L.size))
    o.attrs['layout'] = L
    o.attrs['tag'] = tag
    st.objs[oid] = o
    if cls == 'undef':
        return oid
    s = 'size(%s)' % tag
    if cls == 'small':
        st.rng[s] = (0, L.n_local - 1)
        o.cells[L.chars_off] = (8, PtrV(oid, Lin.const(L.data_off)))
        o.lazy = True
        o.version += 1
        o.regions.append((Lin.const(L.data_off) + Lin.atom(s).scale(L.eb), Lin.const(L.eb),
                          ('val', IntV(L.eb * 8, ZERO, 'u'), L.eb), o.version))
        storage = PtrV(oid, Lin.const(L.data_off))
    else:
        st.rng[s] = (L.n_local, MAXLEN // L.eb - 2)
        hid = 'heap:' + tag
        h = Obj('heap', (Lin.atom(s) + 1).scale(L.eb))
        h.lazy = True
        h.attrs['entry'] = True
        h.attrs['array'] = True
        h.version += 1
        h.regions.append((Lin.atom(s).scale(L.eb), Lin.const(L.eb), ('val', IntV(L.eb * 8, ZERO, 'u'), L.eb), h.version))
        st.objs[hid] = h
        o.cells[L.chars_off] = (8, PtrV(hid, ZERO))
        o.lazy = True
        storage = PtrV(hid, ZERO)
    o.cells[L.size_off] = (8, IntV(64, Lin.atom(s), 'u'))
    st.flags['entry:' + tag] = dict(cls=cls, size=Lin.atom(s), storage=storage, storage_ver=st.objs[storage.obj].version, obj_ver=o.version)
    return oid


def make_stream(I, st, L, tag, cls):
    """cls: 'stack' | 'heap' | 'undef'."""
    oid = 'own:' + tag
    o = Obj('owner', Lin.const(L.size))
    o.attrs['layout'] = L
    o.attrs['tag'] = tag
    st.objs[oid] = o
    if cls == 'undef':
        return oid
    s = 'size(%s)' % tag
    a = 'alloc(%s)' % tag
    o.lazy = True
    if cls == 'stack':
        st.rng[a] = (L.n_local, L.n_local)
        st.rng[s] = (0, L.n_local)
        o.cells[L.chars_off] = (8, PtrV(oid, Lin.const(L.data_off)))
        storage = PtrV(oid, Lin.const(L.data_off))
        alloc = Lin.const(L.n_local)
    else:
        st.rng[a] = (L.n_local + 1, MAXLEN - 2)
        st.rng[s] = (0, MAXLEN - 2)
        st.assume_ge0(Lin.atom(a) - Lin.atom(s))
        hid = 'heap:' + tag
        h = Obj('heap', Lin.atom(a))
        h.lazy = True
        h.attrs['entry'] = True
        h.attrs['array'] = True
        st.objs[hid] = h
        o.cells[L.chars_off] = (8, PtrV(hid, ZERO))
        storage = PtrV(hid, ZERO)
        alloc = Lin.atom(a)
    o.cells[L.alloc_off] = (8, IntV(64, alloc, 'u'))
    o.cells[L.size_off] = (8, IntV(64, Lin.atom(s), 'u'))
    st.flags['entry:' + tag] = dict(cls=cls, size=Lin.atom(s), alloc=alloc, storage=storage,
                                    storage_ver=st.objs[storage.obj].version, obj_ver=o.version)
    return oid


# ------------------------------------------------------------------------------------------------
# invariant

def owner_objects(st):
    return [(oid, o) for oid, o in st.objs.items() if o.kind == 'owner' and not o.attrs.get('destroyed')]


def read_field(I, st, oid, off, ty, n=8):
    o = st.objs[oid]
    c = o.cells.get(off)
    if c is not None and c[0] == n:
        return c[1]
    return None


def check_inv_obj(I, st0, oid, problems, undecided):
    """Class invariant of one owner object; forks hypothetically on its size class."""
    o = st0.objs[oid]
    L = o.attrs['layout']
    tag = o.attrs['tag']
    chars = read_field(I, st0, oid, L.chars_off, 'ptr')
    size = read_field(I, st0, oid, L.size_off, 'i64')
    if chars is None or size is None or not isinstance(size, IntV):
        if not o.cells and not o.regions:
            problems.append(('uninitialised', '%s: fields never initialised' % tag))
        else:
            undecided.append('%s: a field is not a tracked scalar (havoc)' % tag)
        return
    if not isinstance(chars, PtrV):
        undecided.append('%s: data pointer is not tracked' % tag)
        return
    sl = I.as_u(st0, size)
    if L.kind == 'buffer':
        cases = [('small', Lin.const(L.n_local - 1) - sl), ('large', sl - L.n_local)]
        sel = sl
    else:
        alloc = read_field(I, st0, oid, L.alloc_off, 'i64')
        if not isinstance(alloc, IntV):
            undecided.append('%s: m_alloc is not tracked' % tag)
            return
        al = I.as_u(st0, alloc)
        cases = [('stack', Lin.const(L.n_local) - al), ('heap', al - (L.n_local + 1))]
    for (cname, cond) in cases:
        st = st0.clone()
        if not st.assume_ge0(cond):
            continue
        where = '%s in %s state' % (tag, cname)
        if I.ptr_nullness(st, chars) is not False:
            problems.append(('null', '%s: data pointer may be null' % where))
            continue
        if cname in ('small', 'stack'):
            if chars.obj != oid or st.is_eq0(chars.off - L.data_off) is not True:
                tgt = st.objs.get(chars.obj)
                what = 'another owner object' if (tgt is not None and tgt.kind == 'owner') else \
                    'a heap block' if (tgt is not None and tgt.kind == 'heap') else 'foreign storage'
                problems.append(('foreign', '%s: data pointer designates %s (%r), not its own in-object array' % (where, what, chars)))
                continue
            if L.kind == 'stream':
                if st.is_eq0(al - L.n_local) is not True:
                    problems.append(('alloc', '%s: m_alloc = %r is not the in-object capacity %d' % (where, al, L.n_local)))
                if st.is_ge0(al - sl) is not True:
                    problems.append(('size', '%s: m_size = %r may exceed m_alloc = %r' % (where, sl, al)))
            else:
                v = I.load(st, None, PtrV(oid, Lin.const(L.data_off) + sl.scale(L.eb)), 'i%d' % (L.eb * 8), L.eb)
                if not (isinstance(v, IntV) and not v.lin.t and v.lin.c == 0):
                    pos = Lin.const(L.data_off) + sl.scale(L.eb)
                    ent = st.flags.get('entry:' + str(st.objs[oid].attrs.get('tag')))
                    if (isinstance(v, IntV) and not v.lin.t) or not maybe_written(st, oid, pos, pos + L.eb, (ent or {}).get('obj_ver', 0)):
                        problems.append(('terminator', '%s: no NUL known at index m_size = %r of the in-object array' % (where, sl)))
                    else:
                        # the position was written on this path: with what?  A value that is a function of the inputs alone (e.g. a
                        # unit of another object's in-object array as the operation found it) and can be non-zero is a finding
                        env = None
                        if isinstance(v, IntV):
                            vu = I.as_u(st, v)
                            if vu is not None:
                                env = st.find_model([vu], lambda x: x[0] != 0)
                                # a unit read from memory that was written during the operation is not an input of it
                                if env is not None and any(isinstance(k, tuple) and k[0] in ('load', 'tbl') and k[3] != 0 for k in env):
                                    env = None
                        if env is not None:
                            problems.append(('terminator', '%s: the unit at index m_size = %r of the in-object array was written with a value that need not be '
                                             'NUL; witness %s' % (where, sl, fmt_env(env))))
                        else:
                            undecided.append('%s: the unit at index m_size = %r of the in-object array was written with a value not decided to be NUL' % (where, sl))
        else:
            h = st.objs.get(chars.obj)
            if h is None or h.kind != 'heap':
                what = 'the in-object array of %s' % (st.objs[chars.obj].attrs.get('tag', '?')) if (h is not None and h.kind == 'owner') else repr(chars)
                problems.append(('notheap', '%s: data pointer designates %s, not a heap block' % (where, what)))
                continue
            if h.freed:
                problems.append(('dangling', '%s: data pointer designates a released heap block' % where))
                continue
            if st.is_eq0(chars.off) is not True:
                problems.append(('interior', '%s: data pointer is not the start of its heap block' % where))
                continue
            others = [t for (t, oo) in owner_objects(st) if t != oid and _points_to(I, st, t, chars.obj)]
            if others:
                problems.append(('shared', '%s: heap block is also referenced by %s' % (where, ', '.join(st.objs[t].attrs['tag'] for t in others))))
            if L.kind == 'buffer':
                need = (sl + 1).scale(L.eb)
                if h.size is None or st.is_ge0(h.size - need) is not True:
                    problems.append(('capacity', '%s: heap block of %r bytes does not hold m_size+1 = %r elements' % (where, h.size, sl + 1)))
                else:
                    v = I.load(st, None, PtrV(chars.obj, sl.scale(L.eb)), 'i%d' % (L.eb * 8), L.eb)
                    if not (isinstance(v, IntV) and not v.lin.t and v.lin.c == 0):
                        problems.append(('terminator', '%s: no NUL known at index m_size = %r of the heap block' % (where, sl)))
            else:
                if h.size is None or st.is_eq0(h.size - al) is not True:
                    problems.append(('capacity', '%s: heap block of %r bytes but m_alloc = %r' % (where, h.size, al)))
                if st.is_ge0(al - sl) is not True:
                    problems.append(('size', '%s: m_size = %r may exceed m_alloc = %r' % (where, sl, al)))


def _points_to(I, st, oid, hid):
    o = st.objs[oid]
    L = o.attrs['layout']
    c = o.cells.get(L.chars_off)
    if c is None or not isinstance(c[1], PtrV) or c[1].obj != hid:
        return False
    # only a reference if the object is in heap state (a small object's stale pointer is ignored by the class,
    # but it must then not be heap-typed: that case is reported by check_inv_obj as 'foreign')
    return True


def check_heap(I, st, problems, returned=None):
    """Every live heap block is owned by exactly one live owner object (or is the returned value)."""
    owners = owner_objects(st)
    for hid, h in st.objs.items():
        if h.kind != 'heap' or h.freed:
            continue
        refs = [t for (t, o) in owners if _points_to(I, st, t, hid)]
        if returned is not None and isinstance(returned, PtrV) and returned.obj == hid:
            refs.append('<returned>')
        if not refs:
            if h.attrs.get('entry'):
                problems.append(('leak', 'heap block owned by %s on entry is neither released nor owned by any object' % hid[5:]))
            else:
                site = h.attrs.get('site')
                problems.append(('leak', 'heap block allocated at line %s is neither released nor owned by any object' % (site.line if site is not None else '?')))
        elif len(refs) > 1:
            problems.append(('shared', 'heap block referenced by %s' % ', '.join(st.objs[t].attrs['tag'] if t in st.objs else t for t in refs)))


def bad_events(I, st, fn):
    out = []
    for e in st.events:
        k = e[0]
        if k in BAD_EVENTS:
            inst = e[1]
            loc = '%s:%d' % (I.m.files[inst.file], inst.line) if inst is not None and hasattr(inst, 'line') else ''
            if k == 'oob':
                out.append((k, 'out-of-bounds %s of %r bytes at %r (object holds %r bytes) at %s' % (e[2], e[4], e[3], e[5], loc)))
            elif k == 'uninit-read':
                if str(e[2]).startswith('own:'):
                    out.append((k, 'read of an uninitialised field of %s (offset %r) at %s' % (e[2][4:], e[3], loc)))
            else:
                out.append((k, '%s at %s' % (k, loc)))
    return out


def maybe_oob(I, st):
    """'oob?' events: try to produce a concrete witness; returns (violations, undecided)."""
    viol, und = [], []
    for e in st.events:
        if e[0] != 'oob?':
            continue
        inst, kind, p, n, size = e[1], e[2], e[3], e[4], e[5]
        loc = '%s:%d' % (I.m.files[inst.file], inst.line) if inst is not None and hasattr(inst, 'line') else ''
        over = p.off + n - size          # > 0  => overrun
        env = e[6] if len(e) > 6 else st.find_model([over, p.off], lambda v: v[0] > 0 or v[1] < 0)
        if env is not None:
            viol.append(('oob', 'out-of-bounds %s at %s: offset %r + %r bytes vs object of %r bytes; witness %s' %
                         (kind, loc, p.off, n, size, fmt_env(env))))
        else:
            und.append('bounds of %s at %s not decided' % (kind, loc))
    return viol, und


def fmt_env(env):
    return ', '.join('%s=%d' % (k if isinstance(k, str) else repr(k), v) for k, v in sorted(env.items(), key=lambda x: repr(x[0])))


# ------------------------------------------------------------------------------------------------
# running one method under one scenario

def owner_param_roles(f, L):
    """For each LLVM parameter: 'this' | 'other' (same owner class by reference) | 'sret' | 'int' | 'ptr' | 'other-type'."""
    roles = func_roles(f)
    out = []
    cls_re = re.escape(L.cls)
    for k, p in enumerate(f.params):
        r = roles[k]
        if r == 'this':
            out.append('this')
        elif r == 'sret':
            out.append('sret')
        elif r is not None and re.match(r'^%s\s*(const)?\s*(&|&&)$' % cls_re, r.strip()):
            out.append('other')
        elif p['ty'].startswith('i') and p['ty'][1:].isdigit():
            out.append('int')
        elif p['ty'].endswith('*'):
            out.append('ptr')
        else:
            out.append('val')
    return out


def scenarios_for(f, L, roles):
    classes = ('small', 'large') if L.kind == 'buffer' else ('stack', 'heap')
    has_other = 'other' in roles
    this_classes = ('undef',) if is_ctor(f) else classes
    scen = []
    for a in this_classes:
        if has_other:
            for b in classes:
                scen.append((a, b, False))
            if not is_ctor(f):
                scen.append((a, a, True))
        else:
            scen.append((a, None, False))
    return scen


def run_method(m, F, E, L, f, scen, fork_bad_alloc=False, hooks=None, int_override=None):
    a_cls, b_cls, alias = scen
    h = hooks or OwnHooks(fork_bad_alloc=fork_bad_alloc)
    I = Interp(m, F, E, h)
    st = State()
    mk = make_buffer if L.kind == 'buffer' else make_stream
    roles = owner_param_roles(f, L)
    args = []
    info = dict(args=[], roles=roles)
    A = B = None
    for k, r in enumerate(roles):
        if r == 'this':
            A = mk(I, st, L, 'this', a_cls)
            args.append(PtrV(A))
        elif r == 'other':
            if alias:
                B = A
            else:
                B = mk(I, st, L, 'other', b_cls)
            args.append(PtrV(B))
        elif r == 'int':
            bits = int(f.params[k]['ty'][1:])
            nth = sum(1 for x in roles[:k] if x in ('int', 'ptr'))
            if int_override and nth in int_override:
                args.append(IntV(bits, Lin.const(int_override[nth]), 'u'))
                continue
            if bits >= 32:
                v = I.fresh_int(st, bits, f.argnames[k] if k < len(f.argnames) and f.argnames[k] else 'n',
                                hi=min(MAXLEN // L.eb - 2, (1 << bits) - 1))
            else:
                v = I.fresh_int(st, bits, f.argnames[k] if k < len(f.argnames) and f.argnames[k] else 'c')
            args.append(v)
        elif r == 'ptr':
            args.append(I.fresh_ptr(st, f.argnames[k] if k < len(f.argnames) and f.argnames[k] else 'p', maynull=True))
        else:
            args.append(I.fresh_for_type(st, f.params[k]['ty'], 'arg'))
    info['A'], info['B'], info['argv'] = A, B, args
    info['entry'] = dict((k[6:], v) for k, v in st.flags.items() if k.startswith('entry:'))
    st = I.start(f, args, st)
    outs = I.run(st)
    return I, outs, info


def bulk_content(I, st, storage, nbytes):
    """Most recent bulk write (copy/fill/havoc) covering [storage, storage+nbytes): (tag, dest_off, len) or None;
    also reports scalar stores after it that land inside the range."""
    o = st.objs.get(storage.obj)
    if o is None:
        return None, []
    later = []
    for (roff, rlen, tag, ver) in reversed(o.regions):
        if tag[0] == 'val':
            inside = st.is_ge0(roff - storage.off) is not False and st.is_ge0(storage.off + nbytes - roff - rlen) is not False
            strictly_after = st.is_ge0(roff - storage.off - nbytes) is True
            if inside and not strictly_after:
                later.append((roff, tag))
            continue
        return (tag, roff, rlen), later
    return None, later


def judge_common(I, o, f, info, destroyed=None):
    """Invariant of every live owner, heap accounting, memory-safety events at one exit."""
    st = o.st
    problems, undecided = [], []
    if destroyed is not None:
        st.objs[destroyed].attrs['destroyed'] = True
    for oid, ob in owner_objects(st):
        check_inv_obj(I, st, oid, problems, undecided)
    check_heap(I, st, problems)
    problems += bad_events(I, st, f)
    mv, mu = maybe_oob(I, st)
    problems += mv
    undecided += mu
    if problems and path_abstracted(st):
        undecided = list(undecided) + ['%s (after a loop that was abstracted: not a witness)' % p[1][:160] for p in problems[:2]]
        problems = []
    return problems, undecided


def report(run, rule, subject, f, disc, problems, undecided, okmsg, split=True):
    """One obligation per problem class (so that known findings can be keyed precisely)."""
    # a finding whose text depends on a symbol standing for lost precision (a widened loop value, a havoc'd read) rather than on
    # the inputs of the scenario is not a witness: it is reported as undecided
    from .common import abstract_atoms
    soft = [p for p in problems if abstract_atoms(p[1])]
    if soft:
        problems = [p for p in problems if not abstract_atoms(p[1])]
        undecided = list(undecided) + ['%s (depends on an abstracted value, not a witness)' % p[1][:160] for p in soft[:2]]
    if problems and getattr(f, 'access', 'public') != 'public' and not (is_ctor(f) or is_dtor(f)):
        # a private helper is a step of an operation, not an operation: it may leave the object in an intermediate state that its
        # public callers repair.  The callers are analysed with the helper interpreted in place; here the finding is only noted.
        undecided = list(undecided) + ['%s (private helper: judged through its public callers)' % p[1][:160] for p in problems[:2]]
        problems = []
    if problems:
        for key in sorted(set(p[0] for p in problems)):
            msgs = [p[1] for p in problems if p[0] == key]
            run.ob(rule, subject, False, '; '.join(msgs), disc=disc + ' / ' + key, loc=fn_loc(f))
    elif undecided:
        run.ob(rule, subject, None, '; '.join(undecided[:3]), disc=disc, loc=fn_loc(f))
    else:
        run.ob(rule, subject, True, okmsg, disc=disc)
