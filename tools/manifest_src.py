SETUP = 'sh ./setup.sh'
HOOKS = dict(
    guard='ST_VERIF',
    enable='no hooks are needed: the checks read the unmodified headers of /repo (compiled to LLVM IR, never executed)',
    baseline_off_cmd='sh /verif/tools/baseline.sh',
    source_commits=[],
    add_only=True,
)
NOTES = ('All checks are static: /repo/include is lowered to LLVM IR through gen/driver.cpp (clang 14, -O0, mem2reg) on every run '
         '(cached by content hash) and analysed by the Python package stir/. Exit 2 = analysis could not be carried out (never a pass).')

CLAIMS = {
 'C20': dict(
    level='proof',
    text=('Every library global is an immutable constant, no library function stores into a global, no const member or '
          'const-reference function can write (deeply) through its read-only parameters, and no MT-unsafe external is reachable: '
          'all obligations are enumerated over the whole module and each is discharged by the analysis. With no shared mutable state '
          'and write-free readers, no data race can originate in the library and results cannot depend on other threads.'),
    note=('relative to: clang-14 lowering, the effect model of externals (declared const-ness, C table), glibc MT-safety classes, '
          'iostream internals trusted; only instantiations in gen/driver.cpp'),
    technique='static analysis: module-wide global/effect/call-graph facts over LLVM IR (pointer-provenance write summaries)'),
}
NOT_APPLICABLE = {}
