// Positive controls: each function below violates one structural rule on purpose.
// A check whose expected violation count is zero must still fire on these on every run.
#include <string_theory/string>
#include <string_theory/format>
#include <cstring>
#include <ctime>

namespace ST { namespace verif_controls
{
    // R20.1: mutable function-local static scratch buffer
    inline const char *static_scratch(int v)
    {
        static char scratch[32];
        snprintf(scratch, sizeof(scratch), "%d", v);
        return scratch;
    }

    // R20.1: namespace-scope mutable counter
    static unsigned long call_counter = 0;
    inline void count_call() { ++call_counter; }

    // R20.3 / R04.2: writes through a const reference (deep, through the data pointer)
    inline void upper_in_place(const ST::string &s)
    {
        char *p = const_cast<char *>(s.c_str());
        for (size_t i = 0; i < s.size(); ++i)
            p[i] = static_cast<char>(p[i] & ~0x20);
    }

    // R20.4: MT-unsafe libc function
    inline char *first_token(char *text)
    {
        return strtok(text, " ");
    }

    // R04.8: hands out a reference to an object it was only given for reading (the caller gets an alias, not a value)
    inline const ST::string &alias_of(const ST::string &s)
    {
        return s;
    }

    // R06.7: decides equality of two strings with a primitive that stops at the first NUL
    inline bool same_text(const ST::string &a, const ST::string &b)
    {
        return strcmp(a.c_str(), b.c_str()) == 0;
    }

    void use_all(const ST::string &s, char *t)
    {
        (void)same_text(s, s);
        (void)alias_of(s);
        (void)static_scratch(1);
        count_call();
        upper_in_place(s);
        (void)first_token(t);
    }
}}
