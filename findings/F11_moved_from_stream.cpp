#include <string_theory/string_stream>
#include <cstdio>
#include <cstring>
#include <unistd.h>
#include <csignal>
static void on_alarm(int) { const char m[] = "HANG: append to a moved-from string_stream does not terminate\n"; (void)!write(1, m, sizeof(m) - 1); _exit(2); }
int main() {
    signal(SIGALRM, on_alarm);
    alarm(5);
    int bad = 0;
    {   // heap-mode source: after the move both objects reference one block
        ST::string_stream a;
        a.append_char('x', 1000);
        ST::string_stream b(std::move(a));
        if (a.raw_buffer() == b.raw_buffer()) { printf("move-ctor(heap): moved-from stream shares its block with the new stream\n"); bad++; }
        if (a.size() != 0) { printf("move-ctor(heap): moved-from stream reports size %zu, not empty\n", a.size()); bad++; }
    }
    {   // a moved-from stream must accept appends
        ST::string_stream a;
        a << "Hello";
        ST::string_stream b(std::move(a));
        a << "again";                      // expand_buffer() doubles m_alloc == 0 forever
        if (a.size() != 5 || memcmp(a.raw_buffer(), "again", 5) != 0) { printf("moved-from stream content wrong after append\n"); bad++; }
    }
    printf(bad ? "FAIL %d\n" : "OK\n", bad);
    return bad ? 1 : 0;
}
