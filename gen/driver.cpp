// Instantiation driver for the static analysis of zrax/string_theory.
// It is never executed: it only forces clang to lower every inline function of
// the headers (-femit-all-decls) and the templates listed below into LLVM IR.
#include <string_theory/assert>
#include <string_theory/char_buffer>
#include <string_theory/codecs>
#include <string_theory/exceptions>
#include <string_theory/format>
#include <string_theory/format_numeric>
#include <string_theory/formatter>
#include <string_theory/iostream>
#include <string_theory/stdio>
#include <string_theory/string>
#include <string_theory/string_stream>
#include <string_theory/utf_conversion>

#include <complex>
#include <sstream>
#include <unordered_map>
#include <map>

template class ST::buffer<char>;
template class ST::buffer<wchar_t>;
template class ST::buffer<char16_t>;
template class ST::buffer<char32_t>;

template class ST::uint_formatter<unsigned char>;
template class ST::uint_formatter<unsigned short>;
template class ST::uint_formatter<unsigned int>;
template class ST::uint_formatter<unsigned long>;
template class ST::uint_formatter<unsigned long long>;
template class ST::float_formatter<float>;
template class ST::float_formatter<double>;

// the library's default character set of the trim functions, as a constant the rules can read (R08.9)
#ifdef ST_WHITESPACE
extern "C" const char stverif_default_whitespace[] = ST_WHITESPACE;
#endif

namespace stverif_driver
{
    using namespace ST::literals;

// language-level dependent argument groups (the thorough tier lowers this file as C++20, C++17 and C++11)
#ifdef __cpp_char8_t
#   define ST_VERIF_ARGS_CHAR8 (char8_t)u8'z', (const char8_t *)u8"e", std::u8string(u8"k"), std::u8string_view(u8"p"),
#else
#   define ST_VERIF_ARGS_CHAR8
#endif
#if __cplusplus >= 201703L
#   define ST_VERIF_ARGS_17 std::string_view("l"), std::wstring_view(L"m"), std::u16string_view(u"n"), std::u32string_view(U"o"), \
        std::filesystem::path("q"),
#else
#   define ST_VERIF_ARGS_17
#endif
#define ST_VERIF_ARGS_ALL \
        (char)'c', (wchar_t)L'w', (char16_t)u'x', (char32_t)U'y', \
        (signed char)1, (unsigned char)2, (short)3, (unsigned short)4, 5, 6u, 7l, 8ul, 9ll, 10ull, \
        1.5, 2.5f, std::complex<double>(1, 2), \
        (const char *)"a", (const wchar_t *)L"b", (const char16_t *)u"c", (const char32_t *)U"d", \
        ST::string("f"), \
        std::string("g"), std::wstring(L"h"), std::u16string(u"i"), std::u32string(U"j"), \
        ST_VERIF_ARGS_CHAR8 ST_VERIF_ARGS_17 true

    void formats(FILE *fp, std::ostream &os, std::wostream &wos,
                 std::basic_ostream<char16_t> &os16, std::basic_ostream<char32_t> &os32,
                 const char *fmt, ST::utf_validation_t v)
    {
        (void)ST::format(fmt);
        (void)ST::format(fmt, 1);
        (void)ST::format(fmt, 1, "x", 2.0);
        (void)ST::format(fmt, ST_VERIF_ARGS_ALL);
        (void)ST::format(v, fmt);
        (void)ST::format(v, fmt, 1);
        (void)ST::format(v, fmt, 1, "x", 2.0);
        (void)ST::format_latin_1(fmt);
        (void)ST::format_latin_1(fmt, 1);
        (void)ST::format_latin_1(fmt, 1, "x", 2.0);
        ST::printf(fmt);
        ST::printf(fmt, 1);
        ST::printf(fmt, 1, "x", 2.0);
        ST::printf(fp, fmt);
        ST::printf(fp, fmt, 1);
        ST::printf(fp, fmt, 1, "x", 2.0);
        ST::writef(os, fmt);
        ST::writef(os, fmt, 1);
        ST::writef(os, fmt, 1, "x", 2.0);
        ST::writef(wos, fmt);
        ST::writef(wos, fmt, 1);
        ST::writef(wos, fmt, 1, "x", 2.0);
        ST::writef(os16, fmt, 1);
        ST::writef(os32, fmt, 1);
        (void)"{}"_stfmt(1);
        (void)"{}"_stfmt(1, "x", 2.0);
    }

    void streams(std::ostream &os, std::wostream &wos,
                 std::basic_ostream<char16_t> &os16, std::basic_ostream<char32_t> &os32,
                 std::istream &is, std::wistream &wis,
                 std::basic_istream<char16_t> &is16, std::basic_istream<char32_t> &is32,
                 ST::string &s)
    {
        os << s; wos << s; os16 << s; os32 << s;
        is >> s; wis >> s; is16 >> s; is32 >> s;
    }

    size_t hashes(const ST::string &s)
    {
        std::unordered_map<ST::string, int> m1;
        std::unordered_map<ST::string, int, ST::hash_i, ST::equal_i> m2;
        std::map<ST::string, int, ST::less_i> m3;
        m1[s] = 1; m2[s] = 2; m3[s] = 3;
        return std::hash<ST::string>()(s) + ST::hash()(s) + ST::hash_i()(s);
    }

    void wchar_templates(const wchar_t *w, const char *c, const char16_t *u16, const char32_t *u32, size_t n,
                         ST::utf_validation_t v)
    {
        (void)ST::wchar_to_utf8(w, n, v);
        (void)ST::utf8_to_wchar(c, n, v);
        (void)ST::wchar_to_utf16(w, n, v);
        (void)ST::utf16_to_wchar(u16, n, v);
        (void)ST::wchar_to_utf32(w, n, v);
        (void)ST::utf32_to_wchar(u32, n, v);
        (void)ST::wchar_to_latin_1(w, n, v);
        (void)ST::latin_1_to_wchar(c, n);
    }
}
