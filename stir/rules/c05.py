"""C05 - buffers keep size, content, terminator and exclusive ownership over any history.

R05.1 class invariant Inv holds for every live buffer at every normal exit of every mutating member
R05.2 value clauses per operation (size term and content tag of the result vs the entry state);
      every store / copy lies inside the storage it targets
R05.3 moved-from objects satisfy Inv            R05.4 self-assignment scenarios
R05.5 the destructor releases exactly the block it owns
"""
import re

from ..state import IntV, PtrV
from ..terms import Lin, ZERO
from ..interp import Budget, Unmodelled
from . import own
from .common import short, fn_loc, class_of, is_ctor, is_dtor

LEVEL = 'proof'
EXPLANATION = ('abstract interpretation (ownership + interval/linear-term domains) of every mutating member of '
               'ST::buffer<T> over the LLVM IR, from every entry scenario the class invariant allows; the invariant and the '
               'value clauses are checked at every exit, which is an inductive proof over all operation histories')

ELTS = ('char', 'wchar_t', 'char16_t', 'char32_t')


def method_kind(f, L):
    d = f.dem
    base = d[len(L.cls) + 2:]
    cn = 'buffer'
    if base.startswith('~'):
        return 'dtor'
    if re.match(r'^%s\(\)$' % cn, base) or re.match(r'^%s\(ST::null_t const&\)$' % cn, base):
        return 'empty'
    if base == 'clear()' or base == 'operator=(ST::null_t const&)':
        return 'empty'
    if re.match(r'^(?:%s|operator=)\(%s const&\)$' % (cn, re.escape(L.cls)), base):
        return 'copy'
    if re.match(r'^(?:%s|operator=)\(%s&&\)$' % (cn, re.escape(L.cls)), base):
        return 'move'
    if re.match(r'^%s\([\w ]+ const\*, unsigned long\)$' % cn, base):
        return 'from_data'
    if re.match(r'^%s\(unsigned long, [\w ]+\)$' % cn, base):
        return 'fill'
    if base == 'allocate(unsigned long)':
        return 'allocate'
    if re.match(r'^allocate\(unsigned long, [\w ]+\)$', base):
        return 'allocate_fill'
    return 'other'


def current(I, st, oid, L):
    o = st.objs[oid]
    c = o.cells.get(L.chars_off)
    s = o.cells.get(L.size_off)
    return (c[1] if c else None), (s[1] if s else None)


def value_clauses(I, o, f, L, kind, info, scen, problems, undecided):
    st = o.st
    A, B = info['A'], info['B']
    entry = info['entry']
    a_cls, b_cls, alias = scen
    chars, size = current(I, st, A, L)
    if not isinstance(size, IntV) or not isinstance(chars, PtrV):
        return
    sl = I.as_u(st, size)
    argv = info['argv']
    roles = info['roles']
    ints = [argv[k] for k, r in enumerate(roles) if r == 'int']
    ptrs = [argv[k] for k, r in enumerate(roles) if r == 'ptr']

    def want_size(term, what):
        r = st.is_eq0(sl - term)
        if r is False:
            problems.append(('size', 'size() is %r after the operation, expected %s = %r' % (sl, what, term)))
        elif r is None:
            env = st.find_model([sl - term], lambda v: v[0] != 0)
            if env is not None:
                problems.append(('size', 'size() is %r after the operation, expected %s = %r; witness %s' % (sl, what, term, own.fmt_env(env))))
            else:
                undecided.append('size %r vs %r not decided' % (sl, term))

    def want_content(kind2, src, nbytes, what):
        if st.is_eq0(nbytes) is True:
            return
        bc, later = own.bulk_content(I, st, chars, nbytes)
        if later:
            undecided.append('the elements are (also) written one by one: not compared with the %s' % what)
            return
        if bc is None:
            ob = st.objs.get(chars.obj)
            if ob is not None and ob.attrs.get('entry') and kind2 == 'copy' and src is not None and src.obj == chars.obj:
                return
            base = 0
            if ob is not None and ob.kind == 'owner':
                base = (st.flags.get('entry:' + str(ob.attrs.get('tag'))) or {}).get('obj_ver', 0)
            if own.maybe_written(st, chars.obj, chars.off, chars.off + nbytes, base):
                undecided.append('storage is written, but not by one bulk write: not compared with the %s' % what)
            else:
                problems.append(('content', 'storage never receives the %s' % what))
            return
        tag, doff, dlen = bc
        if tag[0] != kind2:
            problems.append(('content', 'last bulk write into the storage is a %s, expected %s' % (tag[0], what)))
            return
        if st.is_eq0(doff - chars.off) is not True:
            problems.append(('content', '%s lands at offset %r of the storage, not at its start' % (what, doff - chars.off)))
            return
        if st.is_ge0(dlen - nbytes) is not True:
            env = st.find_model([dlen - nbytes], lambda v: v[0] < 0)
            if env is not None or st.is_ge0(dlen - nbytes) is False:
                problems.append(('content', '%s covers %r bytes but size() demands %r' % (what, dlen, nbytes)))
            else:
                undecided.append('extent of %s not decided' % what)
            return
        if kind2 == 'copy':
            s2 = tag[1]
            if not (isinstance(s2, PtrV) and s2.obj == src.obj and st.is_eq0(s2.off - src.off) is True):
                problems.append(('content', '%s reads from %r, expected %r' % (what, s2, src)))
        elif kind2 == 'fill':
            fv = tag[1]
            if src is not None and isinstance(fv, IntV) and isinstance(src, IntV) and fv.lin != src.lin:
                problems.append(('content', 'fill value is %r, expected the argument %r' % (fv, src)))

    if kind == 'empty':
        want_size(ZERO, '0')
    elif kind in ('copy', 'move'):
        eb = entry.get('other' if not alias else 'this')
        if eb is None:
            return
        want_size(eb['size'], 'size of the source on entry')
        if alias:
            return
        nbytes = eb['size'].scale(L.eb)
        if kind == 'move' and chars.obj == eb['storage'].obj and eb['cls'] == 'large':
            h = st.objs[chars.obj]
            if h.version != eb['storage_ver']:
                problems.append(('content', 'transferred heap block was written during the move'))
            return
        want_content('copy', eb['storage'], nbytes, 'copy of the source elements')
    elif kind == 'from_data':
        if ints:
            want_size(I.as_u(st, ints[0]), 'the size argument')
            if ptrs and I.ptr_nullness(st, ptrs[0]) is False:
                want_content('copy', ptrs[0], I.as_u(st, ints[0]).scale(L.eb), 'copy of data[0,size)')
    elif kind in ('fill', 'allocate_fill'):
        if ints:
            want_size(I.as_u(st, ints[0]), 'the count argument')
            want_content('fill', ints[1] if len(ints) > 1 else None, I.as_u(st, ints[0]).scale(L.eb), 'fill of count elements')
    elif kind == 'allocate':
        if ints:
            want_size(I.as_u(st, ints[0]), 'the size argument')


def analyse_method(run, m, F, E, L, f, rule_prefix='R05', fork_bad_alloc=False):
    kind = method_kind(f, L)
    roles = own.owner_param_roles(f, L)
    nruns = 0
    for scen in own.scenarios_for(f, L, roles):
        a_cls, b_cls, alias = scen
        sname = 'this=%s' % a_cls + (', other=%s' % b_cls if b_cls else '') + (', this==other' if alias else '')
        subject = short(f.dem)
        try:
            I, outs, info = own.run_method(m, F, E, L, f, scen, fork_bad_alloc=fork_bad_alloc)
        except (Budget, Unmodelled) as e:
            raise
        nruns += 1
        for o in outs:
            if o.kind in ('backedge', 'unreachable'):
                continue
            problems, undecided = [], []
            st = o.st
            exit_desc = o.kind
            if o.kind == 'abort':
                if o.info and o.info[0] == 'assert':
                    # documented contract assertions (null data with non-zero size)
                    run.ob(rule_prefix + '.1', subject, True, 'contract assertion "%s"' % o.info[1], disc=sname + ' / assert')
                    continue
                problems.append(('terminate', 'path ends in %s' % (o.info[0],)))
            if kind == 'dtor' and o.kind == 'ret':
                st.objs[info['A']].attrs['destroyed'] = True
            for oid, ob in own.owner_objects(st):
                own.check_inv_obj(I, st, oid, problems, undecided)
            own.check_heap(I, st, problems)
            problems += own.bad_events(I, st, f)
            mv, mu = own.maybe_oob(I, st)
            problems += mv
            undecided += mu
            if o.kind == 'ret':
                if kind == 'dtor':
                    e = info['entry'].get('this')
                    if e and e['cls'] == 'large' and not st.objs[e['storage'].obj].freed:
                        problems.append(('leak', 'destructor does not release the heap block it owns'))
                else:
                    value_clauses(I, o, f, L, kind, info, scen, problems, undecided)
            # a private helper is a step of an operation: it may leave the object in an intermediate state that its public callers
            # repair; the callers are analysed with the helper interpreted in place, here its findings are only noted
            if problems and getattr(f, 'access', 'public') != 'public' and not (is_ctor(f) or is_dtor(f)):
                undecided = list(undecided) + ['%s (private helper: judged through its public callers)' % p[1][:160] for p in problems[:2]]
                problems = []
            if problems and own.path_abstracted(st):
                undecided = list(undecided) + ['%s (after a loop that was abstracted: not a witness)' % p[1][:160] for p in problems[:2]]
                problems = []
            from .common import abstract_atoms
            soft = [p for p in problems if abstract_atoms(p[1])]
            if soft:
                problems = [p for p in problems if not abstract_atoms(p[1])]
                undecided = list(undecided) + ['%s (depends on an abstracted value, not a witness)' % p[1][:160] for p in soft[:2]]
            # classify
            inv_p = [p for p in problems if p[0] not in ('size', 'content')]
            val_p = [p for p in problems if p[0] in ('size', 'content')]
            moved = (kind == 'move')
            r_inv = rule_prefix + ('.3' if moved else '.4' if alias else '.5' if kind == 'dtor' else '.1')
            disc = sname + ' / ' + exit_desc
            if inv_p:
                for key in sorted(set(p[0] for p in inv_p)):
                    msgs = [p[1] for p in inv_p if p[0] == key]
                    run.ob(r_inv, subject, False, '; '.join(msgs), disc=disc + ' / ' + key, loc=fn_loc(f))
            elif undecided:
                run.ob(r_inv, subject, None, '; '.join(undecided[:3]), disc=disc, loc=fn_loc(f))
            else:
                run.ob(r_inv, subject, True, 'Inv holds for every live buffer; heap blocks accounted for', disc=disc)
            if o.kind == 'ret' and kind not in ('dtor', 'other'):
                if val_p:
                    run.ob(rule_prefix + '.2', subject, False, '; '.join(p[1] for p in val_p), disc=disc + ' / value', loc=fn_loc(f))
                else:
                    run.ob(rule_prefix + '.2', subject, True, 'size and content clauses of "%s" hold' % kind, disc=disc + ' / value')
            if len(run.samples) < 6:
                run.sample(dict(method=f.dem, scenario=sname, exit=exit_desc, problems=[p[1] for p in problems][:3]))
    return nruns


def owner_methods(m, F, E, L):
    out = []
    for name in F.lib:
        f = m.func(name)
        if class_of(f) != L.cls or f.is_const_method():
            continue
        if 'this' not in own.func_roles(f):
            continue
        ti = f.this_index()
        s = E.sum[name]
        if ti in s['writes'] or ti in s['frees'] or is_ctor(f) or is_dtor(f):
            if not (is_ctor(f) or is_dtor(f)) and only_through_members(m, E, f, L.cls):
                continue        # writes its object only by calling other members of the class: covered by their analysis (induction)
            out.append(f)
    return out


def only_through_members(m, E, f, cls):
    try:
        ex = E.explain(f.name, f.this_index())
    except Exception:
        return False
    if not ex:
        return False
    for (i, kind) in ex:
        if not kind.startswith('call ') or i.op not in ('call', 'invoke') or not i.callee:
            return False
        tg = m.resolve(i.callee)
        if not m.has(tg):
            return False
        g = m.func(tg)
        if class_of(g) != cls or g.name == f.name or g.access != 'public':
            return False        # (a private helper need not preserve the invariant by itself: its caller is analysed with it inlined)
    return True


def check(run):
    m = run.module()
    F = run.facts()
    E = run.effects()
    run.trust('clang 14 lowering (LLVM IR, -O0, mem2reg)', 'STIR interpreter and its models of char_traits / operator new[] / delete[]',
              'x86-64 LP64; no object exceeds 2^47 bytes')
    run.assume('element counts passed to constructors/allocate are below 2^47 (larger requests make operator new throw)',
               'user code does not write through data() beyond size()')
    total = 0
    nm = 0
    for elt in ELTS:
        L = own.buffer_layout(m, elt)
        run.need(L is not None, 'layout of ST::buffer<%s> not recognised (expected {T*, size_t, T[N]})' % elt)
        ms = owner_methods(m, F, E, L)
        run.floor('mutating members of ' + L.cls, len(ms), 11)
        seen = set()
        for f in ms:
            # C1/C2 constructor and D1/D2 destructor variants are aliases of one body
            if f.name in seen:
                continue
            seen.add(f.name)
            total += analyse_method(run, m, F, E, L, f)
            nm += 1
    run.counts['abstract runs (method x scenario)'] = total
    run.floor('owner methods analysed', nm, 44)
