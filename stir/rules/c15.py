"""C15 - decoders accept exactly the valid encodings and never overrun the output buffer.

R15.1 every decode-table value has been tested non-negative on the path before it contributes to an output byte (with C14 R14.1:
      the accepted characters are exactly the hex digits of either case / the base64 alphabet; '=' and everything else is rejected)
R15.2 the length test (even / multiple of four) precedes everything; with a null output the implied decoded length is returned
      and nothing is stored
R15.3 every store lies inside [output, output + output_size) and every read inside the string; the value returned on success is
      the number of bytes stored
R15.4 base64 padding: in the final group, '=' in the third position forces '=' in the fourth; the implied length drops by one per
      trailing '='; the allocating wrappers turn -1 into ST::codec_error
Not decided here: that the base64 tail group is the last four characters (a divisibility argument between the loop's exit state
and b64_decode_size) - its reads / stores are reported as undecided, never as violations without a witness.
"""
import re

from ..interp import Interp, Hooks, Budget
from ..state import State, Obj, IntV, PtrV, NULL, MAXLEN
from ..terms import Lin, ZERO, eval_lin
from . import own
from .c08 import string_scene, SliceHooks
from .common import short, fn_loc, robust

LEVEL = 'other'
EXPLANATION = ('abstract interpretation of both decoder cores over a symbolic string and a caller buffer of symbolic size: sign tests '
               'dominating every use of a table value, length tests, store/read bounds with affine cursor relations inferred and verified, '
               'return value = bytes stored; base64 tail placement is left undecided (divisibility argument outside the domains)')

CORES = [('hex', '_ST_PRIVATE::hex_decode(ST::string const&, void*, unsigned long)', 2),
         ('base64', '_ST_PRIVATE::b64_decode(ST::string const&, void*, unsigned long)', 4)]


class DecHooks(SliceHooks):
    unroll = 1
    widen_on_entry = False
    max_paths = 8000

    def on_store(self, I, st, inst, p, v, nbytes):
        if p.obj == 'OUT':
            # table values used by this byte and their sign knowledge at the time of the store
            tb = []
            if isinstance(v, IntV):
                from ..terms import base_atoms
                for a in base_atoms(v.lin):
                    if isinstance(a, tuple) and a[0] == 'tbl':
                        tb.append((a, st.arange(a)[0]))
            st.ev('out-store', inst, p.off, nbytes, v, tb)


def run_core(m, F, E, L, f, null_out=False):
    I = Interp(m, F, E, DecHooks(m))
    st = State()
    this, ret, entry = string_scene(I, st, L, 'large', with_ret=False)
    st.rng['osize'] = (0, (1 << 64) - 1)        # the caller's claim ranges over the whole type
    out = Obj('ext', Lin.atom('osize'))
    out.lazy = True
    st.objs['OUT'] = out
    outs = I.run(I.start(f, [PtrV(this), NULL if null_out else PtrV('OUT'), IntV(64, Lin.atom('osize'), 'u')], st))
    return I, outs, entry


def cores(run, m, F, E):
    L = own.buffer_layout(m, 'char')
    n = 0
    for kind, dem, nin in CORES:
        f = [m.func(x) for x in F.lib if m.func(x).dem == dem]
        run.need(f, '%s not found' % dem)
        f = f[0]
        n += 1
        I, outs, entry = run_core(m, F, E, L, f)
        s = entry['size']
        sign_p, bound_p, bound_u, ret_p, len_p, len_u = [], [], [], [], [], []
        nret = 0
        for o in outs:
            s2 = o.st
            for e in s2.events:
                if e[0] == 'out-store':
                    for (a, lo) in e[5]:
                        if lo < 0:
                            sign_p.append('a table value that may be -1 (rejected character) reaches an output byte at line %d' % e[1].line)
                elif e[0] in ('oob', 'oob?'):
                    p = e[3]
                    env = e[6] if len(e) > 6 else None
                    what = 'store past the caller\'s buffer' if p.obj == 'OUT' else 'read outside the string' if p.obj == entry['storage'].obj else None
                    if what is None and isinstance(p, PtrV) and p.obj is not None and p.obj.startswith('G:') and isinstance(e[5], Lin) and not e[5].t \
                            and (isinstance(e[4], int) or (isinstance(e[4], Lin) and not e[4].t)) and robust([p.off]):
                        # a lookup in a constant table of the program with an index outside it: a finding when the facts of the whole
                        # path have a model with the index outside (the units of the string are inputs)
                        nb_ = e[4] if isinstance(e[4], int) else e[4].c
                        envt = s2.find_model([p.off], lambda vv, n_=nb_, sz=e[5].c: vv[0] < 0 or vv[0] + n_ > sz)
                        if envt is not None:
                            try:
                                ov = eval_lin(p.off, envt)
                            except KeyError:
                                ov = None
                            bound_p.append('lookup outside the constant table %s (%d bytes) at line %d: %d byte(s) at offset %s; witness %s' % (
                                m.dem(p.obj[2:])[:60], e[5].c, e[1].line, nb_, ov if ov is not None else repr(p.off), own.fmt_env(envt)))
                    if what is None:
                        continue
                    msg = '%s: %r byte(s) at offset %r (capacity %r) at line %d' % (what, e[4], p.off - (entry['storage'].off if p.obj != 'OUT' else ZERO), e[5], e[1].line)
                    if e[0] == 'oob' or env is not None:
                        bound_p.append(msg + ('; witness ' + own.fmt_env(env) if env else ''))
                    else:
                        bound_u.append(msg)
            if o.kind == 'abort':
                bound_p.append('aborts (%s)' % (o.info[1] if o.info and len(o.info) > 1 else o.info,))
            if o.kind != 'ret' or not isinstance(o.val, IntV):
                continue
            nret += 1
            v = I.as_s(s2, o.val)
            stores = [e for e in s2.events if e[0] == 'out-store']
            k = nin
            rem = [a for a in s2.rng if isinstance(a, tuple) and a[0] == 'urem' and a[1] == s and a[2] == Lin.const(k)]
            if s2.is_eq0(v + 1) is True:
                continue                        # rejection
            # success: the length test has passed on this path (whatever form it took: %, &, a subtraction of the doubled half ...)
            if not rem or s2.is_eq0(Lin.atom(rem[0])) is not True:
                env = s2.find_model([s], lambda vv, k=k: vv[0] % k != 0)
                if env is not None:
                    len_p.append('returns a length although the input size need not be a multiple of %d; witness %s' % (k, own.fmt_env(env)))
                else:
                    len_u.append('a success path on which the size is not decided to be a multiple of %d' % k)
            if not stores and s2.is_eq0(v) is not True and not any(e[0] == 'widen' for e in s2.events):
                ret_p.append(('returns %r without storing anything' % (v,), s2))
        # contiguity: in an arbitrary iteration the stores start at the output cursor and the cursor advances by their number
        for o in outs:
            if o.kind != 'backedge':
                continue
            s2 = o.st
            wi = max([k2 for k2, e in enumerate(s2.events) if e[0] == 'widen' and e[1] == f.name] or [-1])
            if wi < 0:
                continue
            sts = [e for e in s2.events[wi + 1:] if e[0] == 'out-store']
            b = s2.flags.get('wbegin:' + f.name) or {}
            e2 = s2.flags.get('wend:' + f.name) or {}
            cur = [(bv, e2.get(nm)) for nm, bv in b.items() if isinstance(bv, PtrV) and bv.obj == 'OUT']
            if len(cur) != 1 or not isinstance(cur[0][1], PtrV):
                continue
            bv, ev = cur[0]
            for k2, e in enumerate(sts):
                if s2.is_eq0(e[2] - bv.off - k2) is not True:
                    ret_p.append(('store %d of an iteration lands at %r, the output cursor is at %r' % (k2, e[2], bv.off), s2))
            if s2.is_eq0(ev.off - bv.off - len(sts)) is not True:
                ret_p.append(('an iteration stores %d byte(s) but advances the output cursor by %r' % (len(sts), ev.off - bv.off), s2))
        ret_msgs = []
        for (msg, s2) in ret_p:
            ret_msgs.append(msg)
        run.ob('R15.1', short(f.dem, 60), not sign_p, sign_p[0] if sign_p else 'every table value is known non-negative where it is used', disc=kind, loc=fn_loc(f))
        run.ob('R15.2', short(f.dem, 60), False if len_p else (None if len_u else True), len_p[0] if len_p else (len_u[0] if len_u else
               'success paths have size %% %d == 0 (%d returning paths)' % (nin, nret)), disc=kind, loc=fn_loc(f))
        if bound_p:
            run.ob('R15.3', short(f.dem, 60), False, bound_p[0], disc=kind + ' bounds', loc=fn_loc(f))
        elif bound_u:
            run.ob('R15.3', short(f.dem, 60), None, '%d access(es) not decided, e.g. %s' % (len(bound_u), bound_u[0]), disc=kind + ' bounds', loc=fn_loc(f))
        else:
            run.ob('R15.3', short(f.dem, 60), True, 'every store inside the caller\'s buffer, every read inside the string', disc=kind + ' bounds')
        run.ob('R15.3', short(f.dem, 60), not ret_msgs, ret_msgs[0] if ret_msgs else 'stores are contiguous from the output cursor, which the return value is measured from', disc=kind + ' contiguity', loc=fn_loc(f))
        # null output: implied length, no stores
        I2, outs2, entry2 = run_core(m, F, E, L, f, null_out=True)
        probs = []
        for o in outs2:
            if any(e[0] == 'out-store' for e in o.st.events):
                probs.append('stores although output is null')
            if any(e[0] == 'null-deref' for e in o.st.events) or (o.kind == 'abort' and o.info and o.info[0] == 'null-deref'):
                probs.append('dereferences the null output')
            if o.kind == 'ret' and isinstance(o.val, IntV) and kind == 'hex':
                v = I2.as_s(o.st, o.val)
                s2 = entry2['size']
                if o.st.is_eq0(v + 1) is not True:
                    q = [a for a in o.st.rng if isinstance(a, tuple) and a[0] == 'udiv' and a[1] == s2 and a[2] == Lin.const(2)]
                    if not q or o.st.is_eq0(v - Lin.atom(q[0])) is not True:
                        probs.append('null output: returns %r, expected size/2' % (v,))
        run.ob('R15.2', short(f.dem, 60), not probs, probs[0] if probs else 'null output: length returned, nothing stored', disc=kind + ' null output', loc=fn_loc(f))
    return n


HEX_CLASSES = [((0x00, 0x2F), False), ((0x30, 0x39), True), ((0x3A, 0x40), False), ((0x41, 0x46), True), ((0x47, 0x60), False),
               ((0x61, 0x66), True), ((0x67, 0xFF), False)]
B64_CLASSES = [((0x00, 0x2A), False), ((0x2B, 0x2B), True), ((0x2C, 0x2E), False), ((0x2F, 0x39), True), ((0x3A, 0x40), False),
               ((0x41, 0x5A), True), ((0x5B, 0x60), False), ((0x61, 0x7A), True), ((0x7B, 0xFF), False)]


class GroupHooks(SliceHooks):
    unroll = 0
    widen_on_entry = True
    max_paths = 8000
    storage = None

    def on_access(self, I, st, inst, kind, p, nbytes):
        if kind == 'load' and self.storage is not None and p.obj == self.storage and nbytes == 1:
            st.ev('unit-load', inst, p.off, st.objs[p.obj].version)
        elif kind == 'load' and self.storage is not None and p.obj is not None and p.obj != self.storage and p.off.t:
            # a lookup indexed by a unit of the string in something that is not a constant of the program (a table built at run time)
            from ..terms import base_atoms
            if any(isinstance(a, tuple) and a[0] == 'load' and a[1] == self.storage for a in base_atoms(p.off)):
                o2 = st.objs.get(p.obj)
                if o2 is None or not (o2.attrs.get('const') and o2.attrs.get('data') is not None):
                    st.ev('dyn-lookup', inst, p)


def _signed(v, b):
    return v - (1 << b) if v >= (1 << (b - 1)) else v


def group_paths(m, F, E, f):
    """One arbitrary iteration of the decoder's main loop: for every path the units of the string examined inside the loop since the
    loop head, each with the set of values (0..255) that the path's facts about that unit - directly, through arithmetic on it, or
    through constant-table lookups indexed by it - leave possible."""
    from ..interp import loop_info
    from ..terms import base_atoms, eval_lin, eval_atom
    from ..state import DERIVED
    L = own.buffer_layout(m, 'char')
    loops, back = loop_info(f)
    st = State()
    H = GroupHooks(m)
    I = Interp(m, F, E, H)
    this, ret, entry = string_scene(I, st, L, 'large', with_ret=False)
    H.storage = entry['storage'].obj
    st.rng['osize'] = (0, MAXLEN)
    out = Obj('ext', Lin.atom('osize'))
    out.lazy = True
    st.objs['OUT'] = out
    outs = I.run(I.start(f, [PtrV(this), PtrV('OUT'), IntV(64, Lin.atom('osize'), 'u')], st))
    res = []
    for o in outs:
        s2 = o.st
        ws = [(k, e) for k, e in enumerate(s2.events) if e[0] == 'widen' and e[1] == f.name]
        if not ws:
            continue
        wi, wev = ws[-1]
        body = loops.get(wev[2], set())
        after = [e for e in s2.events[wi + 1:] if e[0] == 'unit-load']
        inloop = [e for e in after if e[1].block in body]
        if not inloop or len(inloop) != len(after):
            continue                    # no group examined, or the tail group (its '=' rules are R15.4)
        if o.kind == 'backedge':
            cls = 'accept'
        elif o.kind == 'ret' and isinstance(o.val, IntV) and s2.is_eq0(I.as_s(s2, o.val) + 1) is True:
            cls = 'reject'
        else:
            continue
        tl = [e for e in s2.events[wi + 1:] if e[0] == 'table-load']
        reads, why, seen = [], None, set()
        dyn = [e for e in s2.events[wi + 1:] if e[0] == 'dyn-lookup']
        if dyn:
            why = ('a unit is looked up (line %d) in a table that is not a constant of the program (built at run time): which units the '
                   'path admits is not decided' % dyn[0][1].line)
        for e in (inloop if not why else []):
            u = ('load', H.storage, e[2], e[3], 8)
            if u in seen:
                continue
            seen.add(u)
            if u not in s2.rng:
                why = 'a unit read that is not tracked as a value'
                break
            ulo, uhi = s2.arange(u)
            # constant-table values looked up with this unit alone
            tabs = []
            for t in tl:
                tobj, off, a = t[2], t[3], t[4]
                if base_atoms(off) == set([u]):
                    sa = ('tbl',) + tuple(a[1:])
                    va = sa if sa in s2.rng else a
                    tabs.append((va, va is sa, off, s2.objs[tobj].attrs.get('data'), s2.objs[tobj].attrs.get('eltbytes', 1), a[4]))
            mine = set([u]) | set(t[0] for t in tabs)
            mixed = False
            rel_ge, rel_ne = [], []
            for fct, dst in [(x, rel_ge) for x in s2.facts] + [(x, rel_ne) for x in s2.nefacts]:
                fa = base_atoms(fct)
                if fa & mine:
                    if fa <= mine:
                        dst.append(fct)
                    else:
                        mixed = True
            derived = [(a2, r2) for a2, r2 in s2.rng.items() if isinstance(a2, tuple) and a2[0] in DERIVED and base_atoms(Lin.atom(a2)) <= mine]
            allowed = []
            for v in range(max(ulo, 0), min(uhi, 255) + 1):
                env = {u: v}
                ok = True
                for (va, sg, off, data, eb, b) in tabs:
                    try:
                        idx = eval_lin(off, env)
                    except KeyError:
                        why = 'a table index that cannot be evaluated'
                        break
                    if data is None or idx % eb or not (0 <= idx // eb < len(data)):
                        ok = False
                        break
                    tv = data[idx // eb]
                    tv = _signed(tv, b) if sg else tv
                    lo2, hi2 = s2.arange(va)
                    if not (lo2 <= tv <= hi2):
                        ok = False
                        break
                    env[va] = tv
                if why:
                    break
                if not ok:
                    continue
                try:
                    if any(eval_lin(x, env) < 0 for x in rel_ge) or any(eval_lin(x, env) == 0 for x in rel_ne):
                        continue
                    if any(not (r2[0] <= eval_atom(a2, env) <= r2[1]) for a2, r2 in derived):
                        continue
                except KeyError:
                    mixed = True
                allowed.append(v)
            if why:
                break
            reads.append(dict(unit=u, uoff=e[2], allowed=allowed, mixed=mixed, line=e[1].line))
        res.append(dict(cls=cls, reads=reads, why=why, st=s2))
    return res


def rank_reads(reads):
    """Position of each read's unit within its group (0-based), or None when the offsets are not constant distances apart."""
    if any(r['uoff'] is None for r in reads):
        return None
    base = reads[0]['uoff']
    ds = []
    for r in reads:
        d = r['uoff'] - base
        if d.t:
            return None
        ds.append(d.c)
    lo = min(ds)
    return [d - lo for d in ds]


def acceptance(run, m, F, E):
    """R15.1: unit by unit, a full group is accepted iff every unit is a digit of the encoding (oracle classes of RFC 4648).
    Judged on the paths of one arbitrary iteration, whatever the shape of the loop: an accepting path must leave no non-digit
    value possible for any unit it looked up; a rejecting path must exclude the digits for at least one of them."""
    n = 0
    for kind, dem, nin in CORES:
        f = [m.func(x) for x in F.lib if m.func(x).dem == dem]
        run.need(f, '%s not found' % dem)
        f = f[0]
        classes = HEX_CLASSES if kind == 'hex' else B64_CLASSES
        digits = set()
        for (lo, hi), okc in classes:
            if okc:
                digits |= set(range(lo, hi + 1))
        paths = group_paths(m, F, E, f)
        acc = [p for p in paths if p['cls'] == 'accept']
        rej = [p for p in paths if p['cls'] == 'reject']
        und_all = [p['why'] for p in paths if p['why']]
        full = []
        for p in acc:
            rk = rank_reads(p['reads']) if not p['why'] else None
            if rk is not None and sorted(rk) == list(range(nin)):
                full.append((p, rk))
            elif not p['why']:
                und_all.append('an accepting iteration looks up %d unit(s), expected the %d of a group' % (len(p['reads']), nin))
        for pos in range(nin):
            for (lo, hi), okc in classes:
                n += 1
                disc = '%s unit %d in [0x%02X,0x%02X]' % (kind, pos, lo, hi)
                cls_vals = set(range(lo, hi + 1))
                bad, und = [], list(und_all)
                if not full:
                    und.append('no accepting iteration path explored')
                if not okc:
                    for p, rk in full:
                        r = p['reads'][rk.index(pos)]
                        hit = sorted(set(r['allowed']) & cls_vals)
                        if hit:
                            (und if r['mixed'] else bad).append('a group whose unit %d is 0x%02X (not a digit of the encoding) is accepted (unit read at line %d)' % (pos, hit[0], r['line']))
                else:
                    for p in rej:
                        if p['why']:
                            continue
                        rk = rank_reads(p['reads'])
                        if rk is None:
                            und.append('a rejecting path whose lookups are not at fixed distances')
                            continue
                        if all(set(r['allowed']) & digits for r in p['reads']) and pos in rk:
                            r = p['reads'][rk.index(pos)]
                            hit = sorted(set(r['allowed']) & cls_vals)
                            if hit:
                                (und if any(x['mixed'] for x in p['reads']) else bad).append(
                                    'a group of valid digits is rejected (unit %d = 0x%02X, the other units digits)' % (pos, hit[0]))
                    for p, rk in full:
                        r = p['reads'][rk.index(pos)]
                        if not (set(r['allowed']) >= cls_vals) and not r['mixed']:
                            # an accepting path that excludes part of a digit class is fine only if another accepting path takes it
                            rest = cls_vals - set(r['allowed'])
                            others = [q for q, rk2 in full if q is not p and rest <= set(q['reads'][rk2.index(pos)]['allowed'])]
                            if not others and not rej:
                                und.append('digit 0x%02X of unit %d neither accepted nor rejected on the explored paths' % (sorted(rest)[0], pos))
                verdict = False if bad else (None if und else True)
                run.ob('R15.1', short(f.dem, 60), verdict, bad[0] if bad else (und[0] if und else ('accepted' if okc else 'rejected')), disc=disc, loc=fn_loc(f))
    return n


def padding(run, m, F, E):
    """R15.4: implied length and the '=' logic."""
    n = 0
    f = [m.func(x) for x in F.lib if m.func(x).dem == '_ST_PRIVATE::b64_decode_size(unsigned long, char const*)']
    run.need(f, 'b64_decode_size not found')
    f = f[0]
    I = Interp(m, F, E, Hooks())
    st = State()
    st.rng['n'] = (0, MAXLEN)
    d = Obj('ext', Lin.atom('n') + 1)
    d.lazy = True
    st.objs['DATA'] = d
    outs = I.run(I.start(f, [IntV(64, Lin.atom('n'), 'u'), PtrV('DATA')], st))
    problems = []
    for o in outs:
        if o.kind != 'ret' or not isinstance(o.val, IntV):
            continue
        s2 = o.st
        v = I.as_s(s2, o.val)
        rem = [a for a in s2.rng if isinstance(a, tuple) and a[0] == 'urem' and a[1] == Lin.atom('n')]
        if s2.is_eq0(v + 1) is True:
            if not rem or s2.is_eq0(Lin.atom(rem[0])) is not False:
                problems.append('returns -1 although the size may be a multiple of four')
            continue
        q = [a for a in s2.rng if isinstance(a, tuple) and a[0] == 'udiv' and a[1] == Lin.atom('n') and a[2] == Lin.const(4)]
        if not q:
            problems.append('result not based on size/4')
            continue
        base = Lin.atom(q[0]).scale(3)
        # characters examined: data[n-1], data[n-2]
        def isq(off):
            a = ('load', 'DATA', Lin.atom('n') - off, 0, 8)
            if a not in s2.rng:
                return None
            lo, hi = s2.arange(a)
            if lo == hi == 0x3D:
                return True
            if Lin.atom(a) - 0x3D in s2.nefacts or hi < 0x3D or lo > 0x3D:
                return False
            return None
        e1, e2 = isq(1), isq(2)
        pad = (1 if e1 else 0) + (1 if e2 else 0)
        if s2.is_eq0(v - base + pad) is not True and not (s2.is_eq0(Lin.atom('n')) is True):
            problems.append('implied length is %r with %d trailing \'=\', expected 3*(size/4) - %d' % (v, pad, pad))
    n += 1
    run.ob('R15.4', short(f.dem), not problems, problems[0] if problems else 'size %% 4 test, then 3*(size/4) minus one per trailing \'=\'', loc=fn_loc(f))
    # wrappers: -1 -> codec_error; length mismatch assertions guarded by equality with the same term
    for dem in ('ST::hex_decode(ST::string const&)', 'ST::base64_decode(ST::string const&)'):
        f = [m.func(x) for x in F.lib if m.func(x).dem == dem]
        run.need(f, '%s not found' % dem)
        f = f[0]
        n += 1
        th = F.throws[f.name]
        ok = 'ST::codec_error' in th and not [t for t in th if t not in ('ST::codec_error', 'std::bad_alloc', 'std::bad_array_new_length')]
        run.ob('R15.4', short(f.dem), ok, 'invalid input is reported as ST::codec_error (throw set %s)' % sorted(th) if ok else 'throw set is %s' % sorted(th), loc=fn_loc(f))
    return n


TAIL_PATTERNS = [
    # (first group or None, last group, expected: None = rejected, else bytes decoded from the last group)
    (None, 'dddd', 3), (None, 'ddd=', 2), (None, 'dd==', 1),
    (None, 'dd=d', None), (None, 'd=dd', None), (None, '=ddd', None), (None, 'd===', None), (None, '====', None), (None, 'd=d=', None),
    ('dddd', 'dddd', 3), ('dddd', 'ddd=', 2), ('dddd', 'dd==', 1),
    ('dddd', 'dd=d', None), ('dddd', 'd=dd', None), ('dddd', '=ddd', None), ('dddd', 'd===', None), ('dddd', 'd=d=', None),
    ('ddd=', 'dddd', None), ('dd==', 'dddd', None), ('dd=d', 'dddd', None),
]


def tail_placement(run, m, F, E):
    """R15.5: where '=' may stand.  b64_decode is interpreted *exactly* (no loop abstraction) on inputs of one and of two groups
    whose units are symbols constrained to 'a digit' (A..Z, a sub-range of the alphabet) or to '=' according to a pattern: the three
    well-formed endings must return the decoded length, every other placement of '=' - inside the final group or in an earlier one -
    must return -1, on every path.  A two-group input is what shows state carried from one group to the next."""
    L = own.buffer_layout(m, 'char')
    f = [m.func(x) for x in F.lib if m.func(x).dem == CORES[1][1]]
    if not f or L is None:
        run.ob('R15.5', 'b64_decode', None, 'core not found', loc='')
        return 0
    f = f[0]
    n = 0
    pats = list(TAIL_PATTERNS)
    if run.tier == 'thorough':
        # three groups: what the first group leaves behind must not show in the third either
        pats += [('dddddddd', g2, None if e is None else e) for (g1, g2, e) in TAIL_PATTERNS if g1 == 'dddd'] + \
                [('dddddd==', 'dddd', None), ('ddd=dddd', 'dddd', None)]
    for (g1, g2, expect) in pats:
        n += 1
        pat = (g1 or '') + g2
        label = (g1 + ' ' if g1 else '') + g2

        class XH(DecHooks):
            unroll = 5
            widen_on_entry = False
        I = Interp(m, F, E, XH(m))
        st = State()
        this, ret, entry = string_scene(I, st, L, 'small', with_ret=False)
        ok = st.assume_eq0(entry['size'] - len(pat))
        # the size is a literal in this scene (not a symbol known to equal one): whatever arithmetic the length test uses folds
        st.objs[this].cells[L.size_off] = (8, IntV(64, Lin.const(len(pat)), 'u'))
        sto = entry['storage']
        units = []
        for k, c in enumerate(pat):
            v = I.load(st, None, PtrV(sto.obj, sto.off + k), 'i8', 1)
            if not isinstance(v, IntV):
                ok = False
                break
            u = I.as_u(st, v)
            units.append(u)
            if c == '=':
                ok = ok and st.assume_eq0(u - 0x3D)
            else:
                ok = ok and st.assume_ge0(u - 0x41) and st.assume_ge0(Lin.const(0x5A) - u)
        st.objs['OUT'] = Obj('ext', Lin.const(16))
        st.objs['OUT'].lazy = True
        if not ok:
            run.ob('R15.5', short(f.dem, 60), None, 'scene for pattern %r not built' % label, disc=label, loc=fn_loc(f))
            continue
        try:
            outs = I.run(I.start(f, [PtrV(this), PtrV('OUT'), IntV(64, Lin.const(16), 'u')], st))
        except Exception as e:
            run.ob('R15.5', short(f.dem, 60), None, 'not interpreted exactly: %s' % (str(e)[:70],), disc=label, loc=fn_loc(f))
            continue
        probs, und, nret = [], [], 0
        want = None if expect is None else (3 * (len(g1) // 4 if g1 else 0) + expect)
        for o in outs:
            s2 = o.st
            if o.kind == 'abort':
                probs.append('aborts (%s)' % (o.info[1] if o.info and len(o.info) > 1 else o.info,))
                continue
            if o.kind != 'ret' or not isinstance(o.val, IntV):
                continue
            if any(e[0] == 'widen' for e in s2.events):
                und.append('a loop was abstracted')
                continue
            nret += 1
            v = I.as_s(s2, o.val)
            lo, hi = s2.range(v)
            if want is None:
                if not (lo == hi == -1):
                    env = s2.find_model(units, lambda vals: True)
                    probs.append('an input of the form %r (d: a digit) is accepted (returns %r) although \'=\' may only end the text%s' %
                                 (label, v, '; witness ' + ' '.join('%02X' % (env.get(a, 0) if not isinstance(a, int) else a) for a in
                                                                    [u.single_atom()[0] if u.single_atom() else 0 for u in units]) if env else ''))
            else:
                if lo == hi == -1:
                    probs.append('the well-formed ending %r is rejected' % label)
                elif not (lo == hi == want):
                    und.append('returns %r for %r, expected %d' % (v, label, want))
        if nret == 0 and not probs:
            und.append('no returning path explored')
        run.ob('R15.5', short(f.dem, 60), False if probs else (None if und else True), probs[0] if probs else (und[0] if und else
               ('rejected on every path' if want is None else 'returns %d on every path' % want)), disc=label, loc=fn_loc(f))
    return n


def check(run):
    m = run.module()
    F = run.facts()
    E = run.effects()
    run.trust('clang 14 lowering (LLVM IR, -O0, mem2reg)', 'STIR interpreter', 'C14 R14.1 (what the decode tables accept)',
              'C05 (string storage holds size()+1 units)')
    run.assume('the base64 tail group is the last four characters of the input (divisibility between the loop exit and the implied length): stated, not analysed')
    run.floor('decoder cores', cores(run, m, F, E), 2)
    run.floor('unit classes x positions', acceptance(run, m, F, E), 40)
    run.floor('padding / wrapper facts', padding(run, m, F, E), 3)
    run.floor('base64 \'=\' placement patterns', tail_placement(run, m, F, E), 20)
    for o in run.obs[:6]:
        run.sample(dict(rule=o['rule'], subject=o['subject'], case=o['disc'], verdict=o['verdict'], detail=o['detail'][:160]))
