#!/usr/bin/env python3
"""Regenerates the generated tables of DESIGN.md (between <!-- BEGIN:x --> / <!-- END:x --> markers) from
seeded/*/meta.json, seeded/matrix.log, neutral/*/notes.txt and neutral/matrix.log."""
import json, os, re, sys
V = os.path.dirname(os.path.dirname(os.path.abspath(__file__)))


def parse_log(p):
    out = {}
    if not os.path.exists(p):
        return out
    for line in open(p):
        parts = line.split()
        if not parts or not re.match(r'^[A-Z]\w*-\d+$', parts[0]):
            continue
        res = {}
        for r in parts[1:]:
            m = re.match(r'(C\d+):exit=(\d+)\((\d+)v,(\d*)u\)', r)
            if m:
                res[m.group(1)] = (int(m.group(2)), int(m.group(3)), int(m.group(4) or 0))
        out[parts[0]] = res
    return out


def seed_table():
    log = parse_log(os.path.join(V, 'seeded', 'matrix.log'))
    rows = ['| seed | what the change is | needs to manifest | result |', '|---|---|---|---|']
    caught = missed = 0
    for sid in sorted(os.listdir(os.path.join(V, 'seeded')), key=lambda s: (s.split('-')[0], int(s.split('-')[1]) if '-' in s and s.split('-')[1].isdigit() else 0)):
        mp = os.path.join(V, 'seeded', sid, 'meta.json')
        if not os.path.exists(mp):
            continue
        meta = json.load(open(mp))
        res = log.get(sid) or {}
        hits = [p for p, (rc, v, u) in sorted(res.items()) if rc == 1]
        if hits:
            caught += 1
            verdict = 'caught by ' + ', '.join(hits)
        else:
            missed += 1
            und = ['%s (%du)' % (p, u) for p, (rc, v, u) in sorted(res.items()) if u]
            verdict = '**missed**' + (' - undecided in ' + ', '.join(und) if und else '') + (': ' + meta['miss_reason'] if meta.get('miss_reason') else '')
        summ = re.sub(r'^(Mutant|Mutation|Change)\s*\S*\s*(\(C\d+\))?\s*[-:]*\s*', '', meta.get('summary', ''))
        summ = re.sub(r'\s+', ' ', summ).strip()[:150]
        needs = re.sub(r'\s+', ' ', meta.get('needs_to_manifest', '')).strip()
        needs = re.sub(r'^[-*]\s*', '', needs)[:170]
        rows.append('| %s | %s | %s | %s |' % (sid, summ.replace('|', '/'), needs.replace('|', '/'), verdict))
    rows.append('')
    rows.append('%d seeded changes, %d caught (exit 1 with a VIOLATION naming the changed construct), %d not.' % (caught + missed, caught, missed))
    return '\n'.join(rows)


def neutral_table():
    log = parse_log(os.path.join(V, 'neutral', 'matrix.log'))
    rows = ['| patch | refactoring | all %d checks |' % 20, '|---|---|---|']
    bad = 0
    for nid in sorted(os.listdir(os.path.join(V, 'neutral'))):
        np_ = os.path.join(V, 'neutral', nid, 'notes.txt')
        if not os.path.exists(np_):
            continue
        title = open(np_).readline().strip()
        title = re.sub(r'\s+', ' ', title)[:170]
        res = log.get(nid) or {}
        alarms = [p for p, (rc, v, u) in sorted(res.items()) if rc != 0]
        und = ['%s:%du' % (p, u) for p, (rc, v, u) in sorted(res.items()) if u and not (p == 'C15' and u == 1)]
        if alarms:
            bad += 1
        rows.append('| %s | %s | %s |' % (nid, title.replace('|', '/'), ('**ALARM** ' + ', '.join(alarms)) if alarms else ('silent' + (' (undecided: ' + ', '.join(und) + ')' if und else '')) if res else 'not run'))
    rows.append('')
    rows.append('%d behaviour-preserving patches; %d raise an alarm in the final state.' % (len(rows) - 3, bad))
    return '\n'.join(rows)


def main():
    p = os.path.join(V, 'DESIGN.md')
    s = open(p).read()
    for key, fn in (('seed-table', seed_table), ('neutral-table', neutral_table)):
        b, e = '<!-- BEGIN:%s -->' % key, '<!-- END:%s -->' % key
        if b in s and e in s:
            s = s[:s.index(b) + len(b)] + '\n' + fn() + '\n' + s[s.index(e):]
    open(p, 'w').write(s)
    print('DESIGN.md tables regenerated')


if __name__ == '__main__':
    main()
