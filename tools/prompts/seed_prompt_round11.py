import json, sys
props = {json.loads(l)['id']: json.loads(l) for l in open('/verif/properties.jsonl')}
tag = sys.argv[1]
for pid in sys.argv[2:]:
    p = props[pid]
    wt = '/tmp/wt_%s%s' % (pid, tag)
    out = '/tmp/mut_%s%s' % (pid, tag)
    txt = f"""You are helping to evaluate a verification effort for the header-only C++ library zrax/string_theory (namespace ST: UTF-8 string class, char buffers, UTF conversions, format, codecs, string_stream). Your job: write ONE realistic change to the library which BREAKS the property below while the library still compiles and its existing test suite (112 googletest tests) still passes.

PROPERTY
Title: {p['title']}
Statement: {p['statement']}
Quantified over: {p['quantifier']['text']}

YOUR WORKSPACE
- A private git worktree of the library: {wt}  (headers are in {wt}/include). Work ONLY there. Never modify /repo (the pristine checkout; you may read /repo/include for reference) and do not read anything under /verif or /root (it is irrelevant to you and off limits).
- Build + run the test suite (offline; takes ~2 min):
    cd {wt} && cmake -S . -B _b -G Ninja -DFETCHCONTENT_SOURCE_DIR_GTEST=/usr/src/googletest -DFETCHCONTENT_FULLY_DISCONNECTED=ON >/dev/null && cmake --build _b -j4 >/dev/null && _b/test/st_gtests --gtest_brief=1 | tail -3
  (must print "[  PASSED  ] 112 tests."; the generated header st_config.h is in _b/include)
- Output directory: {out}/1/ (create it).

WHAT EACH CHANGE MUST BE
- A plausible edit a maintainer might make (an "optimisation", a refactoring, a fast path, a de-duplication, a bug "fix", a portability tweak) to files under include/ — not a sabotage comment, no dead code, no #ifdef tricks, no changes to tests. Keep it reasonably small (typically 5-60 changed lines).
- It must compile as C++20 (also keep C++11/17 compatibility as the library does) and all 112 existing tests must pass with it.
- It must break the property in a way that needs something SPECIFIC to manifest, so that ordinary use and the existing tests do not expose it: e.g. an unusual input (a particular length, size class boundary, embedded NUL, particular byte value, extreme number), a multi-step sequence of operations, a fault (exception / allocation failure) at a particular point, a particular thread interleaving, or TWO cooperating sites that each look fine on their own. The change must look like a de-duplication / code-size refactoring: a loop or a block of logic that exists in one or several places is moved into a NEW shared helper function (of a new name, possibly non-template, possibly with a slightly different parameter type or contract), or an existing routine is rewritten in another style (backward instead of forward, index instead of pointer, table instead of branches), and the callers are adapted. The break must come from the seam: a precondition of the new helper that one caller does not establish, a parameter type that converts a value on the way in, a contract that differs for one narrow family of inputs. It may not be a plain off-by-one in the main loop bound, and the failing inputs must not be the first thing one would try. You have about 15 minutes: keep it focused.
- Provide a demonstration: a single self-contained program demo.cpp (plain main(), no gtest) that exits non-zero / crashes / is flagged by the sanitizer WITH the change and exits 0 WITHOUT it. It is built like this (so it may rely on ASan/UBSan, or on -fsanitize=thread if you say so in build.txt):
    clang++ -std=c++20 -g -fsanitize=address,undefined -pthread -I<tree>/include -I{wt}/_b/include demo.cpp -o demo && ./demo
  Verify BOTH: fails against {wt}/include with your change applied, passes against /repo/include.

PROCEDURE (k = 1)
 1. Make the edit in {wt}; rebuild and run the suite (must pass 112).
 2. Write and verify the demo both ways.
 3. Save: `git -C {wt} diff > {out}/k/patch.diff`; {out}/k/demo.cpp; {out}/k/build.txt (the two exact command lines you used, and the observed exit codes); {out}/k/notes.txt whose FIRST LINE is a one-line summary of the change, followed by sections "What the change is", "Why it breaks the property", "What it needs to manifest", "Observed".
At the end leave {wt} clean (git checkout -- .) but keep the _b build directory. Reply with a 5-line summary (what, where, what it needs to manifest, suite result, demo results). Do not ask questions; make your own decisions.
"""
    open('/tmp/prompts/%s%s.txt' % (pid, tag), 'w').write(txt)
    print(pid, wt, out)
