#!/bin/sh
# usage: devtree.sh <name> <patch.diff>   creates /tmp/dev_<name> (scratch worktree of /repo HEAD with the patch applied) for iterating
# on a rule with STV_REPO=/tmp/dev_<name> STV_CACHE=/tmp/dev_<name>.cache STV_NO_EVIDENCE=1 ./bin/check Cnn -v ; remove with: devtree.sh -r <name>
if [ "$1" = "-r" ]; then git -C /repo worktree remove --force /tmp/dev_$2; rm -rf /tmp/dev_$2.cache; exit 0; fi
git -C /repo worktree remove --force /tmp/dev_$1 2>/dev/null
git -C /repo worktree add --detach -f /tmp/dev_$1 HEAD >/dev/null 2>&1 && git -C /tmp/dev_$1 apply "$(realpath $2)" && echo "STV_REPO=/tmp/dev_$1 STV_CACHE=/tmp/dev_$1.cache STV_NO_EVIDENCE=1 STV_REPLAY_DIR=/tmp/dev_$1.cache/replays"
