"""Front end: /repo's current working tree -> LLVM IR of the instantiation driver -> JSON dump.

Nothing of the library is executed.  The result is cached under /verif/.cache keyed by a hash of
every input (headers, config template, CMakeLists.txt, driver, flags, tools), so the checks share
one build but any edit to /repo forces a rebuild.
"""
import fcntl
import hashlib
import os
import re
import shutil
import subprocess
import sys
import time

VERIF = os.path.dirname(os.path.dirname(os.path.abspath(__file__)))
REPO = os.environ.get('STV_REPO', '/repo')
CACHE = os.environ.get('STV_CACHE', os.path.join(VERIF, '.cache'))
IRDUMP = os.path.join(VERIF, 'build', 'irdump')
LLVM_LIB = '/usr/lib/llvm-14/lib/libLLVM-14.so'

BASE_FLAGS = ['-DNDEBUG', '-O0', '-Xclang', '-disable-O0-optnone', '-g', '-femit-all-decls',
              '-fno-discard-value-names', '-Wno-deprecated-declarations', '-Wno-unused-value']


class FrontendError(Exception):
    pass


def ensure_irdump():
    src = os.path.join(VERIF, 'tools', 'irdump.cpp')
    if os.path.exists(IRDUMP) and os.path.getmtime(IRDUMP) >= os.path.getmtime(src):
        return
    os.makedirs(os.path.dirname(IRDUMP), exist_ok=True)
    cxxflags = subprocess.check_output(['llvm-config-14', '--cxxflags']).decode().split()
    tmp = IRDUMP + '.%d.tmp' % os.getpid()
    cmd = ['clang++'] + cxxflags + ['-O1', '-fno-rtti', src, '-o', tmp, LLVM_LIB]
    r = subprocess.run(cmd, stdout=subprocess.PIPE, stderr=subprocess.STDOUT)
    if r.returncode != 0:
        raise FrontendError('building irdump failed:\n' + r.stdout.decode(errors='replace'))
    os.replace(tmp, IRDUMP)


def make_config_h(repo):
    src = open(os.path.join(repo, 'include', 'st_config.h.in')).read()
    cm = open(os.path.join(repo, 'CMakeLists.txt')).read()
    maj = re.search(r'set\(ST_MAJOR_VERSION\s+(\d+)\)', cm)
    mnr = re.search(r'set\(ST_MINOR_VERSION\s+(\d+)\)', cm)
    if not maj or not mnr:
        raise FrontendError('cannot find ST_MAJOR_VERSION/ST_MINOR_VERSION in CMakeLists.txt')
    maj, mnr = maj.group(1), mnr.group(1)
    src = src.replace('@ST_MAJOR_VERSION@', maj).replace('@ST_MINOR_VERSION@', mnr)
    src = src.replace('@ST_VERSION@', maj + '.' + mnr)
    # every feature probe of CMakeLists.txt succeeds with the compilers of this image
    src = re.sub(r'#cmakedefine (\w+)', r'#define \1', src)
    return src


def tree_hash(repo, extra):
    h = hashlib.sha256()
    inc = os.path.join(repo, 'include')
    names = []
    for root, dirs, files in os.walk(inc):
        dirs.sort()
        for f in sorted(files):
            names.append(os.path.join(root, f))
    names.append(os.path.join(repo, 'CMakeLists.txt'))
    for p in names:
        h.update(p[len(repo):].encode())
        h.update(b'\0')
        with open(p, 'rb') as fp:
            h.update(fp.read())
        h.update(b'\0')
    for e in extra:
        h.update(e if isinstance(e, bytes) else e.encode())
        h.update(b'\0')
    return h.hexdigest()[:24]


def _prune(keep=6):
    try:
        ents = [os.path.join(CACHE, d) for d in os.listdir(CACHE) if os.path.isdir(os.path.join(CACHE, d))]
    except OSError:
        return
    ents.sort(key=lambda p: os.path.getmtime(p), reverse=True)
    for p in ents[keep:]:
        shutil.rmtree(p, ignore_errors=True)
    live = set(os.path.basename(p) for p in ents[:keep])
    for f in os.listdir(CACHE):
        if f.endswith('.lock') and f[:-5] not in live:
            try:
                os.remove(os.path.join(CACHE, f))
            except OSError:
                pass


def build(std='c++20', extra_flags=(), tu='driver.cpp', repo=None, verbose=False):
    """Returns (path of the JSON dump, info dict)."""
    repo = repo or REPO
    ensure_irdump()
    tu_path = os.path.join(VERIF, 'gen', tu)
    with open(tu_path, 'rb') as fp:
        tu_src = fp.read()
    with open(os.path.join(VERIF, 'tools', 'irdump.cpp'), 'rb') as fp:
        tool_src = fp.read()
    flags = ['-std=' + std] + list(BASE_FLAGS) + list(extra_flags)
    key = tree_hash(repo, [tu_src, tool_src, ' '.join(flags), repo])
    os.makedirs(CACHE, exist_ok=True)
    d = os.path.join(CACHE, key)
    out = os.path.join(d, 'module.jsonl')
    info = {'key': key, 'flags': flags, 'tu': tu, 'cached': True, 'repo': repo}
    if os.path.exists(out):
        os.utime(d, None)
        return out, info
    lock = open(os.path.join(CACHE, key + '.lock'), 'w')
    fcntl.flock(lock, fcntl.LOCK_EX)
    try:
        if os.path.exists(out):
            return out, info
        info['cached'] = False
        t0 = time.time()
        work = d + '.work.%d' % os.getpid()
        shutil.rmtree(work, ignore_errors=True)
        os.makedirs(os.path.join(work, 'inc'))
        with open(os.path.join(work, 'inc', 'st_config.h'), 'w') as fp:
            fp.write(make_config_h(repo))
        bc = os.path.join(work, 'tu.bc')
        cmd = ['clang++'] + flags + ['-I' + os.path.join(repo, 'include'), '-I' + os.path.join(work, 'inc'),
                                     '-emit-llvm', '-c', tu_path, '-o', bc]
        r = subprocess.run(cmd, stdout=subprocess.PIPE, stderr=subprocess.STDOUT)
        if r.returncode != 0:
            shutil.rmtree(work, ignore_errors=True)
            raise FrontendError('clang failed on the instantiation driver:\n' +
                                r.stdout.decode(errors='replace')[-6000:])
        m2r = os.path.join(work, 'tu.m2r.bc')
        r = subprocess.run(['opt-14', '-passes=function(mem2reg)', bc, '-o', m2r],
                           stdout=subprocess.PIPE, stderr=subprocess.STDOUT)
        if r.returncode != 0:
            shutil.rmtree(work, ignore_errors=True)
            raise FrontendError('opt-14 mem2reg failed:\n' + r.stdout.decode(errors='replace')[-3000:])
        r = subprocess.run([IRDUMP, m2r, os.path.join(work, 'module.jsonl')],
                           stdout=subprocess.PIPE, stderr=subprocess.STDOUT)
        if r.returncode != 0:
            shutil.rmtree(work, ignore_errors=True)
            raise FrontendError('irdump failed:\n' + r.stdout.decode(errors='replace')[-3000:])
        os.remove(bc)
        os.remove(m2r)
        shutil.rmtree(d, ignore_errors=True)
        os.rename(work, d)
        info['build_s'] = round(time.time() - t0, 2)
        _prune()
        return out, info
    finally:
        fcntl.flock(lock, fcntl.LOCK_UN)
        lock.close()


def load(std='c++20', extra_flags=(), tu='driver.cpp', repo=None):
    from . import ir
    repo = repo or REPO
    path, info = build(std=std, extra_flags=extra_flags, tu=tu, repo=repo)
    m = ir.Module(path, os.path.join(repo, 'include'))
    m.build_info = info
    return m


if __name__ == '__main__':
    p, i = build()
    print(p, i)
