"""Bit provenance of interpreter terms.

A value is described as a vector of bits (LSB first), each bit one of
   0 | 1 | ('x', symbol, i)  (bit i of a free symbol) | 'T' (unknown).
The vector is computed structurally from a Lin / its atoms: and/or/xor/shift by constants, sums of bit-disjoint
fields, truncation; anything else yields 'T' bits.  Nothing is evaluated on concrete inputs.
"""
from .terms import Lin

T = 'T'


def const_bits(c, w):
    return [(c >> i) & 1 for i in range(w)]


def sym_bits(sym, nbits, w):
    return [('x', sym, i) if i < nbits else 0 for i in range(w)]


def b_and(a, b):
    if a == 0 or b == 0:
        return 0
    if a == 1:
        return b
    if b == 1:
        return a
    if a == b:
        return a
    return T


def b_or(a, b):
    if a == 1 or b == 1:
        return 1
    if a == 0:
        return b
    if b == 0:
        return a
    if a == b:
        return a
    return T


def b_xor(a, b):
    if a == 0:
        return b
    if b == 0:
        return a
    if a in (0, 1) and b in (0, 1):
        return a ^ b
    return T


def shl(v, k, w):
    return ([0] * k + v)[:w]


def lshr(v, k, w):
    return (v[k:] + [0] * k)[:w]


def add_disjoint(a, b, w):
    """Sum of two vectors: exact when no position has two possibly-set bits; otherwise unknown from the first clash up."""
    out = []
    clash = False
    for i in range(w):
        if clash:
            out.append(T)
        elif a[i] == 0:
            out.append(b[i])
        elif b[i] == 0:
            out.append(a[i])
        else:
            clash = True
            out.append(T)
    return out


class BitEval(object):
    def __init__(self, st, symnames=None):
        self.st = st
        self.symnames = symnames or {}

    def atom_bits(self, a, w):
        if isinstance(a, str):
            lo, hi = self.st.arange(a)
            nb = max(hi, 0).bit_length() if hi < (1 << 64) else w
            return sym_bits(self.symnames.get(a, a), min(nb, w), w)
        op = a[0]
        if op == 'load':
            nm = self.symnames.get(a, a)
            lo, hi = self.st.arange(a)
            nb = a[4] if hi >= (1 << a[4]) else min(a[4], max(hi, 0).bit_length())
            return sym_bits(nm, nb, w)
        if op in ('and', 'or', 'xor'):
            x = self.lin_bits(a[1], w)
            y = const_bits(a[2], w) if isinstance(a[2], int) else self.lin_bits(a[2], w)
            f = {'and': b_and, 'or': b_or, 'xor': b_xor}[op]
            v = [f(p, q) for p, q in zip(x, y)]
            bits = a[3]
            return [v[i] if i < bits else 0 for i in range(w)]
        if op == 'lshr' and isinstance(a[2], int):
            bits = a[3]
            x = self.lin_bits(a[1], max(w + a[2], bits))
            x = [x[i] if i < bits else 0 for i in range(len(x))]
            return lshr(x, a[2], len(x))[:w]
        if op == 'ashr' and isinstance(a[2], int):
            # arithmetic shift of a possibly negative value: the low (bits - c) result bits are the operand's, the rest is sign fill
            bits = a[3]
            x = self.lin_bits_signed(a[1], bits)
            v = [x[i + a[2]] if i + a[2] < bits else x[bits - 1] for i in range(bits)]
            return (v + [x[bits - 1]] * w)[:w]
        if op == 'mod':
            x = self.lin_bits(a[1], w)
            return [x[i] if i < a[2] else 0 for i in range(w)]
        if op == 'smod':
            # the value re-read as a signed quantity of a[2] bits, in two's complement: the low bits are the operand's, the bits
            # above repeat the sign bit
            n = a[2]
            x = self.lin_bits(a[1], max(w, n))
            return [x[i] if i < n else x[n - 1] for i in range(w)]
        return [T] * w

    def lin_bits_signed(self, l, w):
        """Two's-complement bits of a term that may be negative: single atom only (else unknown)."""
        if isinstance(l, Lin) and len(l.t) == 1 and l.t[0][1] == 1 and l.c == 0:
            return self.atom_bits(l.t[0][0], w)
        lo, hi = self.st.range(l) if isinstance(l, Lin) else (l, l)
        if lo >= 0:
            return self.lin_bits(l, w)
        if isinstance(l, Lin) and l.c < 0:
            # two's complement modulo 2^w: the constant reduced, the atoms added where no carry can arise (else unknown)
            return self.lin_bits(Lin(l.c % (1 << w), l.t), w)
        return [T] * w

    def lin_bits(self, l, w):
        """Bits of a non-negative term."""
        if not isinstance(l, Lin):
            return const_bits(l, w)
        acc = const_bits(l.c % (1 << w), w) if l.c >= 0 else None
        if acc is None:
            return [T] * w
        for a, k in l.t:
            if k <= 0 or (k & (k - 1)) != 0:
                return [T] * w
            sh = k.bit_length() - 1
            v = shl(self.atom_bits(a, w), sh, w)
            acc = add_disjoint(acc, v, w)
        return acc


def fmt(v):
    out = []
    for b in reversed(v):
        if b in (0, 1):
            out.append(str(b))
        elif b == T:
            out.append('?')
        else:
            out.append('%s[%d]' % (b[1], b[2]))
    return ' '.join(out)
