#include <string_theory/char_buffer>
#include <cstdio>
#include <utility>
int main() {
    int bad = 0;
    { // move construct from a heap-sized buffer: moved-from must own its storage
        ST::char_buffer d("0123456789012345678901234", 25);
        ST::char_buffer c(std::move(d));
        if (d.c_str() == c.c_str()) { printf("move-ctor(large): moved-from shares storage with the new object\n"); bad++; }
        if (d.c_str()[d.size()] != 0) { printf("move-ctor(large): moved-from not terminated at size()\n"); bad++; }
    }
    { // move construct from a small buffer: size()==0 but c_str() still spells the old text
        ST::char_buffer b("abc", 3);
        ST::char_buffer a(std::move(b));
        if (b.c_str()[b.size()] != 0) { printf("move-ctor(small): moved-from size()=%zu but c_str()[size()]='%c'\n", b.size(), b.c_str()[b.size()]); bad++; }
    }
    { // move assign into a small target
        ST::char_buffer a("x", 1), b("0123456789012345678901234", 25);
        a = std::move(b);
        const char *p = b.c_str();
        const char *lo = reinterpret_cast<const char *>(&a), *hi = lo + sizeof(a);
        if (p >= lo && p < hi) { printf("move-assign(small<-large): moved-from data pointer lies inside the target object\n"); bad++; }
    }
    { ST::char_buffer a("x", 1), b("yz", 2);
        a = std::move(b);
        const char *p = b.c_str();
        const char *lo = reinterpret_cast<const char *>(&a), *hi = lo + sizeof(a);
        if (p >= lo && p < hi) { printf("move-assign(small<-small): moved-from data pointer lies inside the target object\n"); bad++; }
    }
    printf(bad ? "FAIL %d\n" : "OK\n", bad);
    return bad ? 1 : 0;
}
