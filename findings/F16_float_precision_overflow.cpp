// F16: ST::format("{.2147483647f}", 1.5) - the format string alone makes the library abort (ST_ASSERT at st_formatter.h:464):
// snprintf() returns -1 (EOVERFLOW: the rendering would be longer than INT_MAX) and the code asserts format_size > 0.
// Property C10: formatting either produces output or throws bad_format / out_of_range / invalid_argument / unicode_error; it never aborts.
#include <string_theory/format>
#include <csignal>
#include <cstdio>
#include <cstdlib>
static void on_abort(int) { std::puts("ABORTED (SIGABRT) - property violated"); std::_Exit(1); }
int main()
{
    std::signal(SIGABRT, on_abort);
    int rc = 0;
    const char *fmts[] = { "{.2147483647f}", "{.2147483646f}", "{.2147483647e}", "{.2147483647}" };
    for (const char *f : fmts) {
        try {
            ST::string s = ST::format(f, 1.5);
            std::printf("%s -> %zu bytes\n", f, s.size());
        } catch (const ST::bad_format &e) {
            std::printf("%s -> bad_format: %s\n", f, e.what());
        } catch (const std::bad_alloc &) {
            std::printf("%s -> bad_alloc\n", f);
        }
    }
    // ordinary precisions still render
    if (ST::format("{.3f}", 1.5) != "1.500") rc = 1;
    if (ST::format("{.70f}", 1.5).size() != 72) rc = 1;
    std::puts(rc ? "FAIL" : "ok");
    return rc;
}
