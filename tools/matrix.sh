#!/bin/sh
# usage: matrix.sh [seed-dir ...]   applies each seeded patch to /repo, runs the check of its property (and any extra listed in
# seeded/<id>/also), reverts; prints one line per seed.  Never leaves /repo modified.
cd /verif
[ $# -gt 0 ] || set -- seeded/*
for d in "$@"; do
  id=$(basename "$d"); prop=${id%%-*}
  [ -f "$d/patch.diff" ] || continue
  ( cd /repo && git apply "$OLDPWD/$d/patch.diff" ) 2>/dev/null || { echo "$id PATCH-FAILS"; continue; }
  res=""
  for p in $prop $(cat "$d/also" 2>/dev/null); do
    if grep -q "\"property_id\": \"$p\"" MANIFEST.json; then
      out=$(STV_NO_EVIDENCE=1 ./bin/check $p 2>&1); rc=$?
      res="$res $p:exit=$rc($(echo "$out" | grep -c '^VIOLATION')v,$(echo "$out" | grep -m1 'tier=' | sed 's/.*discharged, \([0-9]*\) undecided.*/\1/')u)"
    else res="$res $p:unclaimed"; fi
  done
  ( cd /repo && git checkout -- . )
  echo "$id$res"
done
