#!/usr/bin/env python3
"""Regenerate MANIFEST.json from tools/manifest_src.py (single source of truth for claims)."""
import json, os, sys
sys.path.insert(0, os.path.dirname(os.path.abspath(__file__)))
import manifest_src as S
checks = []
for pid in sorted(S.CLAIMS):
    c = S.CLAIMS[pid]
    checks.append(dict(
        property_id=pid,
        quick_cmd='./bin/check %s --tier quick' % pid,
        thorough_cmd='./bin/check %s --tier thorough' % pid,
        evidence_file='/verif/evidence/%s.json' % pid,
        replay_cmd_template='./bin/check %s --replay {path}' % pid,
        engine='stir',
        level_claimed=dict(category=c['level'], text=c['text'], design_ref=c.get('design_ref', 'DESIGN.md §4 ' + pid)),
        level_note=c['note'],
        technique=c['technique'],
    ))
props = [json.loads(l)['id'] for l in open('/verif/properties.jsonl')]
na = []
for p in props:
    if p not in S.CLAIMS:
        na.append(dict(property_id=p, reason=S.NOT_APPLICABLE.get(p, 'designed (DESIGN.md §4) but its rules are not built yet; not claimed through a weaker proxy')))
man = dict(
    version=1,
    setup_cmd=S.SETUP,
    hooks=S.HOOKS,
    engines=[dict(name='stir', path='/verif/stir', serves_properties=sorted(S.CLAIMS),
                  kind_free_text='static analysis: fact extraction, effect summaries and path-sensitive abstract interpretation over the LLVM IR of /repo (clang 14), written for this repository; no library code is executed')],
    checks=checks,
    notes=S.NOTES,
    not_applicable=na,
)
json.dump(man, open('/verif/MANIFEST.json', 'w'), indent=1)
print('wrote MANIFEST.json with', len(checks), 'checks')
