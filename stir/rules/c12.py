"""C12 - integer to text to integer is exact for every value, width and base.

R12.1 no undefined behaviour in the magnitude of negative values: no abs()/labs()/llabs() of a signed argument, no signed
      negation that can overflow (interval of the operand includes the most negative value) in any integer printer
R12.2 the printers (from_int cores, ST::format, string_stream <<) hand |value| - computed in the unsigned type - to
      uint_formatter<U>::format and emit '-' exactly for negative values
R12.3 uint_formatter<U>::format: the digit loop is a divide-by-radix countdown that writes one unit per iteration backwards from
      index `digits` of a (digits+1)-unit buffer (digits = width of U): with radix >= 2 at most `digits` iterations, so every
      store is inside the buffer; the terminator is stored; digits map to 0-9 a-z / A-Z
R12.4 the to_*(conversion_result&) siblings call the matching strto* on c_str() with the given base and set ok <=> something
      was consumed, full_match <=> everything was (pointer equality with c_str()+size()), empty string => full_match only
"""
import re

from ..interp import Interp, Hooks, Budget
from ..state import State, Obj, IntV, PtrV, NULL, MAXLEN
from ..terms import Lin, ZERO, base_atoms, eval_lin
from . import own
from .c08 import string_scene, SliceHooks
from .common import short, fn_loc, slot_subst, subst, robust, congruent

LEVEL = 'proof'
EXPLANATION = ('abstract interpretation of every integer printer with the value free over its whole type (magnitude term and sign '
               'decision compared with the oracle, signed-overflow events collected), a per-iteration summary of the digit loop plus '
               'the halving lemma for its bound, and interpretation of the seven parsing members against the ok/full_match table')

PRINTERS = [r'^ST::buffer<char> _ST_PRIVATE::mini_format_int_s<([\w ]+)>\(int, bool, \1\)$',
            r'^void _ST_PRIVATE::format_numeric_s<([\w ]+)>\(ST::format_spec const&, ST::format_writer&, \1\)$',
            r'^ST::string_stream::operator<<\((int|long|long long)\)$']


def _through_casts(f, v, insts):
    """The parameter index an operand is, looking through width conversions; None otherwise."""
    for _ in range(6):
        if not (isinstance(v, list) and v and v[0] == 'v'):
            return None
        if v[1] < len(f.params):
            return v[1]
        i = insts.get(v[1])
        if i is None or i.op not in ('zext', 'sext', 'trunc') or not i.a:
            return None
        v = i.a[0]
    return None


_GEN_CACHE = {}


def digit_generator(m, name):
    """A library function is a digit generator when it holds the divide-by-radix countdown itself: a loop-carried value X that starts as
    an integer parameter `value`, with X % r and X / r computed for one parameter r, and a one-unit store.  Returns
    (index of value, index of the radix, width of value) or None.  Recognised by the shape of the loop, not by name, so that a
    generator extracted into a helper of any name is one (uint_formatter<U>::format is the library's own instance)."""
    key = (id(m), name)
    if key in _GEN_CACHE:
        return _GEN_CACHE[key]
    r = None
    if m.has(name):
        f = m.func(name)
        insts = dict((i.id, i) for i in f.all_insts())
        divs = [i for i in insts.values() if i.op == 'udiv' and len(i.a) == 2]
        rems = [i for i in insts.values() if i.op == 'urem' and len(i.a) == 2]
        bytestore = any(i.op == 'store' and i.d.get('size') == 1 for i in insts.values())
        for dv in divs:
            x = dv.a[0]
            if not (isinstance(x, list) and x[0] == 'v' and x[1] in insts and insts[x[1]].op == 'phi'):
                continue
            rp = _through_casts(f, dv.a[1], insts)
            if rp is None or not bytestore:
                continue
            if not any(rm.a[0] == x and _through_casts(f, rm.a[1], insts) == rp for rm in rems):
                continue
            phi = insts[x[1]]
            srcs = [_through_casts(f, inc[0], insts) for inc in phi.d.get('inc', [])]
            vp = [k for k in srcs if k is not None and k != rp]
            if len(vp) == 1 and f.params[vp[0]]['ty'].startswith('i') and f.params[vp[0]]['ty'][1:].isdigit():
                r = (vp[0], rp, int(f.params[vp[0]]['ty'][1:]))
                break
    _GEN_CACHE[key] = r
    return r


class PrintHooks(Hooks):
    max_depth = 8

    def __init__(self, m):
        self.m = m

    def should_inline(self, I, name, fn):
        d = fn.dem
        return not ('format_numeric_string' in d or d.startswith('ST::string_stream::append') or 'ST::buffer<char>::allocate' in d)

    def on_store(self, I, st, inst, p, v, nbytes):
        if nbytes == 1:
            st.ev('byte-store', inst)

    def call(self, I, st, inst, name, args):
        if name is None:
            return None
        d = self.m.dem(name)
        if re.match(r'^ST::uint_formatter<[\w ]+>::format\(', d):
            st.ev('magnitude', inst, args[1], args[2] if len(args) > 2 else None, d)
            return [(st, None)]
        gen = digit_generator(self.m, name) if name in I.F.libset else None
        if gen is not None and isinstance(args[gen[0]], IntV):
            # a digit generator of another name (the countdown extracted into a helper): the operand it renders is the magnitude
            st.ev('magnitude', inst, args[gen[0]], args[gen[1]], d)
            fn = self.m.func(name)
            for a in args:
                if isinstance(a, PtrV) and a.obj is not None and not a.off.t and fn.ret and fn.ret.endswith('*'):
                    # digits are written backwards from this position: what lies in front of it inside the object is the room
                    st.ev('gen-room', inst, a.off.c, args[gen[0]], a.obj)
            if fn.ret and fn.ret.endswith('*'):
                # it returns the position of the first digit: 1..width places in front of some pointer it was given
                ps = [a for a in args if isinstance(a, PtrV) and a.obj is not None]
                if len(ps) == 1:
                    n = I.fresh_int(st, 64, 'ndig', lo=1, hi=gen[2])
                    return [(st, PtrV(ps[0].obj, ps[0].off - n.lin))]
                return [(st, I.fresh_for_type(st, inst.ty, 'fmt'))]
            return [(st, None if inst.ty == 'void' else I.fresh_for_type(st, inst.ty, 'fmt'))]
        if d.startswith('ST::string_stream::append_char('):
            st.ev('emit-char', inst, args[1])
            return [(st, args[0])]
        if d.startswith('_ST_PRIVATE::format_numeric_string('):
            st.ev('ntype', inst, args[4] if len(args) > 4 else None)
            return [(st, None)]
        if re.match(r'^ST::uint_formatter<[\w ]+>::(text|size)\(\) const', d):
            return [(st, I.fresh_for_type(st, inst.ty, 'fmt'))]
        return None


def short_path(I, s2, val, radix, signed=True):
    """A returning path that never calls the digit generator: the characters it can have written (single-byte stores, bounded
    copies, single appends) against the number of characters the value needs in the radix.  A finding text with a witness, or None
    (nothing shown: the path may be a correct special case, or writes through something not counted)."""
    if [e for e in s2.events if e[0] in ('ntype',)]:
        return None
    room = 0
    for e in s2.events:
        if e[0] in ('byte-store', 'emit-char'):
            room += 1
        elif e[0] == 'copy':
            hi = s2.range(e[4])[1] if isinstance(e[4], Lin) else None
            if hi is None or hi > 64:
                return None
            room += hi

    def needs(v, r):
        if r < 2:
            return 0
        n_, a = (1 if v < 0 else 0), abs(v)
        while True:
            n_ += 1
            a //= r
            if a == 0:
                return n_
    vl = I.as_s(s2, val) if signed else I.as_u(s2, val)
    env = s2.find_model([vl, radix.lin], lambda v: needs(v[0], v[1]) > room)
    if env is None:
        return None
    v0, r0 = eval_in(env, vl), eval_in(env, radix.lin)
    return ('a path renders the value without the digit generator and writes at most %d character(s), but value %d in radix %d needs %d; '
            'witness %s' % (room, v0, r0, needs(v0, r0), own.fmt_env(env)))


def eval_in(env, lin):
    from ..terms import eval_lin
    try:
        return eval_lin(lin, env)
    except KeyError:
        return 0


def printers(run, m, F, E):
    n = 0
    nt = m.enums.get('_ST_PRIVATE::numeric_type', {})
    for name in F.lib:
        f = m.func(name)
        if not any(re.match(p, f.dem) for p in PRINTERS):
            continue
        n += 1
        # the signed value is the last integer parameter
        vk = max(k for k, p in enumerate(f.params) if p['ty'].startswith('i') and p['ty'][1:].isdigit() and p['ty'] != 'i1')
        bits = int(f.params[vk]['ty'][1:])
        I = Interp(m, F, E, PrintHooks(m))
        st = State()
        args = []
        val = None
        radix = None
        for k, p in enumerate(f.params):
            ty = p['ty']
            if k == vk:
                val = I.fresh_int(st, bits, 'value', signed=True)
                args.append(val)
            elif ty == 'i32' and k < len(f.argnames) and f.argnames[k] == 'radix':
                radix = I.fresh_int(st, 32, 'radix', lo=2, hi=36)
                args.append(radix)
            elif ty.endswith('*'):
                args.append(I.fresh_ptr(st, 'p%d' % k))
            elif ty == 'i1':
                args.append(I.fresh_int(st, 1, 'flag'))
            else:
                args.append(I.fresh_int(st, int(ty[1:]) if ty[1:].isdigit() else 32, 'a%d' % k, lo=2, hi=36))
        outs = I.run(I.start(f, args, st))
        problems, und = [], []
        for o in outs:
            s2 = o.st
            for e in s2.events:
                if e[0] == 'nsw-overflow?':
                    env = s2.find_model([e[2]], lambda v, b=e[3]: not (-(1 << (b - 1)) <= v[0] < (1 << (b - 1))))
                    problems.append('signed arithmetic at line %d can overflow (undefined behaviour)%s' %
                                    (e[1].line, '; witness ' + own.fmt_env(env) if env else ''))
                elif e[0] == 'abs':
                    problems.append('abs() of a signed value at line %d: undefined for the most negative value' % e[1].line)
            if o.kind not in ('ret',):
                if o.kind == 'abort' and o.info and o.info[0] == 'assert' and str(o.info[1]).startswith('Invalid digit class'):
                    continue
                if o.kind == 'throw':
                    continue
                und.append('path ends in %s' % o.kind)
                continue
            mg = [e for e in s2.events if e[0] == 'magnitude']
            if not mg and radix is not None:
                # a rendering made without the digit generator (a fast path): it cannot hold more characters than the path writes
                r = short_path(I, s2, val, radix)
                if r is not None:
                    problems.append(r)
                    continue
            if len(mg) != 1:
                und.append('%d magnitude calls' % len(mg))
                continue
            mv = mg[0][2]
            for e in s2.events:
                if e[0] == 'gen-room' and isinstance(e[3], IntV) and radix is not None:
                    # the generator is handed a position inside a buffer of the caller: in radix 2 it writes one unit per bit
                    mlr = I.as_u(s2, e[3])
                    env = s2.find_model([mlr, radix.lin], lambda v, room=e[2]: v[1] == 2 and v[0].bit_length() > room)
                    if env is not None:
                        problems.append('the digit generator called at line %d writes backwards from offset %d of %s: magnitude %d in radix 2 needs '
                                        '%d units, %d are in front of that position; witness %s' %
                                        (e[1].line, e[2], e[4].split('#')[0], eval_in(env, mlr), eval_in(env, mlr).bit_length(), e[2], own.fmt_env(env)))
            neg = s2.is_ge0(-val.lin - 1)
            if neg is None:
                und.append('path does not decide the sign of the value')
                continue
            want = -val.lin if neg else val.lin
            if not isinstance(mv, IntV):
                und.append('magnitude operand not tracked')
                continue
            ml = I.as_u(s2, mv)
            r = s2.is_eq0(ml - want)
            if r is not True:
                env = s2.find_model([ml - want], lambda v: v[0] != 0)
                if r is False or env is not None:
                    problems.append('magnitude handed to the digit generator is %r, expected |value| = %r%s' % (ml, want, '; witness ' + own.fmt_env(env) if env else ''))
                else:
                    und.append('magnitude %r vs %r not decided' % (ml, want))
            # sign
            minus = [e for e in s2.events if e[0] == 'emit-char']
            ntype = [e for e in s2.events if e[0] == 'ntype']
            if 'string_stream' in f.dem:
                has_minus = any(isinstance(e[2], IntV) and not e[2].lin.t and e[2].lin.c == 0x2D for e in minus)
                if has_minus != neg:
                    problems.append("'-' %s for a %s value" % ('emitted' if has_minus else 'missing', 'negative' if neg else 'non-negative'))
            elif ntype:
                tv = ntype[0][2]
                if isinstance(tv, IntV) and not tv.lin.t:
                    zero = s2.is_eq0(val.lin)
                    want_t = nt.get('numeric_negative') if neg else (nt.get('numeric_zero') if zero is True else nt.get('numeric_positive') if zero is False else None)
                    if want_t is not None and tv.lin.c != want_t:
                        problems.append('numeric_type %d passed on for a %s value' % (tv.lin.c, 'negative' if neg else 'non-negative'))
        if problems:
            run.ob('R12.1' if 'overflow' in problems[0] or 'abs()' in problems[0] else 'R12.2', short(f.dem), False, problems[0], loc=fn_loc(f), disc='printer')
        elif und:
            run.ob('R12.2', short(f.dem), None, und[0], loc=fn_loc(f), disc='printer')
        else:
            run.ob('R12.2', short(f.dem), True, '|value| computed without signed overflow reaches uint_formatter::format; sign handled (%d paths)' % len(outs), disc='printer')
    # static: no abs family call on any path of library code
    na = 0
    for name in F.lib:
        f = m.func(name)
        for (i, ts, k) in F.calls[name]:
            for t in ts:
                if t in ('abs', 'labs', 'llabs', 'imaxabs') or m.dem(t).startswith('std::abs('):
                    na += 1
                    run.ob('R12.1', short(f.dem), False, 'calls %s: undefined for the most negative value of its type' % m.dem(t), loc=f.loc(i), disc='abs@%d' % i.id)
    run.ob('R12.1', 'no abs()/labs()/llabs() in library code', na == 0, '%d library functions scanned' % len(F.lib))
    return n


class IterHooks(Hooks):
    unroll = 0
    widen_on_entry = True
    max_depth = 4

    def on_store(self, I, st, inst, p, v, nbytes):
        if p.obj == 'FMTR':
            st.ev('fmt-store', inst, p.off, nbytes, v)


def digit_loop(run, m, F, E):
    n = 0
    for name in F.lib:
        f = m.func(name)
        mt = re.match(r'^ST::uint_formatter<([\w ]+)>::format\(\1, int, bool\)$', f.dem)
        if not mt:
            continue
        n += 1
        bits = int(f.params[1]['ty'][1:])
        sn = re.match(r'%"?([^"*]+)"?\*', f.params[0]['ty']).group(1)
        lay = m.structs.get(sn)
        problems, und, need_exact = [], [], []
        arr = re.match(r'\[(\d+) x i8\]', lay['fields'][0][0]) if lay else None
        if not arr:
            run.ob('R12.3', short(f.dem), None, 'formatter layout not recognised', loc=fn_loc(f))
            continue
        cap = int(arr.group(1))
        if cap < bits + 1:
            problems.append('buffer of %d units cannot hold %d binary digits and a terminator' % (cap, bits))
        I = Interp(m, F, E, IterHooks())
        st = State()
        obj = Obj('ext', Lin.const(lay['size']))
        obj.lazy = True
        st.objs['FMTR'] = obj
        val = I.fresh_int(st, bits, 'value')
        radix = I.fresh_int(st, 32, 'radix', lo=2, hi=36)
        up = I.fresh_int(st, 1, 'upper')
        outs = I.run(I.start(f, [PtrV('FMTR'), val, radix, up], st))
        nb = 0
        start_cell = lay['fields'][1][1]
        for o in outs:
            s2 = o.st
            for e in s2.events:
                if e[0] == 'oob':
                    problems.append('access outside %s at line %d' % ('the formatter object' if isinstance(e[3], PtrV) and e[3].obj == 'FMTR' else 'an object', e[1].line))
                elif e[0] == 'oob?' and isinstance(e[3], PtrV) and e[3].obj is not None and e[3].obj.startswith('G:'):
                    # (stores into the formatter's own buffer at the widened write position are bounded by the halving lemma, see below)
                    env = e[6] if len(e) > 6 else None
                    if env is not None and not robust([e[3].off]):
                        need_exact.append(e[1].line)
                    if env is not None and robust([e[3].off]):
                        problems.append('%s of %r byte(s) at offset %r of %s (size %r) at line %d; witness %s' % (
                            e[2], e[4], e[3].off, 'the formatter buffer' if e[3].obj == 'FMTR' else 'a constant table', e[5], e[1].line, own.fmt_env(env)))
                    else:
                        und.append('bounds of the access at line %d not decided' % e[1].line)
                        need_exact.append(e[1].line)
            if o.kind == 'ret' and not [e for e in s2.events if e[0] == 'widen']:
                # a path that returns without entering the digit loop (zero, or a fast path): the digits it stored must be
                # enough for the value in the radix
                room = len([e for e in s2.events if e[0] == 'fmt-store' and e[3] == 1 and
                            not (isinstance(e[4], IntV) and not e[4].lin.t and e[4].lin.c == 0)])

                def needs(v, r):
                    n_ = 0
                    while True:
                        n_ += 1
                        v //= max(r, 2)
                        if v == 0:
                            return n_
                env = s2.find_model([I.as_u(s2, val), radix.lin], lambda v: needs(v[0], v[1]) > room)
                if env is not None:
                    v0, r0 = eval_in(env, I.as_u(s2, val)), eval_in(env, radix.lin)
                    problems.append('a path that skips the digit loop stores %d digit(s), but value %d in radix %d needs %d; witness %s' %
                                    (room, v0, r0, needs(v0, r0), own.fmt_env(env)))
                # ... and the last of them (the unit in front of the terminator) is the character of value % radix in the requested case
                dst = [e for e in s2.events if e[0] == 'fmt-store' and e[3] == 1 and isinstance(e[4], IntV) and
                       not (not e[4].lin.t and e[4].lin.c == 0) and not e[2].t and e[2].c == bits - 1]
                if len(dst) == 1 and env is None:
                    dvl = dst[0][4].lin

                    def wrong(v):
                        d_ = v[0] % max(v[1], 2)
                        exp_c = 0x30 + d_ if d_ < 10 else (0x41 if v[2] & 1 else 0x61) + d_ - 10
                        return (v[3] & 0xFF) != exp_c
                    env2 = s2.find_model([I.as_u(s2, val), radix.lin, up.lin, dvl], wrong)
                    if env2 is not None:
                        v0, r0, u0 = eval_in(env2, I.as_u(s2, val)), eval_in(env2, radix.lin), eval_in(env2, up.lin)
                        c0 = eval_in(env2, dvl)
                        d0 = v0 % r0
                        problems.append('a path that skips the digit loop renders the digit %d (value %d, radix %d, %s case) as %r, expected %r; witness %s' %
                                        (d0, v0, r0, 'upper' if u0 & 1 else 'lower', chr(c0 & 0xFF),
                                         chr(0x30 + d0 if d0 < 10 else (0x41 if u0 & 1 else 0x61) + d0 - 10), own.fmt_env(env2)))
            if o.kind == 'backedge':
                nb += 1
                lf = o.info[0] if o.info else f.name       # the function holding the loop (the formatter itself, or a helper it calls)
                b = s2.flags.get('wbegin:' + lf) or {}
                e2 = s2.flags.get('wend:' + lf) or {}
                wi = max([k for k, e in enumerate(s2.events) if e[0] == 'widen' and e[1] == lf] or [-1])
                # the digit stored in this iteration: one unit of the buffer, one place in front of the next iteration's
                # (by position - the loop may keep a pointer into the buffer or an index)
                digs = [e for e in s2.events[wi + 1:] if e[0] == 'fmt-store' and e[3] == 1]
                if not digs and o.info:
                    continue            # a loop of the function that stores no digit (e.g. one that derives a shift from the radix)
                if len(digs) != 1:
                    und.append('an iteration stores %d units into the buffer, expected one digit' % len(digs))
                else:
                    # the character stored: '0'+d for d < 10, else 'a'/'A' + (d - 10), with d = value % radix - decided by finite case
                    # analysis over the digit value (0..35) and the case flag on this path
                    dv = digs[0][4]
                    def top_atoms(l, acc):
                        # atoms of a term, looking through width adjustments (mod / smod) but not into arithmetic
                        for a_, k_ in l.t:
                            if isinstance(a_, tuple) and a_[0] in ('mod', 'smod') and isinstance(a_[1], Lin):
                                top_atoms(a_[1], acc)
                            else:
                                acc.append(a_)
                        return acc
                    tops = top_atoms(dv.lin, []) if isinstance(dv, IntV) else []
                    rem = [a for a in tops if isinstance(a, tuple) and a[0] == 'urem']
                    if isinstance(dv, IntV) and len(rem) == 1 and rem[0][2] == I.as_u(s2, radix):
                        others = [a for a in tops if a != rem[0]]
                        ua = up.lin.single_atom()[0] if up.lin.single_atom() else None
                        if all(a == ua for a in others):
                            lo_d, hi_d = s2.arange(rem[0])
                            ulo, uhi = s2.arange(ua) if ua is not None else (0, 0)
                            bad_d = None
                            for d_ in range(max(lo_d, 0), min(hi_d, 35) + 1):
                                for u_ in range(ulo, uhi + 1):
                                    env_ = {rem[0]: d_}
                                    if ua is not None:
                                        env_[ua] = u_
                                    try:
                                        got_c = eval_lin(dv.lin, env_) & 0xFF
                                    except KeyError:
                                        got_c = None
                                    exp_c = 0x30 + d_ if d_ < 10 else (0x41 if u_ else 0x61) + d_ - 10
                                    if got_c is not None and got_c != exp_c and bad_d is None:
                                        bad_d = (d_, u_, got_c, exp_c)
                            if bad_d is not None:
                                problems.append('digit value %d (%s case) is stored as %r, expected %r' % (bad_d[0], 'upper' if bad_d[1] else 'lower', chr(bad_d[2]), chr(bad_d[3])))
                        else:
                            und.append('the stored digit character depends on more than the digit value and the case flag')
                    elif isinstance(dv, IntV):
                        und.append('the stored digit character is not a function of value % radix that the rule recognises')
                    q = digs[0][2]
                    qn = subst(q, slot_subst(b, e2))
                    if qn is None:
                        und.append('the position of the next digit is not expressible over the loop-carried values')
                    elif s2.is_eq0(qn - q + 1) is not True:
                        d = qn - q
                        env = s2.find_model([d + 1], lambda v: v[0] != 0) if robust([d]) else None
                        if env is not None or not d.t:
                            problems.append('the next digit is stored %r places from this one, expected one place in front (-1)' % (d,))
                        else:
                            und.append('distance to the next digit (%r) not decided' % (d,))
                # the value: some carried slot of the value's width becomes value / radix, and the body runs only for value != 0
                cands = [(bv, e2.get(nm)) for nm, bv in b.items() if isinstance(bv, IntV) and isinstance(e2.get(nm), IntV) and bv.bits >= bits]
                good = None
                for bv, ev in cands:
                    at = ev.lin.single_atom()
                    if at is not None and isinstance(at[0], tuple) and at[0][0] == 'udiv' and at[0][1] == I.as_u(s2, bv) and at[0][2] == I.as_u(s2, radix):
                        good = bv
                if good is None:
                    und.append('no carried value recognised as value := value / radix (carried: %s)' % ', '.join(repr(ev) for bv, ev in cands)[:120])
                elif good.bits > bits and s2.is_ge0(Lin.const((1 << bits) - 1) - I.as_u(s2, good)) is not True:
                    und.append('the countdown runs over a %d-bit value; that it stays below 2^%d (at most %d digits) is not established' % (good.bits, bits, bits))
                elif s2.is_ge0(I.as_u(s2, good) - 1) is not True:
                    env = s2.find_model([I.as_u(s2, good)], lambda v: v[0] == 0)
                    if env is not None:
                        problems.append('the loop body runs although the value may be zero; witness %s' % own.fmt_env(env))
                    else:
                        und.append('the body is not decided to run only for a non-zero value (a loop tested at the bottom?)')
        if need_exact and not problems:
            # a table over-read seen in the abstraction of the loop: confirmed (or not) on an exactly interpreted prefix of the
            # loop, where every value is a function of the inputs alone
            class XH(IterHooks):
                unroll = 6          # enough for a preparatory loop over the bits of the radix (radix <= 36) to run to completion
                widen_on_entry = False
                stop_at_widen = True
            IX = Interp(m, F, E, XH())
            stx = State()
            objx = Obj('ext', Lin.const(lay['size']))
            objx.lazy = True
            stx.objs['FMTR'] = objx
            vx = IX.fresh_int(stx, bits, 'value')
            rx = IX.fresh_int(stx, 32, 'radix', lo=2, hi=36)
            ux = IX.fresh_int(stx, 1, 'upper')
            try:
                outsx = IX.run(IX.start(f, [PtrV('FMTR'), vx, rx, ux], stx))
            except Exception:
                outsx = []
            for ox in outsx:
                for e in ox.st.events:
                    if e[0] in ('oob', 'oob?') and isinstance(e[3], PtrV) and e[3].obj is not None and e[3].obj.startswith('G:'):
                        env = e[6] if len(e) > 6 else None
                        if (e[0] == 'oob' or env is not None) and robust([e[3].off]) and not problems:
                            problems.append('%s of %r byte(s) at offset %r of a constant table of %r bytes at line %d%s' % (
                                e[2], e[4], e[3].off, e[5], e[1].line, '; witness ' + own.fmt_env(env) if env else ''))
            if problems:
                und = [u for u in und if not u.startswith('bounds of the access')]
        if nb == 0:
            und.append('no loop iteration explored')
        run.ob('R12.3', short(f.dem), False if problems else (None if und else True), problems[0] if problems else und[0] if und else
               'divide-by-radix countdown, one unit backwards per iteration from index %d of a %d-unit buffer: at most %d iterations for radix >= 2' % (bits, cap, bits),
               loc=fn_loc(f), disc='digit loop')
        # entry: start position and terminator
        I2 = Interp(m, F, E, Hooks())
        st2 = State()
        obj2 = Obj('ext', Lin.const(lay['size']))
        obj2.lazy = True
        st2.objs['FMTR'] = obj2
        outs2 = I2.run(I2.start(f, [PtrV('FMTR'), IntV(bits, ZERO, 'u'), IntV(32, Lin.const(10), 'u'), IntV(1, ZERO, 'u')], st2))
        ok = False
        for o in outs2:
            if o.kind == 'ret':
                c = o.st.objs['FMTR'].cells
                term = c.get(bits)
                sp = c.get(start_cell)
                zero = c.get(bits - 1)
                ok = term is not None and isinstance(term[1], IntV) and term[1].lin == ZERO and sp is not None and isinstance(sp[1], PtrV) and \
                    sp[1].obj == 'FMTR' and sp[1].off == Lin.const(bits - 1) and zero is not None and isinstance(zero[1], IntV) and zero[1].lin == Lin.const(0x30)
        run.ob('R12.3', short(f.dem), ok, 'value 0 renders as "0" ending at index %d with the terminator stored' % bits if ok else
               'for value 0 the text does not end at index %d with a terminator' % bits, loc=fn_loc(f), disc='zero / terminator')
    return n


STRTO = {'to_long': 'strtol', 'to_ulong': 'strtoul', 'to_long_long': 'strtoll', 'to_ulong_long': 'strtoull',
         'to_int': 'strtol', 'to_uint': 'strtoul', 'to_float': 'strtof', 'to_double': 'strtod'}


def parsers(run, m, F, E, floats=False):
    L = own.buffer_layout(m, 'char')
    n = 0
    for name in F.lib:
        f = m.func(name)
        mt = re.match(r'^ST::string::(to_\w+)\(ST::conversion_result&(, int)?\) const$', f.dem)
        if not mt or mt.group(1) not in STRTO:
            continue
        if (mt.group(1) in ('to_float', 'to_double')) != floats:
            continue
        # wrappers that narrow (to_int / to_uint) delegate to to_long / to_ulong: judged through their callee
        delegates = [m.dem(t) for (i, ts, k) in F.calls[name] for t in ts if re.match(r'^ST::string::to_\w+\(ST::conversion_result&', m.dem(t))]
        n += 1
        want = STRTO[mt.group(1)]
        if delegates:
            tgt = delegates[0].split('(')[0].split('::')[-1]
            same = STRTO.get(tgt) == want
            run.ob('R12.4', short(f.dem), same, 'delegates to %s (same %s family)' % (tgt, want) if same else
                   'delegates to %s, which parses with %s instead of %s: the value is rounded twice' % (tgt, STRTO.get(tgt), want), disc='delegate', loc=fn_loc(f))
            continue
        problems, und = [], []
        for cls in ('small', 'large'):
            I = Interp(m, F, E, SliceHooks(m))
            st = State()
            this, ret, entry = string_scene(I, st, L, cls, with_ret=False)
            res = Obj('ext', Lin.const(4))
            res.lazy = True
            st.objs['RES'] = res
            args = [PtrV(this), PtrV('RES')]
            base = None
            if mt.group(2):
                base = I.fresh_int(st, 32, 'base', hi=36)
                args.append(base)
            outs = I.run(I.start(f, args, st))
            s = entry['size']
            for o in outs:
                if o.kind != 'ret':
                    if o.kind != 'abort':
                        problems.append('path ends in %s' % o.kind)
                    continue
                s2 = o.st
                fl = s2.objs['RES'].cells.get(0)
                if fl is None or not isinstance(fl[1], IntV) or fl[1].lin.t:
                    und.append('flags not a constant on this path')
                    continue
                flags = fl[1].lin.c
                calls = [e for e in s2.events if e[0] == 'strto']
                if s2.is_eq0(s) is True:
                    if calls or flags != 2:
                        problems.append('empty string: flags %d%s, expected full_match only without parsing' % (flags, ' after calling strto*' if calls else ''))
                    continue
                if len(calls) != 1:
                    problems.append('%d strto* calls' % len(calls))
                    continue
                _, inst, which, sp = calls[0]
                if which != want:
                    problems.append('parses with %s, expected %s' % (which, want))
                if not (isinstance(sp, PtrV) and sp.obj == entry['storage'].obj and s2.is_eq0(sp.off - entry['storage'].off) is True):
                    problems.append('strto* is not given c_str()')
                if base is not None and inst.a[2] != ['v', 2]:
                    problems.append('the base argument is not handed to %s' % which)
                j = [a for a in s2.rng if isinstance(a, str) and a.startswith('j#')]
                if len(j) != 1:
                    und.append('end position not tracked')
                    continue
                jl = Lin.atom(j[0])
                ok_bit, full_bit = bool(flags & 1), bool(flags & 2)
                # ok <=> j != 0 ; full <=> j == size
                c_ok = s2.is_eq0(jl)
                if ok_bit and c_ok is not False:
                    env = s2.find_model([jl], lambda v: v[0] == 0)
                    problems.append('ok is set on a path where nothing need have been consumed%s' % ('; witness ' + own.fmt_env(env) if env else ''))
                if not ok_bit and c_ok is not True:
                    problems.append('ok is clear although characters may have been consumed')
                c_full = s2.is_eq0(jl - s)
                if full_bit and c_full is not True:
                    env = s2.find_model([jl - s], lambda v: v[0] != 0)
                    problems.append('full_match is set although parsing may have stopped before the end%s' % ('; witness ' + own.fmt_env(env) if env else ''))
                if not full_bit and c_full is not False:
                    problems.append('full_match is clear although the whole string may have been consumed')
        if problems:
            run.ob('R12.4', short(f.dem), False, problems[0], loc=fn_loc(f), disc='flags')
        elif und:
            run.ob('R12.4', short(f.dem), None, und[0], loc=fn_loc(f), disc='flags')
        else:
            run.ob('R12.4', short(f.dem), True, '%s on c_str(); ok <=> consumed > 0; full_match <=> consumed == size(); empty => full_match' % want, disc='flags')
    return n


def plain_parsers(run, m, F, floats=False):
    """to_*() overloads without conversion_result: the matching strto* (or a member of the same family) on c_str()."""
    n = 0
    for name in F.lib:
        f = m.func(name)
        mt = re.match(r'^ST::string::(to_\w+)\((int)?\) const$', f.dem)
        if not mt or mt.group(1) not in STRTO:
            continue
        if (mt.group(1) in ('to_float', 'to_double')) != floats:
            continue
        n += 1
        want = STRTO[mt.group(1)]
        callees = [m.dem(t).split('(')[0] for (i, ts, k) in F.calls[name] for t in ts]
        direct = [c for c in callees if c in STRTO.values()]
        deleg = [c.split('::')[-1] for c in callees if c.startswith('ST::string::to_')]
        ok = direct == [want] or (not direct and len(deleg) == 1 and STRTO.get(deleg[0]) == want)
        if not ok:
            # through private helpers: what matters is which strto* primitives the member can reach at all
            reach = set(m.dem(t).split('(')[0] for t in F.reachable_from([name]) if t != name)
            prims = sorted(r for r in reach if r in STRTO.values())
            if prims == [want]:
                run.ob('R12.4', short(f.dem), True, 'reaches %s only (through %s)' % (want, ', '.join(sorted(c.split('::')[-1] for c in callees if c.startswith('ST::string::'))[:2]) or 'helpers'),
                       disc='plain', loc=fn_loc(f))
                continue
            if want in prims or not prims:
                run.ob('R12.4', short(f.dem), None, 'does not call %s directly; reaches %s: not decided which one parses this member\'s text' % (want, prims or 'no strto* primitive'),
                       disc='plain', loc=fn_loc(f))
                continue
        run.ob('R12.4', short(f.dem), ok, 'parses with %s' % want if ok else 'expected %s on c_str(), found %s' % (want, direct + deleg), disc='plain', loc=fn_loc(f))
    return n


def narrowing_wrappers(run, m, F, E):
    """R12.5: to_short / to_int / to_ushort / to_uint (with and without conversion_result) return the value their wide sibling
    parsed, converted to the narrow type - nothing else.  The wide member is a symbol L over its whole range; every returning path
    must return L modulo 2^width (what static_cast does).  A result that also depends on anything else - errno left behind by an
    earlier call, say - comes with a witness."""
    n = 0
    for name in F.lib:
        f = m.func(name)
        mt = re.match(r'^ST::string::to_(short|int|ushort|uint)\((int|ST::conversion_result&, int)\) const$', f.dem)
        if not mt:
            continue
        n += 1
        bits = int(f.ret[1:]) if f.ret[1:].isdigit() else None
        if bits is None:
            run.ob('R12.5', short(f.dem), None, 'return type %s not an integer' % f.ret, loc=fn_loc(f))
            continue

        class NH(Hooks):
            max_depth = 6

            def __init__(self, mm):
                self.m = mm

            def call(self, I, st, inst, nm, args):
                if nm is None:
                    return None
                d = self.m.dem(nm)
                if re.match(r'^ST::string::to_u?long(_long)?\(', d):
                    v = I.fresh_int(st, 64, 'wide', signed=not d.startswith('ST::string::to_u'))
                    st.ev('wide', inst, d.split('(')[0], v)
                    return [(st, v)]
                if d == '__errno_location':
                    if 'ERRNO' not in st.objs:
                        o = Obj('ext', Lin.const(4))
                        o.lazy = True
                        st.objs['ERRNO'] = o
                    return [(st, PtrV('ERRNO'))]
                return None
        I = Interp(m, F, E, NH(m))
        st = State()
        this = Obj('ext', None)
        this.lazy = True
        st.objs['THIS'] = this
        args = [PtrV('THIS')]
        for p in f.params[1:]:
            if p['ty'].endswith('*'):
                r = Obj('ext', None)
                r.lazy = True
                st.objs['RES'] = r
                args.append(PtrV('RES'))
            else:
                args.append(I.fresh_int(st, int(p['ty'][1:]), 'base', lo=0, hi=36))
        try:
            outs = I.run(I.start(f, args, st))
        except Exception as e:
            run.ob('R12.5', short(f.dem), None, 'not interpreted: %s' % (str(e)[:70],), loc=fn_loc(f))
            continue
        probs, und, nret = [], [], 0
        for o in outs:
            if o.kind != 'ret' or not isinstance(o.val, IntV):
                continue
            nret += 1
            s2 = o.st
            wd = [e for e in s2.events if e[0] == 'wide']
            if len(wd) != 1:
                und.append('%d calls of a wide parsing member on a returning path' % len(wd))
                continue
            L_ = I.as_u(s2, wd[0][3])
            R_ = I.as_u(s2, o.val)
            M = 1 << bits
            env = s2.find_model([L_, R_], lambda v: (v[0] - v[1]) % M != 0)
            if env is not None:
                from ..terms import eval_lin
                probs.append('returns a value that is not the narrowed result of %s (e.g. %d for a wide result of %d): it depends on something '
                             'besides the text parsed; witness %s' % (wd[0][2].split('::')[-1], eval_lin(R_, env) % M, eval_lin(L_, env), own.fmt_env(env)))
            elif s2.is_eq0(L_ - R_) is not True and not congruent(s2, L_, R_, bits):
                und.append('result %r not decided to be the narrowed wide result %r' % (R_, L_))
        if nret == 0 and not probs:
            und.append('no returning path explored')
        run.ob('R12.5', short(f.dem), False if probs else (None if und else True), probs[0] if probs else (und[0] if und else
               'returns the wide result converted to %d bits on every path' % bits), loc=fn_loc(f), disc='narrowing')
    return n


def check(run):
    m = run.module()
    F = run.facts()
    E = run.effects()
    run.trust('clang 14 lowering (LLVM IR, -O0, mem2reg)', 'STIR interpreter; model of strto* (end = start + j, 0 <= j <= distance to the NUL)',
              'arithmetic lemma: repeated division by a radix >= 2 reaches 0 in at most bit-width steps')
    run.assume('bases 2..36 (the property\'s range); what strto* returns and that division yields the right digits is libc / arithmetic, not analysed')
    run.floor('signed integer printers', printers(run, m, F, E), 10)
    run.floor('uint_formatter instantiations', digit_loop(run, m, F, E), 4)
    run.floor('parsing members with conversion_result', parsers(run, m, F, E), 6)
    run.floor('plain parsing members', plain_parsers(run, m, F), 6)
    run.floor('narrowing parsing members', narrowing_wrappers(run, m, F, E), 8)
    for o in run.obs[:2] + [o for o in run.obs if o['rule'] == 'R12.3'][:2] + [o for o in run.obs if o['rule'] == 'R12.4'][:2]:
        run.sample(dict(rule=o['rule'], subject=o['subject'], case=o['disc'], verdict=o['verdict'], detail=o['detail'][:160]))
