"""C08 - slicing returns the clamped byte range for every position, count and separator.

R08.1 integer safety of positions and lengths: substr / left / right are interpreted with start, count and n free over their
      whole type; on every path the copied range lies inside the string, nothing larger than the string is allocated, and the
      (offset, length) of the result equals the clamp formula of the property
R08.2 skip coherence: after_first / after_last resume at (match index + length of the separator they searched for)
R08.3 no-match table and before_* = left(index), for all twelve before_/after_ functions and the three separator forms
R08.4 trim walks stay inside [c_str(), c_str()+size()] and hand substr() offsets inside the string
R08.5 left / right are the first / last min(n, size) bytes
"""
import re

from ..interp import Interp, Hooks, Budget
from ..state import State, Obj, IntV, PtrV, NULL, MAXLEN
from ..terms import Lin, ZERO
from . import own
from .common import short, fn_loc, robust, slot_subst, subst

LEVEL = 'proof'
EXPLANATION = ('abstract interpretation of substr/left/right/trim* with free scalars over their whole type and symbolic string size; '
               'the (offset,length) of every result is compared with the clamp formula on every path, with concrete witnesses for '
               'mismatches; the before_/after_ family is interpreted with the search result as a symbol (found index / not found)')

SIZE_MAX = (1 << 64) - 1


class SliceHooks(Hooks):
    max_depth = 12
    max_paths = 6000
    unroll = 0
    widen_on_entry = True

    def __init__(self, m, stop=None):
        self.m = m
        self.stop = stop

    def call(self, I, st, inst, name, args):
        if name is None or self.stop is None:
            return None
        d = self.m.dem(name)
        r = self.stop(I, st, inst, d, args)
        return r


def string_scene(I, st, L, cls, with_ret=True):
    this = own.make_buffer(I, st, L, 'this', cls)
    e = st.flags['entry:this']
    sto = st.objs[e['storage'].obj]
    # terminated storage: unit at index size is NUL (earlier NULs are possible)
    # (the link between a unit's value and its position replaces the explicit terminator cell)
    sto.attrs['cstr_len'] = e['storage'].off + e['size'].scale(L.eb)
    sto.attrs['cstr_weak'] = True
    sto.regions = [r for r in sto.regions if r[2][0] != 'val']
    ret = own.make_buffer(I, st, L, 'ret', 'undef') if with_ret else None
    return this, ret, e


def result_of(I, st, L, ret, entry):
    """(length term, offset term into the source or None, kind) of the string built in `ret`."""
    o = st.objs[ret]
    size = o.cells.get(L.size_off)
    chars = o.cells.get(L.chars_off)
    if size is None or chars is None or not isinstance(size[1], IntV) or not isinstance(chars[1], PtrV):
        return None
    sl = I.as_u(st, size[1])
    if st.is_eq0(sl) is True:
        return (sl, None, 'empty')
    cur = chars[1]
    for _hop in range(4):
        bc, later = own.bulk_content(I, st, cur, sl)
        if bc is None:
            return (sl, None, 'unknown')
        tag, doff, dlen = bc
        if tag[0] != 'copy' or not isinstance(tag[1], PtrV):
            return (sl, None, 'unknown')
        # the copy may start before `cur` (whole in-object array copied): translate the offset
        src = PtrV(tag[1].obj, tag[1].off + (cur.off - doff))
        if src.obj == entry['storage'].obj:
            return (sl, src.off - entry['storage'].off, 'copy')
        cur = src            # a temporary that was itself filled from somewhere: follow the chain
    return (sl, None, 'unknown')


def umin(st, a, b):
    """min(a,b) when the order is decided on this path, else None."""
    r = st.is_ge0(b - a)
    if r is True:
        return a
    if r is False:
        return b
    if st.is_ge0(a - b) is True:
        return b
    return None


def expected_substr(I, st, s, start, count):
    """Clamp formula of the property; start is the signed term, count the unsigned one.  Returns (offset, length) or None
    when the path does not decide the case."""
    if st.is_eq0(count - SIZE_MAX) is True:
        count = s
    neg = st.is_ge0(-start - 1)
    if neg is None:
        return None
    if neg:
        b = st.is_ge0(start + s)
        if b is None:
            return None
        off = start + s if b else ZERO
    else:
        beyond = st.is_ge0(start - s - 1)
        if beyond is None:
            return None
        if beyond:
            return (None, ZERO)
        off = start
    room = s - off
    ln = umin(st, count, room)
    if ln is None:
        return None
    return (off, ln)


def substr_cases(I, st, s, start, count):
    """The clamp formula as an explicit case split, for paths whose own conditions do not decide it: a list of
    (terms assumed >= 0, (offset, length))."""
    out = []
    for auto in (True, False):
        pre = [count - SIZE_MAX] if auto else [Lin.const(SIZE_MAX - 1) - count]
        ceff = s if auto else count
        starts = [([-start - 1, start + s], start + s), ([-start - 1, -start - s - 1], ZERO), ([start, s - start], start)]
        out.append((pre + [start, start - s - 1], (None, ZERO)))
        for (cond, off) in starts:
            room = s - off
            out.append((pre + cond + [room - ceff], (off, ceff)))
            out.append((pre + cond + [ceff - room - 1], (off, room)))
    return out


def min_cases(I, st, s, n, right):
    return [([s - n], ((s - n) if right else ZERO, n)), ([n - s - 1], (ZERO, s))]


def compare_slice(st, res, exp, problems, und):
    eoff, elen = exp
    rl, roff, kind = res
    r = st.is_eq0(rl - elen)
    if r is not True:
        env = st.find_model([rl - elen], lambda v: v[0] != 0)
        if env is not None or r is False:
            problems.append('result has %r bytes, the clamp formula gives %r%s' % (rl, elen, '; witness ' + own.fmt_env(env) if env else ''))
        else:
            und.append('result length %r vs %r not decided' % (rl, elen))
    elif kind == 'copy' and eoff is not None and st.is_eq0(elen) is not True:
        r2 = st.is_eq0(roff - eoff)
        if r2 is not True:
            env = st.find_model([roff - eoff], lambda v: v[0] != 0)
            if r2 is False or env is not None:
                problems.append('result starts at offset %r, the clamp formula gives %r%s' % (roff, eoff, '; witness ' + own.fmt_env(env) if env else ''))
            else:
                und.append('result offset %r vs %r not decided' % (roff, eoff))


def judge_slice(run, rule, subject, I, outs, L, ret, entry, argv, oracle, f, scen, cases=None):
    n = 0
    for o in outs:
        if o.kind in ('backedge', 'unreachable'):
            continue
        n += 1
        st = o.st
        s = entry['size']
        problems, und = [], []
        if o.kind == 'throw':
            t = o.val[0] if o.val else None
            if t != 'std::bad_alloc':
                problems.append('raises %s' % (t,))
        elif o.kind == 'abort':
            problems.append('aborts (%s)' % (o.info[1] if o.info and len(o.info) > 1 else o.info[0],))
        # nothing larger than the source is ever requested
        for e in st.events:
            if e[0] == 'new' and e[3] is not None:
                over = e[3] - (s + 1).scale(L.eb)
                r = st.is_ge0(-over)
                if r is not True:
                    env = st.find_model([over], lambda v: v[0] > 0)
                    if env is not None:
                        problems.append('allocation of %r bytes for a slice of a %r-byte string; witness %s' % (e[3], s, own.fmt_env(env)))
                    elif r is False:
                        problems.append('allocation of %r bytes exceeds the source' % (e[3],))
                    else:
                        und.append('allocation size %r not bounded by the source size' % (e[3],))
            elif e[0] == 'oob' and isinstance(e[3], PtrV) and e[3].obj == entry['storage'].obj:
                problems.append('%s of %r bytes at offset %r outside the string (%r bytes) at line %d' % (e[2], e[4], e[3].off - entry['storage'].off, s, e[1].line))
            elif e[0] == 'oob?' and isinstance(e[3], PtrV) and e[3].obj == entry['storage'].obj:
                env = e[6] if len(e) > 6 else None
                if env is not None:
                    problems.append('%s of %r bytes at offset %r may lie outside the string (%r bytes) at line %d; witness %s' %
                                    (e[2], e[4], e[3].off - entry['storage'].off, s, e[1].line, own.fmt_env(env)))
                else:
                    und.append('bounds of %s at line %d not decided' % (e[2], e[1].line))
        if o.kind == 'ret' and oracle is not None:
            res = result_of(I, st, L, ret, entry)
            exp = oracle(I, st, s, argv)
            if res is None or res[2] == 'unknown':
                und.append('result object not tracked')
            elif exp is None and cases is None:
                und.append('path does not decide the clamp case')
            elif exp is None:
                # the path's own conditions do not single out a case of the clamp formula (the code splits its inputs differently):
                # the path is refined by each case in turn; a mismatch counts only with a model of path + case (a real input)
                for (conds, exp2) in cases(I, st, s, argv):
                    s3 = st.clone()
                    if not all(s3.assume_ge0(c) for c in conds):
                        continue
                    p3, u3 = [], []
                    compare_slice(s3, res, exp2, p3, u3)
                    problems.extend(p for p in p3 if 'witness' in p)
                    und.extend(u3 + ['%s (no witness)' % p for p in p3 if 'witness' not in p])
            else:
                eoff, elen = exp
                rl, roff, kind = res
                r = st.is_eq0(rl - elen)
                if r is not True:
                    env = st.find_model([rl - elen], lambda v: v[0] != 0)
                    if r is False or env is not None:
                        problems.append('result has %r bytes, the clamp formula gives %r%s' % (rl, elen, '; witness ' + own.fmt_env(env) if env else ''))
                    else:
                        und.append('result length %r vs %r not decided' % (rl, elen))
                elif kind == 'copy' and eoff is not None and st.is_eq0(elen) is not True:
                    r2 = st.is_eq0(roff - eoff)
                    if r2 is not True:
                        env = st.find_model([roff - eoff], lambda v: v[0] != 0)
                        if r2 is False or env is not None:
                            problems.append('result starts at offset %r, the clamp formula gives %r%s' % (roff, eoff, '; witness ' + own.fmt_env(env) if env else ''))
                        else:
                            und.append('result offset %r vs %r not decided' % (roff, eoff))
        disc = scen + ' / ' + o.kind + ' #%d' % n
        if problems:
            run.ob(rule, subject, False, problems[0], disc=scen + ' / ' + problems[0].split(';')[0][:60], loc=fn_loc(f))
        elif und:
            run.ob(rule, subject, None, und[0], disc=disc, loc=fn_loc(f))
        else:
            run.ob(rule, subject, True, 'range inside the string, (offset,length) as the clamp formula', disc=disc)
    return n


def find(m, F, dem):
    for name in F.lib:
        f = m.func(name)
        if f.dem == dem:
            return f
    return None


def slicing(run, m, F, E, L):
    n = 0
    specs = [
        ('ST::string::substr(long, unsigned long) const', 'R08.1',
         lambda I, st, s, a: expected_substr(I, st, s, I.as_s(st, a[0]), I.as_u(st, a[1])),
         lambda I, st, s, a: substr_cases(I, st, s, I.as_s(st, a[0]), I.as_u(st, a[1]))),
        ('ST::string::left(unsigned long) const', 'R08.5',
         lambda I, st, s, a: (lambda mn: None if mn is None else (ZERO, mn))(umin(st, I.as_u(st, a[0]), s)),
         lambda I, st, s, a: min_cases(I, st, s, I.as_u(st, a[0]), False)),
        ('ST::string::right(unsigned long) const', 'R08.5',
         lambda I, st, s, a: (lambda mn: None if mn is None else (s - mn, mn))(umin(st, I.as_u(st, a[0]), s)),
         lambda I, st, s, a: min_cases(I, st, s, I.as_u(st, a[0]), True)),
    ]
    for dem, rule, oracle, cases in specs:
        f = find(m, F, dem)
        run.need(f is not None, '%s not found' % dem)
        for cls in ('small', 'large'):
            I = Interp(m, F, E, SliceHooks(m))
            st = State()
            this, ret, entry = string_scene(I, st, L, cls)
            argv = []
            for k, p in enumerate(f.params[2:]):
                nm = f.argnames[k + 2] if k + 2 < len(f.argnames) else 'a%d' % k
                signed = (dem.startswith('ST::string::substr') and k == 0)
                argv.append(I.fresh_int(st, 64, nm, signed=signed))
            outs = I.run(I.start(f, [PtrV(ret), PtrV(this)] + argv, st))
            n += judge_slice(run, rule, short(f.dem), I, outs, L, ret, entry, argv, oracle, f, 'this=' + cls, cases=cases)
    return n


def trims(run, m, F, E, L):
    """R08.4: the walks read only [0, size] and call substr with offsets inside the string."""
    n = 0
    for dem in ('ST::string::trim_left(char const*) const', 'ST::string::trim_right(char const*) const', 'ST::string::trim(char const*) const'):
        f = find(m, F, dem)
        run.need(f is not None, '%s not found' % dem)
        for cls in ('small', 'large'):
            calls = []

            def stop(I, st, inst, d, args, calls=calls):
                if d.startswith('ST::string::substr(long, unsigned long) const'):
                    st.ev('substr-call', inst, args[2], args[3])
                    return [(st, None)]
                if d.startswith('_ST_PRIVATE::find_cs(char const*, unsigned long, char)'):
                    # membership test in the character set: found or not (no effect on the string)
                    s2 = I.fork(st)
                    st.ev('member', inst, args[0], args[1], args[2], True)
                    s2.ev('member', inst, args[0], args[1], args[2], False)
                    return [(st, I.fresh_ptr(st, 'hit')), (s2, NULL)]
                if d.startswith('ST::string::string()') and len(st.frames) == 1:
                    st.ev('res-empty', inst)
                    return [(st, None)]
                if d in ('strchr', 'index') and len(args) >= 2:
                    # membership by the C library: strchr(set, unit) also finds the set's own terminator, so a NUL unit "belongs" to
                    # every set - recorded so that the walk rule can ask whether the unit tested may be NUL on that path
                    s2 = I.fork(st)
                    st.ev('member', inst, args[0], None, args[1], True, 'strchr')
                    s2.ev('member', inst, args[0], None, args[1], False, 'strchr')
                    if isinstance(args[1], IntV):
                        u_ = I.as_u(s2, args[1])
                        if u_ is not None:
                            s2.assume_ne0(u_)
                    return [(st, I.fresh_ptr(st, 'hit')), (s2, NULL)]
                return None
            I = Interp(m, F, E, SliceHooks(m, stop))
            st = State()
            this, ret, entry = string_scene(I, st, L, cls)
            cs = I.fresh_ptr(st, 'charset')
            outs = I.run(I.start(f, [PtrV(ret), PtrV(this), cs], st))
            s = entry['size']
            # R08.6 step facts of the walks: a walk moves on only over a unit of the string that the membership test found in the
            # character set handed to the function (the whole set: its strlen), and by exactly one unit
            from ..terms import base_atoms
            w_p, w_u, nwalk = [], [], 0
            for o in outs:
                if o.kind != 'backedge' or not o.info or o.info[0] != f.name:
                    continue
                s2 = o.st
                hdr = o.info[1]
                wi = max([k2 for k2, e in enumerate(s2.events) if e[0] == 'widen' and e[1] == f.name and e[2] == hdr] or [-1])
                mem = [e for e in s2.events[wi + 1:] if e[0] == 'member']
                if not mem:
                    continue                # a loop that tests no membership (e.g. measuring the set)
                nwalk += 1
                if mem[-1][5] is not True:
                    w_p.append('a walk moves on although the unit it tested last is not in the character set')
                for e in mem:
                    if len(e) > 6 and e[6] == 'strchr' and e[5] is True and isinstance(e[4], IntV):
                        # found by strchr: the unit is in the set - or it is NUL.  A NUL unit inside the string is not a member
                        uu = I.as_u(s2, e[4])
                        if uu is not None and s2.is_eq0(uu) is not False:
                            s3 = s2.clone()
                            if s3.assume_eq0(uu):
                                env = s3.find_model([uu, s], lambda v: v[0] % 256 == 0 and v[1] >= 1)
                                if env is not None:
                                    w_p.append('membership is decided by strchr(set, unit), which also finds the terminator of the set: a walk moves on over '
                                               'a NUL unit of the string as if it belonged to the set (every set); witness %s' % own.fmt_env(env))
                                else:
                                    w_u.append('membership by strchr(set, unit): whether the unit may be NUL on this path is not decided')
                for e in mem:
                    if not (isinstance(e[2], PtrV) and isinstance(cs, PtrV) and e[2].obj == cs.obj and s2.is_eq0(e[2].off - cs.off) is True):
                        w_u.append('the membership test is not against the character set of the call')
                    ua = [a for a in base_atoms(e[4].lin) if isinstance(a, tuple) and a[0] == 'load' and a[1] == entry['storage'].obj] if isinstance(e[4], IntV) else []
                    if len(ua) != 1:
                        w_u.append('the unit tested for membership is not recognised as a unit of the string')
                        continue
                    hb = s2.flags.get('hbegin:%s:%s' % (f.name, hdr)) or {}
                    he = s2.flags.get('hend:%s:%s' % (f.name, hdr)) or {}
                    p0 = ua[0][2]
                    pn = subst(p0, slot_subst(hb, he))
                    if pn is None:
                        w_u.append('position of the next unit tested not expressible over the loop-carried values')
                    else:
                        d1 = pn - p0
                        if not (s2.is_eq0(d1 - 1) is True or s2.is_eq0(d1 + 1) is True):
                            if not d1.t or (robust([d1]) and s2.find_model([d1], lambda v: abs(v[0]) != 1) is not None):
                                w_p.append('a walk moves by %r units per member of the set, not by one' % (d1,))
                            else:
                                w_u.append('step of the walk (%r) not decided' % (d1,))
            if nwalk == 0:
                w_u.append('no walk iteration explored')
            run.ob('R08.6', short(f.dem), False if w_p else (None if w_u else True), w_p[0] if w_p else (w_u[0] if w_u else
                   'walks advance one unit at a time, only over units found in the character set (%d iteration paths)' % nwalk), disc='this=%s / walks' % cls, loc=fn_loc(f))
            for o in outs:
                if o.kind in ('backedge', 'unreachable'):
                    continue
                n += 1
                s2 = o.st
                problems, und = [], []
                for e in s2.events:
                    if e[0] in ('oob', 'oob?') and isinstance(e[3], PtrV) and e[3].obj == entry['storage'].obj:
                        env = e[6] if len(e) > 6 else None
                        if e[0] == 'oob' or env is not None:
                            problems.append('walk reads at offset %r of a %r-byte string (line %d)%s' %
                                            (e[3].off - entry['storage'].off, s, e[1].line, '; witness ' + own.fmt_env(env) if env else ''))
                        else:
                            und.append('bounds of the walk at line %d not decided' % e[1].line)
                    elif e[0] == 'substr-call':
                        a0, a1 = e[2], e[3]
                        if isinstance(a0, IntV):
                            off = I.as_s(s2, a0)
                            if not (s2.is_ge0(off) is True and s2.is_ge0(s - off) is True):
                                env = s2.find_model([off, s - off], lambda v: v[0] < 0 or v[1] < 0)
                                if env is not None:
                                    problems.append('substr() is handed start %r outside [0,size]; witness %s' % (off, own.fmt_env(env)))
                                else:
                                    und.append('start %r handed to substr not decided to lie in [0,size]' % (off,))
                        if isinstance(a1, IntV) and isinstance(a0, IntV):
                            cnt = I.as_u(s2, a1)
                            if s2.is_eq0(cnt - SIZE_MAX) is not True:
                                tot = I.as_s(s2, a0) + cnt
                                if s2.is_ge0(s - tot) is not True:
                                    env = s2.find_model([s - tot], lambda v: v[0] < 0)
                                    if env is not None:
                                        problems.append('substr() is handed start+count = %r beyond size; witness %s' % (tot, own.fmt_env(env)))
                                    else:
                                        und.append('count handed to substr not decided to stay inside the string')
                if o.kind == 'ret' and [e for e in s2.events if e[0] == 'res-empty'] and not [e for e in s2.events if e[0] == 'substr-call']:
                    # the empty string is returned without slicing: on a path on which no unit was found in the set, nothing may be
                    # trimmed, so the string itself must be empty
                    if not [e for e in s2.events if e[0] == 'member' and e[5] is True] and s2.is_eq0(s) is not True:
                        env = s2.find_model([s], lambda v: v[0] > 0)
                        if env is not None:
                            problems.append('returns the empty string although no unit of the string was found in the set on this path and the string '
                                            'is not empty (a unit that stops the walk - e.g. an embedded NUL - is not a unit to trim); witness %s' % own.fmt_env(env))
                        else:
                            und.append('returns the empty string without slicing; whether the string is empty on this path is not decided')
                if o.kind == 'abort':
                    problems.append('aborts')
                disc = 'this=%s / %s #%d' % (cls, o.kind, n)
                if problems:
                    run.ob('R08.4', short(f.dem), False, problems[0], disc='this=%s / %s' % (cls, problems[0][:50]), loc=fn_loc(f))
                elif und:
                    run.ob('R08.4', short(f.dem), None, und[0], disc=disc, loc=fn_loc(f))
                else:
                    run.ob('R08.4', short(f.dem), True, 'walk inside [0,size]; substr offsets inside the string', disc=disc)
    return n


def separators(run, m, F, E, L):
    """R08.2 / R08.3: before_/after_ x first/last x {char, const char*, ST::string}."""
    n = 0
    for side in ('before', 'after'):
        for which in ('first', 'last'):
            for form, argty in (('char', 'char'), ('cstr', 'char const*'), ('string', 'ST::string const&')):
                dem = 'ST::string::%s_%s(%s, ST::case_sensitivity_t) const' % (side, which, argty)
                f = find(m, F, dem)
                run.need(f is not None, '%s not found' % dem)
                n += 1

                def stop(I, st, inst, d, args):
                    if re.match(r'^ST::string::find(_last)?\(', d):
                        st.ev('search', inst, d, args[1:])
                        idx = I.fresh_int(st, 64, 'idx', signed=True, lo=-1, hi=MAXLEN)
                        st.flags['idx'] = idx
                        return [(st, idx)]
                    if d.startswith('ST::string::substr(long, unsigned long) const'):
                        st.ev('res', 'substr', args[2], args[3])
                        return [(st, None)]
                    if d.startswith('ST::string::left(unsigned long) const'):
                        st.ev('res', 'left', args[2], None)
                        return [(st, None)]
                    if d.startswith('ST::string::string(ST::string const&)'):
                        st.ev('res', 'whole', args[1], None)
                        return [(st, None)]
                    if d.startswith('ST::string::string()'):
                        st.ev('res', 'empty', None, None)
                        return [(st, None)]
                    return None
                I = Interp(m, F, E, SliceHooks(m, stop))
                st = State()
                this, ret, entry = string_scene(I, st, L, 'large')
                if form == 'char':
                    sep = I.fresh_int(st, 8, 'sep')
                    seplen = Lin.const(1)
                elif form == 'cstr':
                    so = Obj('ext', None)
                    so.lazy = True
                    st.objs['SEP'] = so
                    sep = PtrV('SEP')
                    seplen = None       # strlen(sep): identified below by its atom
                else:
                    sepo = own.make_buffer(I, st, L, 'sep', 'large')
                    sep = PtrV(sepo)
                    seplen = st.flags['entry:sep']['size']
                cs = I.fresh_int(st, 32, 'cs', hi=1)
                outs = I.run(I.start(f, [PtrV(ret), PtrV(this), sep, cs], st))
                problems, und = [], []
                nfound = nmiss = 0
                seen_oob = set()
                for o in outs:
                    # whatever the member looks like: every read of the string's storage on every explored path stays inside it
                    for e in o.st.events:
                        if e[0] in ('oob', 'oob?') and isinstance(e[3], PtrV) and e[3].obj == entry['storage'].obj and e[1].id not in seen_oob:
                            env = e[6] if len(e) > 6 else None
                            if e[0] == 'oob' or env is not None:
                                seen_oob.add(e[1].id)
                                problems.append('reads %r byte(s) at offset %r of the %r-byte string (line %d)%s' %
                                                (e[4], e[3].off - entry['storage'].off, entry['size'], e[1].line, '; witness ' + own.fmt_env(env) if env else ''))
                    if o.kind != 'ret':
                        if o.kind == 'abort':
                            problems.append('aborts')
                        continue
                    s2 = o.st
                    idx = s2.flags.get('idx')
                    se = [e for e in s2.events if e[0] == 'search']
                    res = [e for e in s2.events if e[0] == 'res']
                    if idx is None or len(se) != 1 or len(res) != 1:
                        und.append('not of the form search-then-slice (%d searches, %d results)' % (len(se), len(res)))
                        continue
                    want_fn = 'find_last' if which == 'last' else 'find('
                    if want_fn not in se[0][2] or (which == 'first' and 'find_last' in se[0][2]):
                        problems.append('%s_%s searches with %s' % (side, which, se[0][2].split('(')[0]))
                    found = s2.is_ge0(idx.lin)
                    kind, a0, a1 = res[0][1], res[0][2], res[0][3]
                    # the result as a byte range [lo, hi) of the string ('END' = up to the end), however it is spelled:
                    # left(n) = [0,n), substr(s,c) = [s,s+c) (c = ST_AUTO_SIZE: to the end), copy of *this = [0,END), string() = [0,0)
                    rng = None
                    if kind == 'left' and isinstance(a0, IntV):
                        rng = (ZERO, I.as_u(s2, a0))
                    elif kind == 'substr' and isinstance(a0, IntV) and isinstance(a1, IntV):
                        s0 = I.as_s(s2, a0)
                        c0 = I.as_u(s2, a1)
                        if s0 is not None and c0 is not None and s2.is_ge0(s0) is True:
                            rng = (s0, 'END' if s2.is_eq0(c0 - SIZE_MAX) is True else s0 + c0)
                    elif kind == 'whole':
                        rng = (ZERO, 'END') if isinstance(a0, PtrV) and a0.obj == this else None
                        if rng is None:
                            problems.append('copies %r, not *this' % (a0,))
                            continue
                    elif kind == 'empty':
                        rng = (ZERO, ZERO)
                    if rng is None or rng[0] is None or rng[1] is None:
                        und.append('result %s(%r, %r) not expressible as a byte range' % (kind, a0, a1))
                        continue

                    def differ(d, what):
                        """d == 0 required"""
                        if s2.is_eq0(d) is True:
                            return
                        env = s2.find_model([d], lambda v: v[0] != 0) if robust([d]) else None
                        if env is not None or not d.t:
                            problems.append(what + ('; witness ' + own.fmt_env(env) if env else ''))
                        else:
                            und.append(what + ' (not decided)')
                    if found is True:
                        nfound += 1
                        if side == 'before':
                            differ(rng[0], 'match at index i: the result starts at %r, expected the bytes before the match [0, i)' % (rng[0],))
                            if rng[1] == 'END':
                                problems.append('match at index i: the result runs to the end of the string, expected [0, i)')
                            else:
                                differ(rng[1] - idx.lin, 'match at index i: the result ends at %r, expected at the match [0, i)' % (rng[1],))
                        else:
                            skip = rng[0] - idx.lin
                            exp = seplen
                            if exp is None:
                                at = [a for a, k in skip.t if isinstance(a, tuple) and a[0] == 'strlen' and a[1] == 'SEP']
                                exp = Lin.atom(at[0]) if at else None
                            if exp is None:
                                if not skip.t:
                                    problems.append('text after the match starts %r bytes after it, but the separator searched for is strlen(sep) bytes long' % (skip,))
                                else:
                                    und.append('start of the text after the match (%r) not comparable with the length of the separator' % (skip,))
                            elif s2.is_eq0(skip - exp) is not True:
                                env = s2.find_model([skip - exp], lambda v: v[0] != 0) if robust([skip - exp]) else None
                                if env is not None or not (skip - exp).t:
                                    problems.append('text after the match starts %r bytes after it, but the separator searched for is %s bytes long' %
                                                    (skip, '1' if form == 'char' else ('strlen(sep)' if form == 'cstr' else 'sep.size()')))
                                else:
                                    und.append('start of the text after the match (%r) not decided against the separator length' % (skip,))
                            if rng[1] != 'END':
                                rest = rng[1] - entry['size']
                                if s2.is_ge0(rest) is not True:
                                    env = s2.find_model([rest], lambda v: v[0] < 0) if robust([rest]) else None
                                    (problems if env is not None else und).append('the text after the match ends at %r, expected the rest of the string' % (rng[1],))
                    elif found is False:
                        nmiss += 1
                        want = {('before', 'first'): 'whole', ('after', 'last'): 'whole', ('before', 'last'): 'empty', ('after', 'first'): 'empty'}[(side, which)]
                        if want == 'whole':
                            isw = s2.is_eq0(rng[0]) is True and (rng[1] == 'END' or s2.is_ge0(rng[1] - entry['size']) is True)
                            ise = rng[1] != 'END' and s2.is_eq0(rng[1] - rng[0]) is True
                            if ise and s2.is_eq0(entry['size']) is not True:
                                problems.append('no match: returns the empty string, the property says the whole string')
                            elif not isw:
                                und.append('no match: result [%r, %r) not decided to be the whole string' % rng)
                        else:
                            ise = rng[1] != 'END' and s2.is_eq0(rng[1] - rng[0]) is True
                            if rng[1] == 'END' and s2.is_eq0(rng[0]) is True:
                                problems.append('no match: returns the whole string, the property says the empty string')
                            elif not ise:
                                und.append('no match: result [%r, %r) not decided to be empty' % rng)
                    else:
                        und.append('path does not decide whether the search succeeded')
                if not problems and (nfound == 0 or nmiss == 0):
                    und.append('found/not-found paths: %d/%d' % (nfound, nmiss))
                rule = 'R08.2' if side == 'after' else 'R08.3'
                if problems:
                    run.ob(rule, short(f.dem), False, problems[0], disc=form, loc=fn_loc(f))
                elif und:
                    run.ob(rule, short(f.dem), None, und[0], disc=form, loc=fn_loc(f))
                else:
                    run.ob(rule, short(f.dem), True, 'match: %s; no match: per the table' % ('left(index)' if side == 'before' else 'substr(index + |sep|)'), disc=form)
    return n


TRIM_CORE_RE = re.compile(r'^ST::string::trim(_left|_right)?\(char const\*\) const$')
TRIM_ANY_RE = re.compile(r'^ST::string::trim(_left|_right)?\(.*\) const$')


def trim_family(run, m, F, E):
    """R08.9: every other overload of the trim members reaches the charset core of its kind; one that walks the string itself with
    a predicate of the unit alone (a built-in notion of white space) must accept exactly the units of the library's default set
    ST_WHITESPACE (read from the driver's constant), decided by finite case analysis over the predicate's paths."""
    from . import setrep
    n = 0
    ws = m.globals.get('stverif_default_whitespace')
    wset = None
    if ws is not None and isinstance(ws.get('init'), list) and all(isinstance(b, int) for b in ws['init']):
        wset = set(b & 0xFF for b in ws['init'] if b)
    for name in F.lib:
        f = m.func(name)
        if not TRIM_ANY_RE.match(f.dem) or TRIM_CORE_RE.match(f.dem):
            continue
        n += 1
        reach = [m.func(t) for t in F.reachable_from([name]) if t != name and m.has(t)]
        if any(TRIM_CORE_RE.match(g.dem) for g in reach):
            run.ob('R08.9', short(f.dem), True, 'forwards to the charset core', disc='forwarder', loc=fn_loc(f))
            continue
        preds = setrep.candidates(m, F, [name], skip=lambda d: d.startswith('_ST_PRIVATE::find_c') or d.startswith('_ST_PRIVATE::compare_c'))
        pure = [(g, k) for (g, k) in preds if len(g.params) == 1]
        if not pure:
            run.ob('R08.9', short(f.dem), None, 'a trim overload that does not reach the charset core: a separate implementation, not analysed', disc='separate', loc=fn_loc(f))
            continue
        for (g, k) in pure:
            acc = setrep.accepted_units(None, m, F, E, g, k)
            if acc is None or wset is None:
                run.ob('R08.9', short(f.dem), None, 'walks the string with %s: the units it accepts are not decided%s' %
                       (short(g.dem, 50), '' if wset is not None else ' (default set ST_WHITESPACE not found)'), disc='separate', loc=fn_loc(f))
                continue
            extra, missing = sorted(acc - wset), sorted(wset - acc)
            if extra or missing:
                v = (extra or missing)[0]
                run.ob('R08.9', short(f.dem), False,
                       'tests its units with %s, which %s the unit 0x%02X although it %s in the default set ST_WHITESPACE %r: %s(ST_WHITESPACE) and this '
                       'overload disagree on a text whose %s unit is 0x%02X (accepted units: %s)' %
                       (short(g.dem, 50), 'accepts' if extra else 'rejects', v, 'is not' if extra else 'is',
                        ''.join(chr(c) for c in sorted(wset)), f.dem.split('(')[0].split('::')[-1],
                        'last' if 'right' in f.dem else 'first', v, ' '.join('0x%02X' % c for c in sorted(acc)[:12])),
                       disc='separate', loc=fn_loc(f))
            else:
                run.ob('R08.9', short(f.dem), None, 'walks the string with %s, which accepts exactly the units of ST_WHITESPACE; the walks '
                       'themselves are not analysed for this overload' % short(g.dem, 50), disc='separate', loc=fn_loc(f))
    return n


def check(run):
    m = run.module()
    F = run.facts()
    E = run.effects()
    run.trust('clang 14 lowering (LLVM IR, -O0, mem2reg)', 'STIR interpreter', 'C05 (buffer invariant: storage of size()+1 units, NUL at size())',
              'C07 for the meaning of the index returned by find / find_last')
    run.assume('free scalars (start, count, n) range over their whole type; string sizes are below 2^47')
    L = own.buffer_layout(m, 'char')
    run.need(L is not None, 'layout of ST::buffer<char> not recognised')
    run.floor('slice paths (substr/left/right)', slicing(run, m, F, E, L), 20)
    run.floor('trim paths', trims(run, m, F, E, L), 10)
    run.floor('before_/after_ overloads', separators(run, m, F, E, L), 12)
    run.counts['other trim overloads'] = trim_family(run, m, F, E)
    # R08.8: a trim that tests its units against a folded representation of the character set (expected count zero on this tree)
    from . import setrep
    run.counts['unit-set predicates under trim'] = setrep.check_members(run, 'R08.8', m, F, E, r'^ST::string::trim(_left|_right)?\(char const\*\) const$', 'trim')
    for o in run.obs[:3] + [o for o in run.obs if o['rule'] == 'R08.2'][:2]:
        run.sample(dict(rule=o['rule'], subject=o['subject'], case=o['disc'], verdict=o['verdict'], detail=o['detail'][:160]))
