"""C18 - a failed operation leaves its target and its arguments unchanged.

R18.1 commit ordering: on no CFG path of any library function does a call that may raise a user-visible error
      (unicode_error, codec_error, bad_format, out_of_range) come after a write to the target object
      (this of string / buffer / string_stream members, or a non-const reference parameter of those types or of
      std::basic_string that receives the result)
R18.2 an rvalue (to-be-moved-from) parameter is never consumed before such a call
R18.3 raw allocation never lives across a may-throw point outside the owner classes (who-may-call on operator new[];
      shared with C19 R19.3)
"""
import re

from ..effects import func_roles
from .. import order
from .common import short, fn_loc, class_of, is_ctor, is_dtor

LEVEL = 'proof'
EXPLANATION = ('flow-sensitive event-ordering analysis on the CFG of every library function that may write a library object '
               'through a parameter: effect summaries (deep write / move-from provenance) and throw sets from the whole-module '
               'fact base decide whether a user-visible throw can follow a write to the target or the consumption of an rvalue argument')

USER_ERRORS = ('ST::unicode_error', 'ST::codec_error', 'ST::bad_format', 'std::out_of_range')
TARGET_CLASS_RE = re.compile(r'^ST::(string|string_stream|buffer<[^>]*>|float_formatter<[^>]*>|uint_formatter<[^>]*>)$')
TARGET_REF_RE = re.compile(r'^(ST::(string|string_stream|buffer<[^>]*>)|std::(__cxx11::)?basic_string<.*>)\s*&$')
RVALUE_RE = re.compile(r'^(ST::(string|string_stream|buffer<[^>]*>)|std::(__cxx11::)?basic_string<.*>)\s*&&$')


def targets_of(m, E, f):
    roles = func_roles(f)
    cls = class_of(f)
    out = []
    for k, r in enumerate(roles):
        if r == 'this':
            if TARGET_CLASS_RE.match(cls) and not is_ctor(f) and not is_dtor(f) and not f.is_const_method():
                out.append((k, 'this'))
        elif r not in (None, 'sret') and TARGET_REF_RE.match(r.strip()):
            out.append((k, r.strip()))
    return out


def raises_only_on_external_failure(m, F, callee):
    """True when every throw site of `callee` is guarded by a test of the value an external (C library) call has just returned: whether
    that exception can occur at all depends on whether the C library call can fail for the arguments it is given, which this rule
    (an order of effects along CFG paths) does not decide."""
    if not callee or not m.has(callee):
        return False
    g = m.func(callee)
    insts = dict((i.id, i) for i in g.all_insts())
    throws = [i for i in g.all_insts() if i.op in ('call', 'invoke') and i.callee == '__cxa_throw']
    if not throws:
        return False
    preds = g.preds()
    blocks = dict((b.id, b) for b in g.blocks)

    def ext_result(v, depth=0):
        if not (isinstance(v, list) and v and v[0] == 'v') or v[1] not in insts or depth > 3:
            return False
        i = insts[v[1]]
        if i.op in ('call', 'invoke'):
            return bool(i.callee) and not m.has(i.callee)
        if i.op in ('zext', 'sext', 'trunc', 'icmp'):
            return any(ext_result(a, depth + 1) for a in i.a)
        return False
    for t in throws:
        seen, work, ok = set(), [t.block], False
        while work and not ok:
            b = work.pop()
            if b in seen:
                continue
            seen.add(b)
            for pb in preds.get(b, []):
                term = blocks[pb].term
                if term.op == 'br' and term.a and len(term.d.get('succ', [])) == 2:
                    if ext_result(term.a[0]):
                        ok = True
                        break
                    continue            # another condition decides: not this pattern
                work.append(pb)
        if not ok:
            return False
    return True


def rvalues_of(f):
    roles = func_roles(f)
    return [(k, r.strip()) for k, r in enumerate(roles) if r not in (None, 'sret', 'this') and RVALUE_RE.match(r.strip())]


def check(run):
    m = run.module()
    F = run.facts()
    E = run.effects()
    run.trust('clang 14 lowering (LLVM IR, -O0, mem2reg)', 'effect summaries (pointer provenance)', 'throw sets incl. model of externals')
    run.assume('a FILE* / std::ostream a format call writes to is not a target in the sense of the property',
               'CFG paths are not pruned for feasibility (a reported order exists as a path in the control-flow graph)')
    nt = nr = 0
    for name in F.lib:
        f = m.func(name)
        tg = [(k, w) for (k, w) in targets_of(m, E, f) if k in E.sum[name]['writes'] or k in E.sum[name]['frees']]
        rv = [(k, w) for (k, w) in rvalues_of(f) if k in E.sum[name]['moves']]
        if not tg and not rv:
            continue
        tset = set(k for k, w in tg)
        rset = set(k for k, w in rv)

        def first(i, evs):
            out = []
            for (kind, p) in evs:
                if p in tset and (kind == 'store' or kind.startswith('call ')):
                    out.append((('W', p), kind))
                if p in rset and kind.startswith('move '):
                    out.append((('M', p), kind))
            return out or None

        def later(i, evs, tf):
            if tf is None:
                return None
            s = tf(USER_ERRORS)
            return tuple(sorted(s)) if s else None

        pairs = order.after_pairs(F, E, f, first, later)
        bad_t = {}
        bad_r = {}
        for (fi, flab, li, llab) in pairs:
            pass
        # group by armed flag
        res = {}
        for key, (fi, flab, li, llab) in [((x[0].id, x[2].id), x) for x in pairs]:
            res.setdefault(key, (fi, flab, li, llab))
        # recompute with flag identity: after_pairs returns per (first inst,later inst,flag,label); we need the flag -> rerun cheaply
        viol_w, viol_m = [], []
        for (fi, flab, li, llab) in pairs:
            evs_fi = [(k, p) for (ii, k, p) in E.events(name) if ii.id == fi.id]
            for (k, p) in evs_fi:
                if p in tset and (k == 'store' or k.startswith('call ')) and k == flab:
                    viol_w.append((p, fi, flab, li, llab))
                if p in rset and k.startswith('move ') and k == flab:
                    viol_m.append((p, fi, flab, li, llab))
        for (k, w) in tg:
            nt += 1
            v = [x for x in viol_w if x[0] == k]
            if v:
                p, fi, flab, li, llab = v[0]
                callee = li.callee
                soft = all(raises_only_on_external_failure(m, F, x[3].callee) for x in v)
                run.ob('R18.1', short(f.dem), None if soft else False,
                       ('(not decided: the exception is raised only when a C library call reports failure; whether it can for these arguments is not '
                        'decided here) ' if soft else '') +
                       'target (%s) may already be written at %s (%s) when %s raises %s at %s' %
                       (w, f.loc(fi), flab[:70], m.dem(callee)[:70] if callee else 'a call', '/'.join(llab), f.loc(li)),
                       disc='param %d' % k, loc=f.loc(li))
            else:
                run.ob('R18.1', short(f.dem), True, 'no user-visible throw follows a write to the target (%s)' % w, disc='param %d' % k)
        for (k, w) in rv:
            nr += 1
            v = [x for x in viol_m if x[0] == k]
            if v:
                p, fi, flab, li, llab = v[0]
                callee = li.callee
                run.ob('R18.2', short(f.dem), False,
                       'rvalue argument (%s) is consumed at %s (%s) before %s may raise %s at %s' %
                       (w, f.loc(fi), flab[:70], m.dem(callee)[:70] if callee else 'a call', '/'.join(llab), f.loc(li)),
                       disc='param %d' % k, loc=f.loc(li))
            else:
                run.ob('R18.2', short(f.dem), True, 'rvalue argument (%s) is consumed only after the last user-visible throw' % w, disc='param %d' % k)
    run.floor('target parameters (written library objects)', nt, 100)
    run.floor('rvalue parameters that are moved from', nr, 8)
    # R18.3 shared with C19
    from . import c19
    c19.alloc_sites(run, m, F)
    for o in run.obs:
        if o['rule'] == 'R19.3':
            o['rule'] = 'R18.3'
    for o in [o for o in run.obs if o['rule'] == 'R18.1'][:3] + [o for o in run.obs if o['rule'] == 'R18.2'][:3]:
        run.sample(dict(rule=o['rule'], subject=o['subject'], case=o['disc'], verdict=o['verdict'], detail=o['detail']))
