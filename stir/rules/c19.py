"""C19 - allocation failure propagates cleanly and leaves every object destructible.

R19.1 STIR/ownership on both owner classes with an unwind fork at every operator new[]: at each exceptional exit every
      owner object satisfies its class invariant, no block is leaked or double-freed, and the target is unchanged or empty
R19.2 noexcept audit: no nounwind library function reaches, through an invoke to its terminate pad, a callee that may throw
R19.3 raw allocation (operator new[] / delete[]) only inside the two owner classes
R19.4 only the two owners have destructors that release storage (every other library class holds owners by value)
R19.5 every landing pad in library code is cleanup-only or a terminate pad: nothing swallows std::bad_alloc
"""
import re

from ..state import IntV, PtrV
from . import own, c05, c16
from .common import short, fn_loc, class_of, is_ctor, is_dtor

LEVEL = 'proof'
EXPLANATION = ('fault enumeration at the abstract level: every operator new[] inside the owner classes forks a bad_alloc path in '
               'the interpreter and the class invariant / heap accounting is checked at every exceptional exit; module-wide '
               'throw-set, landing-pad and allocation-site facts cover the rest of the library')

OWNER_RE = re.compile(r'^ST::(buffer<[^>]*>|string_stream)$')


def unchanged_or_empty(I, st, oid, L, entry):
    """Target holds its previous value or a valid empty value."""
    o = st.objs[oid]
    chars = o.cells.get(L.chars_off)
    size = o.cells.get(L.size_off)
    if chars is None or size is None or not isinstance(size[1], IntV) or not isinstance(chars[1], PtrV):
        return None
    chars, size = chars[1], I.as_u(st, size[1])
    if entry is not None:
        same = chars.obj == entry['storage'].obj and st.is_eq0(chars.off - entry['storage'].off) is True and \
            st.is_eq0(size - entry['size']) is True and st.objs[chars.obj].version == entry['storage_ver']
        if same:
            return 'unchanged'
    if st.is_eq0(size) is True and chars.obj == oid:
        return 'empty'
    if entry is None:
        return 'n/a'
    return False


def owner_faults(run, m, F, E):
    nsites = 0
    nexits = 0
    layouts = [own.buffer_layout(m, e) for e in c05.ELTS] + [own.stream_layout(m)]
    for L in layouts:
        run.need(L is not None, 'owner class layout not recognised')
        for f in c05.owner_methods(m, F, E, L):
            if L.kind == 'stream' and c16.method_kind(f) == 'insert':
                continue
            roles = own.owner_param_roles(f, L)
            # does the method (transitively, inside the owner class) allocate?
            for scen in own.scenarios_for(f, L, roles):
                a_cls, b_cls, alias = scen
                sname = 'this=%s' % a_cls + (', other=%s' % b_cls if b_cls else '') + (', this==other' if alias else '')
                I, outs, info = own.run_method(m, F, E, L, f, scen, fork_bad_alloc=True)
                for o in outs:
                    if o.kind != 'throw':
                        continue
                    nexits += 1
                    st = o.st
                    site = [e for e in st.events if e[0] == 'alloc-fails']
                    where = '%s:%d' % (m.files[site[-1][1].file], site[-1][1].line) if site else '?'
                    problems, undecided = own.judge_common(I, o, f, info)
                    # a constructor that throws leaves no object behind: only leaks / double frees matter for `this`
                    if is_ctor(f):
                        problems = [p for p in problems if not p[1].startswith('this ')]
                        undecided = [u for u in undecided if not u.startswith('this')]
                    else:
                        r = unchanged_or_empty(I, st, info['A'], L, info['entry'].get('this'))
                        if r is False and not any(p[1].startswith('this ') for p in problems):
                            problems.append(('value', 'target holds neither its previous value nor an empty value after the failed allocation'))
                    disc = sname + ' / allocation at ' + where.split('/')[-1].split(':')[0] + ' fails'
                    own.report(run, 'R19.1', short(f.dem), f, disc, problems, undecided,
                               'all objects valid, nothing leaked, target unchanged or empty')
                    if len(run.samples) < 5:
                        run.sample(dict(method=f.dem, scenario=sname, failing_allocation=where, problems=[p[1] for p in problems][:2]))
    return nexits


def noexcept_audit(run, m, F):
    n = 0
    for name in F.lib:
        f = m.func(name)
        pads = F.pads.get(name, {})
        tp = [p for p in pads.values() if p['terminates'] and not p['resumes'] and not p['rethrows']]
        if not tp:
            continue
        n += 1
        lst = F.terminate_on.get(name, [])
        if not lst:
            run.ob('R19.2', short(f.dem), True, 'noexcept boundary: every guarded callee has an empty throw set')
            continue
        for (i, ts, s) in lst:
            callee = ', '.join(sorted(m.dem(t)[:70] for t in ts))
            run.ob('R19.2', short(f.dem), False,
                   'noexcept function calls %s which may throw %s: the process terminates instead of propagating' % (callee, ', '.join(sorted(s))),
                   disc=m.dem(ts[0]).split('(')[0] if ts else '', loc=f.loc(i))
    # nounwind functions calling may-throw callees through plain calls (would be UB / terminate)
    for name in F.lib:
        f = m.func(name)
        if not f.nounwind:
            continue
        for (i, ts, kind) in F.calls[name]:
            if i.op == 'call':
                s = F.call_throws(i, ts, kind)
                if s:
                    run.ob('R19.2', short(f.dem), False, 'nounwind function makes an unguarded call that may throw %s' % ', '.join(sorted(s)),
                           disc='call', loc=f.loc(i))
    return n


def alloc_sites(run, m, F):
    n = 0
    for name in F.lib:
        f = m.func(name)
        cls = class_of(f)
        for (i, ts, kind) in F.calls[name]:
            for t in ts:
                if t in ('_Znam', '_ZdaPv', 'malloc', 'free', 'realloc', 'calloc'):
                    n += 1
                    ok = bool(OWNER_RE.match(cls))
                    run.ob('R19.3', short(f.dem), ok,
                           'raw %s %s' % (m.dem(t), 'inside an owner class' if ok else 'outside the owner classes: storage not covered by the ownership proof'),
                           disc=m.dem(t) + ('@%d' % i.id), loc=f.loc(i))
    return n


def destructors(run, m, F, E):
    n = 0
    for name in F.lib:
        f = m.func(name)
        if not is_dtor(f):
            continue
        n += 1
        cls = class_of(f)
        frees_direct = any(t in ('_ZdaPv', '_ZdlPv') for (i, ts, k) in F.calls[name] for t in ts
                           if not (t == '_ZdlPv' and f.name.startswith('_ZN') and 'D0Ev' in f.name))
        ok = (not frees_direct) or bool(OWNER_RE.match(cls))
        run.ob('R19.4', short(f.dem), ok, 'releases storage directly' if frees_direct else 'holds owners by value (no direct release)')
    return n


def landing_pads(run, m, F):
    n = 0
    for name in F.lib:
        f = m.func(name)
        for bid, p in F.pads.get(name, {}).items():
            n += 1
            swallow = (p['catch_all'] or p['types']) and not p['terminates'] and not p['rethrows']
            catches_alloc = p['catch_all'] or any(F.is_a('std::bad_alloc', t) for t in p['types'])
            if swallow and catches_alloc:
                run.ob('R19.5', short(f.dem), False, 'landing pad catches %s and does not rethrow: std::bad_alloc would be swallowed' %
                       ('everything' if p['catch_all'] else ', '.join(p['types'])), disc='pad@%d' % bid, loc=f.loc(p['inst']))
    run.ob('R19.5', 'landing pads of library functions', True, '%d pads: cleanup-only or terminate pads' % n)
    return n


def check(run):
    m = run.module()
    F = run.facts()
    E = run.effects()
    run.trust('clang 14 lowering (LLVM IR, -O0, mem2reg)', 'STIR interpreter and models', 'throw model of externals (facts.EXT_THROWS)')
    run.assume('a single failing allocation per operation (as the property states)',
               'operations outside the owner classes hold owners by value, so unwinding destroys them through the owners\' destructors')
    nex = owner_faults(run, m, F, E)
    run.floor('exceptional exits analysed (failing operator new[] inside owners)', nex, 30)
    run.floor('noexcept boundaries', noexcept_audit(run, m, F), 1)
    run.floor('raw allocation/release sites', alloc_sites(run, m, F), 30)
    run.floor('library destructors', destructors(run, m, F, E), 8)
    run.floor('landing pads', landing_pads(run, m, F), 100)
