"""RG.2 - unit-set representations.

trim (C08) and tokenize (C09) decide for every unit of the string whether it belongs to a set of units given as a C string.  The
library asks find_cs(set, strlen(set), unit); a rewrite may fold the set into a table or a bit set first and test the unit against
that.  Whatever the representation, the test reads *one place* (a table entry, or one bit of one word) selected by the unit, so it
can tell two units apart only if they select different places:

    the selector - (offset of the word read, bit tested in it), as a function of the unit - must be injective on the unit values
    the path admits.

The selector is derived by interpreting the predicate with the unit symbolic and evaluating the bit provenance (stir/bits.py) of
the offset and of the shift amount: each selector bit is a constant or one bit of the unit.  A bit of the unit that is not constant
on the path and reaches no selector bit is ignored by the test: two units differing only in it are treated alike, whatever the
set - a finding with those two units as the witness.  A selector with bits the evaluator cannot attribute is undecided.  Only this
necessary condition is decided; that the set is *built* with the same selector is not (the membership obligation of the member
stays undecided when it does not use find_cs).
"""
import re

from ..interp import Interp, Hooks
from ..state import State, Obj, IntV, PtrV
from ..terms import Lin
from ..bits import BitEval, T
from .common import short, fn_loc


class PredHooks(Hooks):
    max_depth = 6
    max_paths = 400
    unroll = 0
    widen_on_entry = True


def candidates(m, F, roots, skip=lambda d: False):
    """Functions reachable from `roots` that look like a membership test of one unit: they return a boolean and take exactly one
    8-bit integer besides pointers (the object / closure holding the representation)."""
    out = []
    seen = set()
    for t in F.reachable_from(roots):
        if t in seen or not m.has(t) or t in roots:
            continue
        seen.add(t)
        g = m.func(t)
        if not m.is_lib(g) or g.ret != 'i1' or skip(g.dem):
            continue
        tys = [p['ty'] for p in g.params]
        units = [k for k, ty in enumerate(tys) if ty == 'i8']
        if len(units) != 1 or any(not (ty.endswith('*') or ty == 'i8') for ty in tys):
            continue
        out.append((g, units[0]))
    return out


def selector(I, st, expr):
    """(offset term of the word / entry read, shift term or None) for an expression that is one place of memory selected by the
    unit: load(obj, off) | and(load, shl(1, S)) | and(lshr(load, S), 1); None when the expression has another form."""
    sa = expr.single_atom() if isinstance(expr, Lin) else None
    if sa is None or sa[1] != 1 or sa[2] != 0:
        return None
    a = sa[0]

    def as_load(x):
        if isinstance(x, Lin):
            s1 = x.single_atom()
            if s1 is not None and s1[1] == 1 and s1[2] == 0:
                x = s1[0]
            else:
                return None
        while isinstance(x, tuple) and x[0] in ('mod', 'smod') and isinstance(x[1], Lin) and x[1].single_atom() is not None:
            x = x[1].single_atom()[0]
        return x if isinstance(x, tuple) and x[0] == 'load' else None

    ld = as_load(a)
    if ld is not None:
        return (ld, None)
    if isinstance(a, tuple) and a[0] == 'and':
        x, y = a[1], a[2]
        for (p, q) in ((x, y), (y, x)):
            ldp = as_load(p)
            if ldp is not None and isinstance(q, Lin):
                sq = q.single_atom()
                if sq is not None and isinstance(sq[0], tuple) and sq[0][0] == 'shl' and isinstance(sq[0][1], Lin) and not sq[0][1].t and sq[0][1].c == 1:
                    return (ldp, sq[0][2])
            if isinstance(p, Lin) and (q == 1 or (isinstance(q, Lin) and not q.t and q.c == 1)):
                sp = p.single_atom()
                if sp is not None and isinstance(sp[0], tuple) and sp[0][0] == 'lshr' and as_load(sp[0][1]) is not None:
                    return (as_load(sp[0][1]), sp[0][2])
    return None


def judge(run, rule, m, F, E, g, unit_idx, member):
    I = Interp(m, F, E, PredHooks())
    st = State()
    args = []
    for k, p in enumerate(g.params):
        if k == unit_idx:
            u = I.fresh_int(st, 8, 'unit')
            args.append(u)
        else:
            o = Obj('ext', None)
            o.lazy = True
            st.objs['REP%d' % k] = o
            args.append(PtrV('REP%d' % k))
    try:
        outs = I.run(I.start(g, args, st))
    except Exception as e:
        run.ob(rule, short(g.dem), None, 'membership test of %s not interpreted: %s' % (member, str(e)[:60]), loc=fn_loc(g))
        return
    probs, und, ok = [], [], 0
    places, desc = {}, {}
    ua = u.lin.single_atom()[0]
    for o in outs:
        if o.kind != 'ret':
            continue
        s2 = o.st
        rv = o.val
        if isinstance(rv, IntV) and not rv.lin.t:
            ok += 1                     # a constant answer on this path (a guard decided it): nothing selected
            continue
        c = I.cond_of(s2, rv) if isinstance(rv, IntV) else None
        neg = False
        while c is not None and c[0] == 'not':
            c, neg = c[1], not neg
        expr = None
        if c is not None and c[0] == 'icmp' and c[1] in ('ne', 'eq'):
            x, y = c[2], c[3]
            lx = I.as_u(s2, x) if isinstance(x, IntV) else None
            ly = I.as_u(s2, y) if isinstance(y, IntV) else None
            if lx is not None and ly is not None and not ly.t and ly.c == 0:
                expr = lx
            elif lx is not None and ly is not None and not lx.t and lx.c == 0:
                expr = ly
        elif c is not None and c[0] == 'nz':
            expr = Lin.atom(c[1])
        sel = selector(I, s2, expr) if expr is not None else None
        if sel is None:
            und.append('the answer is not one place of memory selected by the unit (a table entry or one bit of a word): not analysed')
            continue
        ld, sh = sel
        be = BitEval(s2)
        sbits = be.lin_bits(ld[2], 24) + (be.lin_bits(sh, 8) if isinstance(sh, Lin) else [])
        if any(b == T for b in sbits):
            und.append('the place read (offset %r%s) is not attributed bit by bit to the unit' % (ld[2], ', bit %r' % (sh,) if sh is not None else ''))
            continue
        foreign = [b for b in sbits if isinstance(b, tuple) and b[1] != ua]
        if foreign:
            und.append('the place read depends on more than the unit')
            continue
        # the place each unit value of this path selects, read off the selector's bit vector
        lo, hi = s2.arange(ua)
        npl = 0
        for v in range(max(lo, 0), min(hi, 255) + 1):
            s3 = s2.clone()
            if not s3.assume_eq0(u.lin - v):
                continue
            place = 0
            for pos, b in enumerate(sbits):
                bit = b if b in (0, 1) else (v >> b[2]) & 1
                place |= bit << pos
            places.setdefault((ld[1], place), []).append(v)
            desc[(ld[1], place)] = (ld[2], sh)
            npl += 1
        if npl:
            ok += 1
    for key, vs in sorted(places.items(), key=lambda kv: kv[1]):
        vs = sorted(set(vs))
        if len(vs) > 1:
            off, sh = desc[key]
            probs.append('the membership test of %s reads one place of the folded set (offset %r%s) selected by the unit, and units 0x%02X and 0x%02X '
                         'select the same place: they are treated alike whatever the set holds (witness: set "\\x%02X", text "\\x%02X"; %d unit values '
                         'share a place with another)' % (member, off, ', bit %r' % (sh,) if sh is not None else '', vs[0], vs[1], vs[0], vs[1],
                                                          sum(len(set(x)) for x in places.values() if len(set(x)) > 1)))
            break
    run.ob(rule, short(g.dem), False if probs else (None if und or not ok else True),
           probs[0] if probs else (und[0] if und else 'every unit value selects a place of its own in the folded set (%d paths, %d places)' % (ok, len(places))),
           disc=member, loc=fn_loc(g))


def check_members(run, rule, m, F, E, member_re, member_label):
    roots = [name for name in F.lib if re.match(member_re, m.func(name).dem)]
    n = 0
    for (g, k) in candidates(m, F, roots, skip=lambda d: d.startswith('_ST_PRIVATE::find_c') or d.startswith('_ST_PRIVATE::compare_c')):
        n += 1
        judge(run, rule, m, F, E, g, k, member_label)
    return n


def accepted_units(I_factory, m, F, E, g, unit_idx):
    """Set of unit values (0..255) for which a predicate that depends on nothing but the unit answers true, by finite case analysis
    over the facts of each of its paths; None when some path's answer depends on memory or cannot be evaluated."""
    from ..terms import eval_lin, base_atoms
    I = Interp(m, F, E, PredHooks())
    st = State()
    args = []
    u = None
    for k, p in enumerate(g.params):
        if k == unit_idx:
            u = I.fresh_int(st, 8, 'unit')
            args.append(u)
        else:
            return None
    outs = I.run(I.start(g, args, st))
    ua = u.lin.single_atom()[0]
    acc = set()
    for o in outs:
        if o.kind != 'ret':
            return None
        s2 = o.st
        rv = o.val
        lo, hi = s2.arange(ua)
        facts = [f for f in s2.facts if base_atoms(f)]
        if any(not (base_atoms(f) <= set([ua])) for f in facts + list(s2.nefacts)):
            return None
        vals = []
        for v in range(max(lo, 0), min(hi, 255) + 1):
            env = {ua: v}
            try:
                if any(eval_lin(f, env) < 0 for f in facts) or any(eval_lin(f, env) == 0 for f in s2.nefacts):
                    continue
            except KeyError:
                return None
            vals.append(v)
        if isinstance(rv, IntV) and not rv.lin.t:
            if rv.lin.c & 1:
                acc |= set(vals)
            continue
        # a returned comparison: decide it per value
        c = I.cond_of(s2, rv) if isinstance(rv, IntV) else None
        if c is None:
            return None
        for v in vals:
            s3 = s2.clone()
            if not s3.assume_eq0(u.lin - v):
                continue
            r = I.decide(s3, c)
            if r is None:
                return None
            if r:
                acc.add(v)
    return acc
