"""C04 - ST::string has value semantics: reads never mutate, results never alias.

R04.1 closed representation: ST::string = {char_buffer}, buffer<T> = {T*, size_t, T[N]}; the fields are private (witnesses);
      only members of buffer<T> store to m_chars / m_size (IR-level encapsulation)
R04.2 const members / const-reference functions never write (deeply) through the string or buffer they read
R04.3 no bitwise copy of a string / buffer / string_stream object outside the owners (would duplicate the data pointer);
      exclusive ownership itself is C05's invariant
R04.4 the public non-const members of ST::string that may write *this are exactly constructors, destructor, set*, clear,
      operator= and operator+=; free functions write an ST::string& only where documented (operator>>)
R04.5 no mutable handle escapes: witnesses (data()/c_str()/[]/at/front/back/begin are const; rvalue view() deleted)
R04.6 (folded into R04.1: only members of buffer<T> store to m_chars / m_size, so every by-value result is built through
      the owners' constructors / assignment, which C05 proves to deep-copy)
R04.7 self-reference safety: an in-place mutator never reads through a raw pointer / view argument after it has started
      to modify its own storage (s = s.c_str(), s.set(s.view(..)))
"""
import re

from ..effects import func_roles, const_pointee
from .. import order, witness
from . import own, c20
from .common import short, fn_loc, class_of, is_ctor, is_dtor

LEVEL = 'proof'
EXPLANATION = ('struct layouts, deep write-effect summaries, IR-level encapsulation of the owner fields, mutator allow-list, '
               'event ordering for self-referential arguments and compile-fail witnesses; together with the inductive ownership '
               'invariant of C05 they give: no two live strings ever share storage and reads never write')

MUTATOR_OK = re.compile(r'^ST::string::(string\(|~string\(|set\(|set_validated\(|clear\(|operator=\(|operator\+=\()')
FREE_MUTATOR_OK = re.compile(r'operator>><')
OWNER_STRUCT_RE = re.compile(r'^class\.ST::(buffer|string|string_stream)(\.\d+)?$')
BUFFER_STRUCT_RE = re.compile(r'^class\.ST::buffer(\.\d+)?$')
RAWPTR_RE = re.compile(r'^(char|wchar_t|char16_t|char32_t|char8_t) const\*$|^std::basic_string_view<')


def layouts(run, m):
    st = m.structs.get('class.ST::string')
    run.need(st is not None and not st.get('opaque'), 'struct class.ST::string not found')
    fl = st['fields']
    ok = len(fl) == 1 and BUFFER_STRUCT_RE.match(fl[0][0].strip('%"'))
    run.ob('R04.1', 'layout of ST::string', bool(ok),
           'one char_buffer held by value' if ok else 'ST::string holds %d fields (%s): not a single by-value buffer' %
           (len(fl), ', '.join(x[0] for x in fl)), disc='fields')
    n = 1
    for elt in ('char', 'wchar_t', 'char16_t', 'char32_t'):
        L = own.buffer_layout(m, elt)
        n += 1
        run.ob('R04.1', 'layout of ST::buffer<%s>' % elt, L is not None,
               '{T*, size_t, T[%d]}' % L.n_local if L is not None else 'not {data pointer, size, in-object array}', disc='fields')
    return n


def field_encapsulation(run, m, F):
    """Only members of buffer<T> (resp. string_stream) store to the owner's scalar fields."""
    n = 0
    for name in F.lib:
        f = m.func(name)
        cls = class_of(f)
        geps = {}
        for i in f.all_insts():
            if i.op == 'getelementptr':
                sn = i.d['srcty'].strip('%"')
                steps = i.d['steps']
                if (BUFFER_STRUCT_RE.match(sn) or sn == 'class.ST::string_stream') and len(steps) == 2 and steps[1][0] == 's':
                    owner = 'ST::string_stream' if sn == 'class.ST::string_stream' else 'ST::buffer<'
                    nscalar = 3 if sn == 'class.ST::string_stream' else 2
                    if steps[1][1] < nscalar:
                        geps[i.id] = (sn, steps[1][1], owner)
            elif i.op == 'store' and i.a[1][0] == 'v' and i.a[1][1] in geps:
                sn, fld, owner = geps[i.a[1][1]]
                n += 1
                inside = cls.startswith(owner)
                run.ob('R04.1', short(f.dem), inside,
                       'stores field #%d of %s %s' % (fld, sn, 'inside the owner class' if inside else 'from outside the owner class'),
                       disc='field%d@%d' % (fld, i.id), loc=f.loc(i))
    return n


def bitwise_copies(run, m, F):
    n = 0
    bad = 0
    for name in F.lib:
        f = m.func(name)
        cls = class_of(f)
        for i in f.all_insts():
            if i.op in ('call', 'invoke') and (i.callee or '').startswith('llvm.mem') and not (i.callee or '').startswith('llvm.memset'):
                n += 1
                for a in i.a[:2]:
                    if a[0] != 'v':
                        continue
                    d = f.inst(a[1])
                    while d is not None and d.op == 'bitcast' and d.a[0][0] == 'v':
                        src = d.d.get('sty', '')
                        sn = src.rstrip('*').strip('%"')
                        if OWNER_STRUCT_RE.match(sn) and src.endswith('*') and not src.endswith('**'):
                            if not (cls.startswith('ST::buffer<') or cls == 'ST::string_stream'):
                                bad += 1
                                run.ob('R04.3', short(f.dem), False, 'bitwise copy of a %s object: the data pointer would be duplicated' % sn,
                                       disc='memcpy@%d' % i.id, loc=f.loc(i))
                        d = f.inst(d.a[0][1])
            elif i.op in ('load', 'store') and OWNER_STRUCT_RE.match(i.ty.strip('%"')):
                bad += 1
                run.ob('R04.3', short(f.dem), False, 'whole-object %s of %s' % (i.op, i.ty), disc='%s@%d' % (i.op, i.id), loc=f.loc(i))
    run.ob('R04.3', 'no bitwise copy of owner objects outside the owners', bad == 0, '%d memcpy/memmove sites inspected' % n)
    return n


def mutators(run, m, F, E):
    n = 0
    for name in F.lib:
        f = m.func(name)
        roles = func_roles(f)
        if class_of(f) == 'ST::string' and not f.is_const_method() and f.access == 'public' and 'this' in roles:
            ti = roles.index('this')
            if ti in E.sum[name]['writes'] or ti in E.sum[name]['frees']:
                n += 1
                ok = bool(MUTATOR_OK.match(f.dem))
                ex = E.explain(name, ti)
                run.ob('R04.4', short(f.dem), ok,
                       'documented mutator' if ok else 'public member outside {constructors, set, clear, =, +=} may modify the string: %s' %
                       '; '.join('%s %s' % (f.loc(i), k[:60]) for i, k in ex[:2]), loc=fn_loc(f))
        for k, r in enumerate(roles):
            if r in (None, 'this', 'sret'):
                continue
            if re.match(r'^ST::string\s*&$', r.strip()) and k in E.sum[name]['writes'] and class_of(f) != 'ST::string':
                n += 1
                ok = bool(FREE_MUTATOR_OK.search(f.dem))
                if not ok and '_ST_PRIVATE::' in f.dem.split('(')[0]:
                    # a private helper is a step of whatever public function calls it: fine when every library caller is itself a
                    # documented mutator of the string it hands on (an output parameter of its own, or a member allowed to change *this)
                    callers = [m.func(c) for c in F.lib if any(name in ts for (i2, ts, k2) in F.calls.get(c, ()))]
                    if callers and all(FREE_MUTATOR_OK.search(c.dem) or MUTATOR_OK.match(c.dem) or '_ST_PRIVATE::' in c.dem.split('(')[0] for c in callers):
                        run.ob('R04.4', short(f.dem), True, 'private helper reached only from documented mutators (%s)' %
                               ', '.join(short(c.dem, 40) for c in callers[:2]), disc='param %d' % k, loc=fn_loc(f))
                        continue
                    run.ob('R04.4', short(f.dem), None, 'private helper modifying an ST::string it is handed: its callers are not all documented mutators',
                           disc='param %d' % k, loc=fn_loc(f))
                    continue
                run.ob('R04.4', short(f.dem), ok, 'documented output parameter' if ok else
                       'function modifies an ST::string passed by non-const reference', disc='param %d' % k, loc=fn_loc(f))
    return n


def self_reference(run, m, F, E):
    n = 0
    for name in F.lib:
        f = m.func(name)
        cls = class_of(f)
        if not (cls == 'ST::string' or cls.startswith('ST::buffer<')) or f.is_const_method() or is_ctor(f) or is_dtor(f):
            continue
        roles = func_roles(f)
        if 'this' not in roles:
            continue
        ti = roles.index('this')
        if not (ti in E.sum[name]['writes'] or ti in E.sum[name]['frees']):
            continue
        raw = [k for k, r in enumerate(roles) if r not in (None, 'this', 'sret') and RAWPTR_RE.match(r.strip().replace(' const&', ''))]
        raw = [k for k in raw if k in E.sum[name]['reads']]
        if not raw:
            continue
        rset = set(raw)

        def first(i, evs):
            out = [(('W', ti), kind) for (kind, p) in evs if p == ti and (kind == 'store' or kind.startswith('call '))]
            return out or None

        def later(i, evs, tf):
            r = [p for (kind, p) in evs if p in rset and (kind == 'load' or kind.startswith('rcall '))]
            return tuple(sorted(set(r))) if r else None

        pairs = order.after_pairs(F, E, f, first, later)
        # a single call that both reads the argument and writes this is atomic here and judged inside the callee
        pairs = [x for x in pairs if x[0].id != x[2].id]
        for k in raw:
            n += 1
            v = [x for x in pairs if k in x[3]]
            if v:
                fi, flab, li, llab = v[0]
                run.ob('R04.7', short(f.dem), False,
                       'argument %d (%s) is still read at %s after the string started to modify its own storage at %s (%s): '
                       'wrong when the argument points into the string itself' % (k, roles[k], f.loc(li), f.loc(fi), flab[:60]),
                       disc='param %d' % k, loc=f.loc(li))
            else:
                run.ob('R04.7', short(f.dem), True, 'argument %d is fully read before the target is touched' % k, disc='param %d' % k)
    return n


LIBOBJ_RET = re.compile(r'^%"class\.ST::(buffer|string|string_stream)(\.\d+)?"\*$')


def value_results(run, m, F, E, tag=''):
    """R04.8: a function that returns a library object by reference may derive that reference only from an object it is allowed to
    modify (this of a non-const member, a non-const reference parameter: the operator= / operator+= / operator<< chaining idiom).
    A reference derived from a const `this` or a const-reference parameter hands the caller an alias of the source, not a value
    that owns its storage.  Provenance of the returned pointer comes from the whole-module effect summaries."""
    n = viol = 0
    for name in F.lib:
        f = m.func(name)
        if not LIBOBJ_RET.match(f.ret or ''):
            continue
        n += 1
        roles = func_roles(f)
        prov = E.sum[name]['ret']
        bad = []
        for o in prov:
            if not (isinstance(o, tuple) and o[0] == 'p'):
                continue
            k = o[1]
            r = roles[k] if k < len(roles) else None
            if r is None and k == f.this_index() and class_of(f):
                r = 'this'          # ref-qualified members (`const &`): the demangled parameter list is not parsed, the mangling still tells
            if r == 'this':
                if f.is_const_method():
                    bad.append('its own object (const member)')
            elif isinstance(r, str) and r != 'sret' and const_pointee(r) and ('&' in r or '*' in r):
                bad.append('its parameter `%s`' % r)
        if bad:
            viol += 1
        run.ob('R04.8' + tag, short(f.dem), not bad, 'returns a reference into %s, which it may only read: the caller receives an alias of the source, not a value owning its storage' % bad[0]
               if bad else 'the returned reference is to an object the function may modify (chaining idiom)', loc=fn_loc(f))
    return n, viol


def witnesses(run):
    res, stray = witness.run_witnesses()
    run.need(not stray, 'witness TU has errors outside witness lines:\n' + '\n'.join(stray[:5]))
    n = 0
    for wid, (rejected, msg) in sorted(res.items()):
        if not wid.startswith('R04'):
            continue
        n += 1
        run.ob(wid.split('-')[0], 'witness ' + wid, rejected,
               ('rejected by the compiler: ' + msg[:90]) if rejected else 'this line now compiles: the guarantee it witnesses is gone', disc=wid)
    return n


def check(run):
    m = run.module()
    F = run.facts()
    E = run.effects()
    run.trust('clang 14 lowering (LLVM IR, -O0, mem2reg)', 'effect summaries (pointer provenance)', 'clang -fsyntax-only for witnesses',
              'C05 (exclusive ownership invariant of buffer<T>)')
    run.assume('only instantiations present in gen/driver.cpp are analysed')
    run.floor('layouts', layouts(run, m), 5)
    run.floor('stores to owner fields', field_encapsulation(run, m, F), 60)
    nc, _ = c20.const_rule(run, m, F, E)
    for o in run.obs:
        if o['rule'] == 'R20.3':
            o['rule'] = 'R04.2'
    run.floor('read-only parameters', nc, 380)
    run.floor('memcpy sites inspected', bitwise_copies(run, m, F), 5)
    run.floor('mutators of ST::string', mutators(run, m, F, E), 60)
    run.floor('in-place mutators with raw pointer / view arguments', self_reference(run, m, F, E), 8)
    run.floor('compile-fail witnesses', witnesses(run), 12)
    nv, _ = value_results(run, m, F, E)
    run.floor('functions returning a library object by reference', nv, 60)
    # R04.9: "owns its own storage" is a statement about every value a member of ST::buffer<char> leaves behind - the storage ST::string
    # wraps.  The owner analysis of C05 (class invariant: short contents in the object, long ones in an exclusively owned block, the
    # pointer and the size class agreeing) is run here for the char buffer and owned by this property as well: a copy, an
    # assignment or an allocate() that leaves the pointer and the size class disagreeing makes later copies read the wrong array
    from . import c05, own
    # (the wide buffers as well: to_utf16 / to_utf32 / to_wchar / to_latin_1 return them, and "every string or buffer it returns owns
    # its own storage" speaks of those results too - their small-buffer limit differs from the char buffer's)
    sub = type(run)(run.prop, run.tier)
    seen = set()
    k = kc = 0
    for elt in c05.ELTS:
        Lc = own.buffer_layout(m, elt)
        run.need(Lc is not None, 'layout of ST::buffer<%s> not recognised' % elt)
        for f in c05.owner_methods(m, F, E, Lc):
            if f.name in seen:
                continue
            seen.add(f.name)
            c05.analyse_method(sub, m, F, E, Lc, f)
            k += 1
            kc += (elt == 'char')
    for o in sub.obs:
        o = dict(o)
        o['rule'] = 'R04.9'
        run.obs.append(o)
    run.floor('members of ST::buffer<char> under the owner invariant', kc, 11)
    run.floor('members of the four buffer types under the owner invariant', k, 44)
    # positive control for the expected-zero rule R04.8
    import os
    from .. import facts as factsmod, effects as effmod, frontend
    mc = run.module(tu='controls.cpp')
    mc.repo_include = os.path.join(frontend.VERIF, 'gen') + '/'
    Fc = factsmod.Facts(mc)
    Ec = effmod.Effects(Fc)
    sub = type(run)(run.prop, run.tier)
    value_results(sub, mc, Fc, Ec)
    run.need(any(o['verdict'] == 'violated' and 'alias_of' in o['subject'] for o in sub.obs),
             'positive control gen/controls.cpp: rule R04.8 did not fire on its planted violation')
    run.counts['positive controls fired'] = 1
    for r in ('R04.1', 'R04.2', 'R04.4', 'R04.7', 'R04.5'):
        for o in [o for o in run.obs if o['rule'] == r][:2]:
            run.sample(dict(rule=o['rule'], subject=o['subject'], verdict=o['verdict'], detail=o['detail'][:160]))
