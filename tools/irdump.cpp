// irdump: serialise an LLVM-14 bitcode/IR module into line-oriented JSON for the
// Python analyses in /verif/stir.  Line 1 is the module header (files, struct
// layouts, globals, aliases, declarations); every further line is one function
// definition.  This tool performs no analysis of its own.
#include "llvm/IR/LLVMContext.h"
#include "llvm/IR/Module.h"
#include "llvm/IR/Function.h"
#include "llvm/IR/Instructions.h"
#include "llvm/IR/IntrinsicInst.h"
#include "llvm/IR/Constants.h"
#include "llvm/IR/DebugInfoMetadata.h"
#include "llvm/IR/DebugInfo.h"
#include "llvm/IR/DataLayout.h"
#include "llvm/IR/Operator.h"
#include "llvm/IR/GetElementPtrTypeIterator.h"
#include "llvm/IRReader/IRReader.h"
#include "llvm/Support/SourceMgr.h"
#include "llvm/Support/raw_ostream.h"
#include "llvm/Demangle/Demangle.h"
#include <map>
#include <string>
#include <vector>

using namespace llvm;

static std::string esc(StringRef s)
{
    std::string out;
    out.reserve(s.size() + 2);
    out.push_back('"');
    for (unsigned char c : s) {
        switch (c) {
        case '"': out += "\\\""; break;
        case '\\': out += "\\\\"; break;
        case '\n': out += "\\n"; break;
        case '\r': out += "\\r"; break;
        case '\t': out += "\\t"; break;
        default:
            if (c < 0x20 || c >= 0x7f) {
                char buf[8];
                snprintf(buf, sizeof(buf), "\\u%04x", c);
                out += buf;
            } else {
                out.push_back(c);
            }
        }
    }
    out.push_back('"');
    return out;
}

static std::string tystr(Type *t)
{
    std::string s;
    raw_string_ostream os(s);
    t->print(os, false, true);
    return os.str();
}

struct Ctx
{
    const DataLayout *DL;
    std::map<const Value *, unsigned> ids;
    std::map<const BasicBlock *, unsigned> bids;
    std::map<std::string, unsigned> files;
    std::vector<std::string> filelist;

    unsigned fileid(const DIFile *f)
    {
        if (!f)
            return 0;
        std::string p = f->getDirectory().str();
        std::string n = f->getFilename().str();
        std::string full = (!n.empty() && n[0] == '/') ? n : (p + "/" + n);
        auto it = files.find(full);
        if (it != files.end())
            return it->second;
        unsigned id = filelist.size();
        filelist.push_back(full);
        files[full] = id;
        return id;
    }
};

static std::string operand(Ctx &C, const Value *v);

static std::string gepsteps(Ctx &C, const GEPOperator *G, bool &allconst, int64_t &total)
{
    std::string s = "[";
    bool first = true;
    allconst = true;
    total = 0;
    for (gep_type_iterator GTI = gep_type_begin(G), E = gep_type_end(G); GTI != E; ++GTI) {
        if (!first)
            s += ",";
        first = false;
        Value *idx = GTI.getOperand();
        if (StructType *ST = GTI.getStructTypeOrNull()) {
            unsigned fi = cast<ConstantInt>(idx)->getZExtValue();
            uint64_t off = C.DL->getStructLayout(ST)->getElementOffset(fi);
            total += off;
            s += "[\"s\"," + std::to_string(fi) + "," + std::to_string(off) + "," +
                 esc(ST->hasName() ? ST->getName() : StringRef("")) + "]";
        } else {
            uint64_t esz = C.DL->getTypeAllocSize(GTI.getIndexedType());
            if (auto *CI = dyn_cast<ConstantInt>(idx))
                total += CI->getSExtValue() * (int64_t)esz;
            else
                allconst = false;
            s += "[\"a\"," + operand(C, idx) + "," + std::to_string(esz) + "]";
        }
    }
    s += "]";
    return s;
}

static std::string constdata(Ctx &C, const Constant *c, int depth);

static std::string operand(Ctx &C, const Value *v)
{
    if (auto *CI = dyn_cast<ConstantInt>(v)) {
        SmallString<32> str;
        CI->getValue().toStringUnsigned(str);
        return "[\"i\"," + std::string(str.c_str()) + "," + std::to_string(CI->getBitWidth()) + "]";
    }
    if (isa<ConstantPointerNull>(v))
        return "[\"n\"]";
    if (isa<UndefValue>(v))
        return "[\"u\"]";
    if (auto *F = dyn_cast<Function>(v))
        return "[\"g\"," + esc(F->getName()) + "]";
    if (auto *G = dyn_cast<GlobalValue>(v))
        return "[\"g\"," + esc(G->getName()) + "]";
    if (auto *BB = dyn_cast<BasicBlock>(v))
        return "[\"b\"," + std::to_string(C.bids[BB]) + "]";
    if (auto *FP = dyn_cast<ConstantFP>(v)) {
        SmallString<32> str;
        FP->getValueAPF().toString(str);
        return "[\"f\"," + esc(str) + "]";
    }
    if (auto *CE = dyn_cast<ConstantExpr>(v)) {
        std::string s = "[\"ce\"," + esc(CE->getOpcodeName()) + "," + esc(tystr(CE->getType())) + ",[";
        for (unsigned i = 0; i < CE->getNumOperands(); ++i) {
            if (i)
                s += ",";
            s += operand(C, CE->getOperand(i));
        }
        s += "]";
        if (auto *G = dyn_cast<GEPOperator>(CE)) {
            bool allc;
            int64_t tot;
            std::string st = gepsteps(C, G, allc, tot);
            s += ",{\"steps\":" + st + ",\"off\":" + (allc ? std::to_string(tot) : std::string("null")) + "}";
        }
        s += "]";
        return s;
    }
    if (isa<ConstantAggregateZero>(v))
        return "[\"z\"]";
    if (isa<Instruction>(v) || isa<Argument>(v)) {
        auto it = C.ids.find(v);
        if (it != C.ids.end())
            return "[\"v\"," + std::to_string(it->second) + "]";
        return "[\"c\",\"?value\"]";
    }
    if (isa<MetadataAsValue>(v))
        return "[\"md\"]";
    if (isa<InlineAsm>(v))
        return "[\"asm\"]";
    if (auto *c = dyn_cast<Constant>(v))
        return "[\"k\"," + constdata(C, c, 0) + "]";
    return "[\"c\",\"?\"]";
}

// Initialiser of a global, as nested JSON (numbers, lists, operand encodings).
static std::string constdata(Ctx &C, const Constant *c, int depth)
{
    if (depth > 6)
        return "\"...\"";
    if (auto *CDS = dyn_cast<ConstantDataSequential>(c)) {
        if (CDS->getElementType()->isIntegerTy()) {
            std::string s = "[";
            for (unsigned i = 0; i < CDS->getNumElements(); ++i) {
                if (i)
                    s += ",";
                s += std::to_string(CDS->getElementAsInteger(i));
            }
            return s + "]";
        }
        return "\"fpdata\"";
    }
    if (isa<ConstantAggregateZero>(c)) {
        Type *t = c->getType();
        if (auto *AT = dyn_cast<ArrayType>(t)) {
            if (AT->getElementType()->isIntegerTy() && AT->getNumElements() <= 4096) {
                std::string s = "[";
                for (uint64_t i = 0; i < AT->getNumElements(); ++i) {
                    if (i)
                        s += ",";
                    s += "0";
                }
                return s + "]";
            }
        }
        return "\"zero\"";
    }
    if (auto *CA = dyn_cast<ConstantAggregate>(c)) {
        std::string s = "[";
        for (unsigned i = 0; i < CA->getNumOperands(); ++i) {
            if (i)
                s += ",";
            s += constdata(C, cast<Constant>(CA->getOperand(i)), depth + 1);
        }
        return s + "]";
    }
    if (auto *CI = dyn_cast<ConstantInt>(c)) {
        SmallString<32> str;
        CI->getValue().toStringUnsigned(str);
        return std::string(str.c_str());
    }
    return operand(C, c);
}

static const char *linkage(const GlobalValue &G)
{
    switch (G.getLinkage()) {
    case GlobalValue::ExternalLinkage: return "external";
    case GlobalValue::AvailableExternallyLinkage: return "available_externally";
    case GlobalValue::LinkOnceAnyLinkage: return "linkonce";
    case GlobalValue::LinkOnceODRLinkage: return "linkonce_odr";
    case GlobalValue::WeakAnyLinkage: return "weak";
    case GlobalValue::WeakODRLinkage: return "weak_odr";
    case GlobalValue::InternalLinkage: return "internal";
    case GlobalValue::PrivateLinkage: return "private";
    case GlobalValue::ExternalWeakLinkage: return "extern_weak";
    case GlobalValue::CommonLinkage: return "common";
    case GlobalValue::AppendingLinkage: return "appending";
    }
    return "?";
}

static std::string argattrs(const Function &F, unsigned i)
{
    std::string s = "[";
    bool first = true;
    auto add = [&](const std::string &a) {
        if (!first)
            s += ",";
        first = false;
        s += esc(a);
    };
    if (F.hasParamAttribute(i, Attribute::StructRet))
        add("sret");
    if (F.hasParamAttribute(i, Attribute::ByVal))
        add("byval");
    if (F.hasParamAttribute(i, Attribute::NoAlias))
        add("noalias");
    if (F.hasParamAttribute(i, Attribute::NonNull))
        add("nonnull");
    if (F.hasParamAttribute(i, Attribute::ReadOnly))
        add("readonly");
    if (F.hasParamAttribute(i, Attribute::ReadNone))
        add("readnone");
    if (F.hasParamAttribute(i, Attribute::SExt))
        add("signext");
    if (F.hasParamAttribute(i, Attribute::ZExt))
        add("zeroext");
    uint64_t d = F.getParamDereferenceableBytes(i);
    if (d)
        add("deref:" + std::to_string(d));
    s += "]";
    return s;
}

static std::string fnsig(Ctx &C, const Function &F)
{
    std::string s;
    s += "\"ret\":" + esc(tystr(F.getReturnType()));
    s += ",\"vararg\":" + std::string(F.isVarArg() ? "true" : "false");
    s += ",\"nounwind\":" + std::string(F.doesNotThrow() ? "true" : "false");
    s += ",\"noreturn\":" + std::string(F.doesNotReturn() ? "true" : "false");
    s += ",\"readonly\":" + std::string(F.onlyReadsMemory() ? "true" : "false");
    s += ",\"readnone\":" + std::string(F.doesNotAccessMemory() ? "true" : "false");
    s += ",\"linkage\":" + esc(linkage(F));
    s += ",\"params\":[";
    unsigned i = 0;
    for (const Argument &A : F.args()) {
        if (i)
            s += ",";
        s += "{\"ty\":" + esc(tystr(A.getType())) + ",\"attrs\":" + argattrs(F, i);
        if (F.hasParamAttribute(i, Attribute::StructRet))
            s += ",\"sret_ty\":" + esc(tystr(F.getParamStructRetType(i)));
        if (F.hasParamAttribute(i, Attribute::ByVal))
            s += ",\"byval_ty\":" + esc(tystr(F.getParamByValType(i)));
        s += "}";
        ++i;
    }
    s += "]";
    return s;
}

static const char *predname(CmpInst::Predicate p)
{
    return CmpInst::getPredicateName(p).data();
}

static void dumpFunction(Ctx &C, const Function &F, raw_ostream &OS)
{
    C.ids.clear();
    C.bids.clear();
    unsigned n = 0;
    for (const Argument &A : F.args())
        C.ids[&A] = n++;
    unsigned bn = 0;
    for (const BasicBlock &BB : F) {
        C.bids[&BB] = bn++;
        for (const Instruction &I : BB)
            C.ids[&I] = n++;
    }

    std::string s = "{\"name\":" + esc(F.getName());
    s += ",\"dem\":" + esc(demangle(F.getName().str()));
    s += "," + fnsig(C, F);
    s += ",\"argnames\":[";
    {
        unsigned i = 0;
        for (const Argument &A : F.args()) {
            if (i++)
                s += ",";
            s += esc(A.getName());
        }
    }
    s += "]";
    unsigned fnfile = 0;
    if (const DISubprogram *SP = F.getSubprogram()) {
        fnfile = C.fileid(SP->getFile());
        s += ",\"file\":" + std::to_string(fnfile);
        s += ",\"line\":" + std::to_string(SP->getLine());
        const DISubprogram *decl = SP->getDeclaration() ? SP->getDeclaration() : SP;
        unsigned acc = decl->getFlags() & DINode::FlagAccessibility;
        const char *a = acc == DINode::FlagPublic ? "public"
                        : acc == DINode::FlagPrivate ? "private"
                        : acc == DINode::FlagProtected ? "protected" : "";
        s += ",\"access\":" + esc(a);
        std::string scope;
        if (const DIScope *sc = decl->getScope()) {
            if (auto *CT = dyn_cast<DICompositeType>(sc)) {
                scope = CT->getName().str();
                s += ",\"scope_kind\":" + esc(CT->getTag() == dwarf::DW_TAG_class_type ? "class"
                                              : CT->getTag() == dwarf::DW_TAG_structure_type ? "struct" : "other");
            }
        }
        s += ",\"scope\":" + esc(scope);
        s += ",\"spname\":" + esc(SP->getName());
    }
    if (F.hasPersonalityFn())
        s += ",\"personality\":true";
    OS << s << ",\"blocks\":[";

    std::string vars = "{";
    bool firstvar = true;
    bool firstbb = true;
    for (const BasicBlock &BB : F) {
        if (!firstbb)
            OS << ",";
        firstbb = false;
        OS << "{\"id\":" << C.bids[&BB] << ",\"name\":" << esc(BB.getName()) << ",\"insts\":[";
        bool firsti = true;
        for (const Instruction &I : BB) {
            if (auto *DV = dyn_cast<DbgVariableIntrinsic>(&I)) {
                if (auto *DVI = dyn_cast<DbgValueInst>(DV)) {
                    Value *val = DVI->getValue();
                    if (val && C.ids.count(val)) {
                        if (!firstvar)
                            vars += ",";
                        firstvar = false;
                        vars += "\"" + std::to_string(C.ids[val]) + "\":" + esc(DVI->getVariable()->getName());
                    }
                } else if (auto *DD = dyn_cast<DbgDeclareInst>(DV)) {
                    Value *val = DD->getAddress();
                    if (val && C.ids.count(val)) {
                        if (!firstvar)
                            vars += ",";
                        firstvar = false;
                        vars += "\"" + std::to_string(C.ids[val]) + "\":" + esc(DD->getVariable()->getName());
                    }
                }
                continue;
            }
            if (!firsti)
                OS << ",";
            firsti = false;
            std::string o = "{\"i\":" + std::to_string(C.ids[&I]);
            o += ",\"op\":" + esc(I.getOpcodeName());
            o += ",\"ty\":" + esc(tystr(I.getType()));
            if (I.hasName())
                o += ",\"n\":" + esc(I.getName());
            if (const DebugLoc &DL = I.getDebugLoc()) {
                o += ",\"l\":" + std::to_string(DL.getLine());
                if (auto *sc = dyn_cast_or_null<DIScope>(DL.getScope())) {
                    unsigned fid = C.fileid(sc->getFile());
                    if (fid != fnfile)
                        o += ",\"f\":" + std::to_string(fid);
                }
            }
            auto ops = [&](unsigned from, unsigned to) {
                std::string r = "[";
                for (unsigned k = from; k < to; ++k) {
                    if (k != from)
                        r += ",";
                    r += operand(C, I.getOperand(k));
                }
                return r + "]";
            };
            if (auto *CB = dyn_cast<CallBase>(&I)) {
                o += ",\"callee\":" + operand(C, CB->getCalledOperand());
                o += ",\"fty\":" + esc(tystr(CB->getFunctionType()));
                o += ",\"a\":[";
                for (unsigned k = 0; k < CB->arg_size(); ++k) {
                    if (k)
                        o += ",";
                    o += operand(C, CB->getArgOperand(k));
                }
                o += "]";
                if (CB->doesNotThrow())
                    o += ",\"nounwind\":true";
                if (CB->doesNotReturn())
                    o += ",\"noreturn\":true";
                if (auto *II = dyn_cast<InvokeInst>(CB)) {
                    o += ",\"normal\":" + std::to_string(C.bids[II->getNormalDest()]);
                    o += ",\"unwind\":" + std::to_string(C.bids[II->getUnwindDest()]);
                }
                for (unsigned k = 0; k < CB->arg_size(); ++k) {
                    if (CB->paramHasAttr(k, Attribute::StructRet)) {
                        o += ",\"sret\":" + std::to_string(k);
                        break;
                    }
                }
            } else if (auto *BI = dyn_cast<BranchInst>(&I)) {
                if (BI->isConditional()) {
                    o += ",\"a\":[" + operand(C, BI->getCondition()) + "]";
                    o += ",\"succ\":[" + std::to_string(C.bids[BI->getSuccessor(0)]) + "," +
                         std::to_string(C.bids[BI->getSuccessor(1)]) + "]";
                } else {
                    o += ",\"a\":[],\"succ\":[" + std::to_string(C.bids[BI->getSuccessor(0)]) + "]";
                }
            } else if (auto *SI = dyn_cast<SwitchInst>(&I)) {
                o += ",\"a\":[" + operand(C, SI->getCondition()) + "]";
                o += ",\"default\":" + std::to_string(C.bids[SI->getDefaultDest()]);
                o += ",\"cases\":[";
                bool fc = true;
                for (auto &Case : SI->cases()) {
                    if (!fc)
                        o += ",";
                    fc = false;
                    SmallString<32> str;
                    Case.getCaseValue()->getValue().toStringUnsigned(str);
                    o += "[" + std::string(str.c_str()) + "," + std::to_string(C.bids[Case.getCaseSuccessor()]) + "]";
                }
                o += "]";
            } else if (auto *PN = dyn_cast<PHINode>(&I)) {
                o += ",\"inc\":[";
                for (unsigned k = 0; k < PN->getNumIncomingValues(); ++k) {
                    if (k)
                        o += ",";
                    o += "[" + operand(C, PN->getIncomingValue(k)) + "," +
                         std::to_string(C.bids[PN->getIncomingBlock(k)]) + "]";
                }
                o += "]";
            } else if (auto *GEP = dyn_cast<GetElementPtrInst>(&I)) {
                bool allc;
                int64_t tot;
                std::string st = gepsteps(C, cast<GEPOperator>(GEP), allc, tot);
                o += ",\"base\":" + operand(C, GEP->getPointerOperand());
                o += ",\"srcty\":" + esc(tystr(GEP->getSourceElementType()));
                o += ",\"steps\":" + st;
                o += ",\"off\":" + (allc ? std::to_string(tot) : std::string("null"));
                if (GEP->isInBounds())
                    o += ",\"inbounds\":true";
            } else if (auto *AI = dyn_cast<AllocaInst>(&I)) {
                o += ",\"aty\":" + esc(tystr(AI->getAllocatedType()));
                o += ",\"size\":" + std::to_string(C.DL->getTypeAllocSize(AI->getAllocatedType()));
                o += ",\"a\":" + ops(0, 1);
            } else if (auto *LP = dyn_cast<LandingPadInst>(&I)) {
                o += ",\"cleanup\":" + std::string(LP->isCleanup() ? "true" : "false");
                o += ",\"clauses\":[";
                for (unsigned k = 0; k < LP->getNumClauses(); ++k) {
                    if (k)
                        o += ",";
                    o += "[" + std::string(LP->isCatch(k) ? "\"catch\"" : "\"filter\"") + "," +
                         operand(C, LP->getClause(k)) + "]";
                }
                o += "]";
            } else if (auto *CI = dyn_cast<CmpInst>(&I)) {
                o += ",\"pred\":" + esc(predname(CI->getPredicate()));
                o += ",\"a\":" + ops(0, 2);
                o += ",\"sty\":" + esc(tystr(CI->getOperand(0)->getType()));
            } else if (auto *EV = dyn_cast<ExtractValueInst>(&I)) {
                o += ",\"a\":" + ops(0, 1) + ",\"idx\":[";
                bool f2 = true;
                for (unsigned ix : EV->indices()) {
                    if (!f2)
                        o += ",";
                    f2 = false;
                    o += std::to_string(ix);
                }
                o += "]";
            } else if (auto *IV = dyn_cast<InsertValueInst>(&I)) {
                o += ",\"a\":" + ops(0, 2) + ",\"idx\":[";
                bool f2 = true;
                for (unsigned ix : IV->indices()) {
                    if (!f2)
                        o += ",";
                    f2 = false;
                    o += std::to_string(ix);
                }
                o += "]";
            } else {
                o += ",\"a\":" + ops(0, I.getNumOperands());
                if (isa<CastInst>(&I))
                    o += ",\"sty\":" + esc(tystr(I.getOperand(0)->getType()));
                if (auto *SI2 = dyn_cast<StoreInst>(&I)) {
                    o += ",\"sty\":" + esc(tystr(SI2->getValueOperand()->getType()));
                    o += ",\"size\":" + std::to_string(C.DL->getTypeStoreSize(SI2->getValueOperand()->getType()));
                    if (SI2->isVolatile())
                        o += ",\"volatile\":true";
                    if (SI2->isAtomic())
                        o += ",\"atomic\":true";
                }
                if (auto *LI = dyn_cast<LoadInst>(&I)) {
                    o += ",\"size\":" + std::to_string(C.DL->getTypeStoreSize(LI->getType()));
                    if (LI->isVolatile())
                        o += ",\"volatile\":true";
                    if (LI->isAtomic())
                        o += ",\"atomic\":true";
                }
                if (auto *OBO = dyn_cast<OverflowingBinaryOperator>(&I)) {
                    if (OBO->hasNoSignedWrap())
                        o += ",\"nsw\":true";
                    if (OBO->hasNoUnsignedWrap())
                        o += ",\"nuw\":true";
                }
                if (auto *PEO = dyn_cast<PossiblyExactOperator>(&I)) {
                    if (PEO->isExact())
                        o += ",\"exact\":true";
                }
            }
            o += "}";
            OS << o;
        }
        OS << "]}";
    }
    vars += "}";
    OS << "],\"vars\":" << vars << "}\n";
}

int main(int argc, char **argv)
{
    if (argc < 3) {
        errs() << "usage: irdump <in.bc|in.ll> <out.jsonl>\n";
        return 2;
    }
    LLVMContext Context;
    SMDiagnostic Err;
    std::unique_ptr<Module> M = parseIRFile(argv[1], Err, Context);
    if (!M) {
        Err.print(argv[0], errs());
        return 2;
    }
    std::error_code EC;
    raw_fd_ostream OS(argv[2], EC);
    if (EC) {
        errs() << "cannot open output\n";
        return 2;
    }
    Ctx C;
    C.DL = &M->getDataLayout();
    C.filelist.push_back("");

    // Function bodies first into a buffer, so that the file table is complete in the header.
    std::string body;
    raw_string_ostream BOS(body);
    for (const Function &F : *M) {
        if (F.isDeclaration())
            continue;
        dumpFunction(C, F, BOS);
    }
    BOS.flush();
    C.ids.clear();
    C.bids.clear();

    OS << "{\"triple\":" << esc(M->getTargetTriple());
    OS << ",\"structs\":{";
    bool first = true;
    for (StructType *ST : M->getIdentifiedStructTypes()) {
        if (!first)
            OS << ",";
        first = false;
        OS << esc(ST->getName()) << ":{";
        if (ST->isOpaque()) {
            OS << "\"opaque\":true}";
            continue;
        }
        const StructLayout *SL = C.DL->getStructLayout(ST);
        OS << "\"size\":" << SL->getSizeInBytes() << ",\"fields\":[";
        for (unsigned i = 0; i < ST->getNumElements(); ++i) {
            if (i)
                OS << ",";
            OS << "[" << esc(tystr(ST->getElementType(i))) << "," << SL->getElementOffset(i) << ","
               << C.DL->getTypeAllocSize(ST->getElementType(i)) << "]";
        }
        OS << "]}";
    }
    OS << "},\"globals\":{";
    first = true;
    for (const GlobalVariable &G : M->globals()) {
        if (!first)
            OS << ",";
        first = false;
        OS << esc(G.getName()) << ":{\"const\":" << (G.isConstant() ? "true" : "false")
           << ",\"linkage\":" << esc(linkage(G)) << ",\"ty\":" << esc(tystr(G.getValueType()))
           << ",\"tls\":" << (G.isThreadLocal() ? "true" : "false")
           << ",\"decl\":" << (G.isDeclaration() ? "true" : "false")
           << ",\"dem\":" << esc(demangle(G.getName().str()));
        SmallVector<DIGlobalVariableExpression *, 1> GVs;
        G.getDebugInfo(GVs);
        if (!GVs.empty()) {
            auto *GV = GVs[0]->getVariable();
            OS << ",\"file\":" << C.fileid(GV->getFile()) << ",\"line\":" << GV->getLine()
               << ",\"srcname\":" << esc(GV->getName());
        }
        if (G.hasInitializer())
            OS << ",\"init\":" << constdata(C, G.getInitializer(), 0);
        OS << "}";
    }
    OS << "},\"aliases\":{";
    first = true;
    for (const GlobalAlias &A : M->aliases()) {
        if (!first)
            OS << ",";
        first = false;
        OS << esc(A.getName()) << ":" << esc(A.getAliaseeObject() ? A.getAliaseeObject()->getName() : StringRef(""));
    }
    OS << "},\"decls\":{";
    first = true;
    for (const Function &F : *M) {
        if (!F.isDeclaration())
            continue;
        if (!first)
            OS << ",";
        first = false;
        OS << esc(F.getName()) << ":{\"dem\":" << esc(demangle(F.getName().str())) << "," << fnsig(C, F)
           << ",\"intrinsic\":" << (F.isIntrinsic() ? "true" : "false") << "}";
    }
    OS << "},\"enums\":{";
    {
        DebugInfoFinder Finder;
        Finder.processModule(*M);
        std::map<std::string, std::string> seen;
        for (DIType *T : Finder.types()) {
            auto *CT = dyn_cast<DICompositeType>(T);
            if (!CT || CT->getTag() != dwarf::DW_TAG_enumeration_type || CT->getName().empty())
                continue;
            std::string qn = CT->getName().str();
            for (const DIScope *sc = CT->getScope(); sc; sc = sc->getScope()) {
                if (isa<DIFile>(sc) || isa<DICompileUnit>(sc))
                    break;
                if (!sc->getName().empty())
                    qn = sc->getName().str() + "::" + qn;
            }
            if (seen.count(qn))
                continue;
            std::string v = "{";
            bool f2 = true;
            for (const DINode *E : CT->getElements()) {
                if (auto *EN = dyn_cast<DIEnumerator>(E)) {
                    if (!f2)
                        v += ",";
                    f2 = false;
                    SmallString<32> str;
                    EN->getValue().toStringSigned(str);
                    v += esc(EN->getName()) + ":" + std::string(str.c_str());
                }
            }
            v += "}";
            seen[qn] = v;
        }
        first = true;
        for (auto &kv : seen) {
            if (!first)
                OS << ",";
            first = false;
            OS << esc(kv.first) << ":" << kv.second;
        }
    }
    OS << "},\"files\":[";
    for (unsigned i = 0; i < C.filelist.size(); ++i) {
        if (i)
            OS << ",";
        OS << esc(C.filelist[i]);
    }
    OS << "]}\n";
    OS << body;
    OS.close();
    return 0;
}
