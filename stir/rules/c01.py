"""C01 - well-formed text transcodes losslessly and to the standard encoding.

R01.1 codec conformity: the four per-character codecs and the Latin-1 loops implement the standard bit layouts
      (Unicode 15 Table 3-6 / 3-5 / RFC 2781) with the standard range boundaries - bit provenance of every stored /
      decoded unit is compared with the tables; decode o encode is then the identity because both match one table
R01.2 unit-exact loops: in every convert loop the value handed to the target encoder (or stored) is the decoder's result,
      unmodified except for the substitute constants; consumed units per class are checked in C02/C03
R01.3 route funnel: every public conversion overload forwards the (pointer,size) of its own argument to one core wrapper
R01.4 mode independence on well-formed input (C02 R02.2 'mode independence' obligations are re-run here for accepted classes)
"""
import re

from ..interp import Interp, Hooks
from ..state import State, Obj, IntV, PtrV, NULL
from ..terms import Lin, ZERO
from .. import bits as B
from ..effects import func_roles
from . import conv, c02, c03
from .common import short, fn_loc, class_of

LEVEL = 'proof'
EXPLANATION = ('bit-provenance comparison of every unit written / decoded by the per-character codecs with the Unicode encoding '
               'tables, per value class and with class boundaries taken from the path conditions; SSA dataflow from decoder to '
               'encoder in each convert loop; forwarding structure of the public overloads from the resolved call graph')


def X(sym, hi, lo):
    """bits hi..lo of symbol, LSB first."""
    return [('x', sym, i) for i in range(lo, hi + 1)]


def unit(*fields):
    """fields from MSB to LSB: ints given as (value, width) or lists of bit descriptors (LSB first)."""
    out = []
    for f in reversed(fields):
        if isinstance(f, tuple):
            v, w = f
            out += [(v >> i) & 1 for i in range(w)]
        else:
            out += f
    return out


# Unicode Table 3-6 (UTF-8 bit distribution), rows: (lo, hi, [units])
UTF8_ENC = [
    (0x0, 0x7F, [unit((0, 1), X('ch', 6, 0))]),
    (0x80, 0x7FF, [unit((0b110, 3), X('ch', 10, 6)), unit((0b10, 2), X('ch', 5, 0))]),
    (0x800, 0xFFFF, [unit((0b1110, 4), X('ch', 15, 12)), unit((0b10, 2), X('ch', 11, 6)), unit((0b10, 2), X('ch', 5, 0))]),
    (0x10000, 0x10FFFF, [unit((0b11110, 5), X('ch', 20, 18)), unit((0b10, 2), X('ch', 17, 12)), unit((0b10, 2), X('ch', 11, 6)),
                         unit((0b10, 2), X('ch', 5, 0))]),
]
# Table 3-5 / RFC 2781: y = ch - 0x10000
UTF16_ENC = [
    (0x0, 0xFFFF, [unit(X('ch', 15, 0))]),
    (0x10000, 0x10FFFF, [unit((0b110110, 6), X('y', 19, 10)), unit((0b110111, 6), X('y', 9, 0))]),
]


def pad(v, w):
    return (v + [0] * w)[:w]


class EncHooks(Hooks):
    max_depth = 6

    def on_store(self, I, st, inst, p, v, nbytes):
        if p.obj == 'OUT':
            st.ev('out-store', inst, p.off, nbytes, v)


def encoder(run, m, F, E, prefix, table, eb, label):
    f = c02.find(m, F, prefix)
    run.need(f is not None, '%s not found' % prefix)
    errs = m.enums.get('_ST_PRIVATE::conversion_error_t', {})
    I = Interp(m, F, E, EncHooks())
    st = State()
    st.rng['ch'] = (0, (1 << 32) - 1)
    out = Obj('ext', None)
    out.lazy = True
    st.objs['OUT'] = out
    cell = Obj('alloca', Lin.const(8))
    cell.cells[0] = (8, PtrV('OUT', ZERO))
    st.objs['destcell'] = cell
    outs = I.run(I.start(f, [PtrV('destcell'), IntV(32, Lin.atom('ch'), 'u')], st))
    rows = dict(((lo, hi), units) for lo, hi, units in table)
    seen = set()
    top = table[-1][1]
    n = 0
    for o in outs:
        n += 1
        s2 = o.st
        lo, hi = s2.arange('ch')
        stores = [e for e in s2.events if e[0] == 'out-store']
        code = o.val.lin.c if isinstance(o.val, IntV) and not o.val.lin.t else None
        disc = 'ch in [0x%X,0x%X]' % (lo, hi)
        if o.kind != 'ret':
            run.ob('R01.1', label, False, 'path ends in %s' % o.kind, disc=disc, loc=fn_loc(f))
            continue
        if lo > top:
            ok = (hi == (1 << 32) - 1 and lo == top + 1 and not stores and code == errs.get('out_of_range'))
            run.ob('R01.1', label, ok, 'values above U+10FFFF are refused (out_of_range), nothing stored' if ok else
                   'values above U+10FFFF: boundary 0x%X, %d unit(s) stored, return code %r' % (lo, len(stores), code), disc=disc, loc=fn_loc(f))
            seen.add('oor')
            continue
        if (lo, hi) not in rows:
            run.ob('R01.1', label, False, 'value class [0x%X,0x%X] is not a row of the encoding table (rows: %s)' %
                   (lo, hi, ', '.join('[0x%X,0x%X]' % k for k in sorted(rows))), disc=disc, loc=fn_loc(f))
            continue
        seen.add((lo, hi))
        want = rows[(lo, hi)]
        problems = []
        if code != errs.get('success', 0):
            problems.append('returns code %r' % code)
        if len(stores) != len(want):
            problems.append('%d unit(s) stored, the table has %d' % (len(stores), len(want)))
        else:
            be = B.BitEval(s2)
            if 'y' in str(want):
                s2.rng['y'] = (0, 0xFFFFF)
                be.alias = {Lin.atom('ch') - 0x10000: ('y', 20)}
            for k, (ev, w) in enumerate(zip(stores, want)):
                _, inst, off, nb, v = ev
                if s2.is_eq0(off - k * eb) is not True or nb != eb:
                    problems.append('unit %d stored at offset %r (size %d)' % (k, off, nb))
                    continue
                got = lin_bits(I, s2, be, v, eb * 8)
                if got != pad(w, eb * 8):
                    problems.append('unit %d is [%s], the standard says [%s] (line %d)' % (k, B.fmt(got), B.fmt(pad(w, eb * 8)), inst.line))
        run.ob('R01.1', label, not problems, '; '.join(problems) if problems else 'all %d unit(s) match the table bit for bit' % len(want),
               disc=disc, loc=fn_loc(f))
    missing = [k for k in rows if k not in seen]
    run.ob('R01.1', label, not missing and 'oor' in seen, 'every row of the table is a path class' if not missing and 'oor' in seen else
           'rows without a matching path: %s' % missing, disc='coverage')
    return n


def lin_bits(I, st, be, v, w):
    if not isinstance(v, IntV):
        return [B.T] * w
    l = I.as_u(st, v)
    al = getattr(be, 'alias', None)
    if al:
        return AliasEval(st, al).lin_bits(l, w)
    return be.lin_bits(l, w)


class AliasEval(B.BitEval):
    def __init__(self, st, alias):
        B.BitEval.__init__(self, st)
        self.al = alias

    def lin_bits(self, l, w):
        if isinstance(l, Lin):
            for k, (sym, nb) in self.al.items():
                if l == k:
                    return B.sym_bits(sym, nb, w)
                # scaled alias: 2^s * (k)
                if len(l.t) == 1 and len(k.t) == 1 and l.t[0][0] == k.t[0][0]:
                    c = l.t[0][1]
                    if c > 0 and (c & (c - 1)) == 0 and k.t[0][1] == 1 and l.c == k.c * c:
                        return B.shl(B.sym_bits(sym, nb, w), c.bit_length() - 1, w)
        return B.BitEval.lin_bits(self, l, w)


# ---------------------------------------------------------------------------------------------------------------
# decoders, probed through the convert loops that store the decoded scalar as one 32-bit unit

def b(j, hi, lo):
    return X('u%d' % j, hi, lo)


D2 = unit(b(0, 4, 0), b(1, 5, 0))
D3 = unit(b(0, 3, 0), b(1, 5, 0), b(2, 5, 0))
D4 = unit(b(0, 2, 0), b(1, 5, 0), b(2, 5, 0), b(3, 5, 0))
CONT = (0x80, 0xBF)
# Unicode Table 3-7: the well-formed (shortest-form, scalar-value) byte sequences; C01 is about these only
UTF8_WELLFORMED = [
    ('00..7F', [(0x00, 0x7F)], unit(b(0, 6, 0))),
    ('C2..DF 80..BF', [(0xC2, 0xDF), CONT], D2),
    ('E0 A0..BF 80..BF', [(0xE0, 0xE0), (0xA0, 0xBF), CONT], D3),
    ('E1..EC 80..BF 80..BF', [(0xE1, 0xEC), CONT, CONT], D3),
    ('ED 80..9F 80..BF', [(0xED, 0xED), (0x80, 0x9F), CONT], D3),
    ('EE..EF 80..BF 80..BF', [(0xEE, 0xEF), CONT, CONT], D3),
    ('F0 90..BF 80..BF 80..BF', [(0xF0, 0xF0), (0x90, 0xBF), CONT, CONT], D4),
    ('F1..F3 80..BF 80..BF 80..BF', [(0xF1, 0xF3), CONT, CONT, CONT], D4),
    ('F4 80..8F 80..BF 80..BF', [(0xF4, 0xF4), (0x80, 0x8F), CONT, CONT], D4),
]
UTF8_DEC = dict((nm, vec) for nm, units, vec in UTF8_WELLFORMED)


def utf8_wellformed_classes():
    return [dict(name=nm, units=units, k=None, need=len(units), expect='accept') for nm, units, vec in UTF8_WELLFORMED]
UTF16_DEC = {      # (vector, constant subtracted from the decoded value first)
    'non-surrogate (low range)': (unit(b(0, 15, 0)), 0),
    'non-surrogate (high range)': (unit(b(0, 15, 0)), 0),
    'high,low pair': (unit(b(0, 9, 0), b(1, 9, 0)), 0x10000),
}


def known_bits(vec, rngs):
    """Replace symbolic bits that are constant over the unit's range by that constant."""
    out = []
    for bt in vec:
        if isinstance(bt, tuple) and bt[0] == 'x' and bt[1] in rngs:
            lo, hi = rngs[bt[1]]
            if lo >= 0 and (lo >> bt[2]) == (hi >> bt[2]):
                out.append((lo >> bt[2]) & 1)
                continue
        out.append(bt)
    return out


def decoder(run, m, F, E, probe_prefix, classes, table, eb_src, label):
    f = c02.find(m, F, probe_prefix)
    run.need(f is not None, '%s not found' % probe_prefix)
    modes = dict(c03.modes(m))
    n = 0
    for cls in classes:
        if cls['expect'] != 'accept' or cls['name'] not in table:
            continue
        want = table[cls['name']]
        sub = 0
        if isinstance(want, tuple):
            want, sub = want
        n += 1
        I = Interp(m, F, E, conv.ConvHooks(eb_src, 4))
        st = c02.class_state(cls, eb_src)
        its_all = conv.run_iteration(I, f, st, c03.conv_args(I, f, modes['check_validity'], 0, eb_src), eb_src, 4)
        its = [it for it in its_all if it.kind == 'backedge']
        problems, und = [], []
        if not its:
            rej = [it for it in its_all if it.kind == 'ret' and c02.ret_code(it) not in (None, 0)]
            (problems if rej else und).append('a well-formed sequence of this class is rejected' if rej else 'no continuing path explored for this class')
        for it in its:
            s2 = it.st
            if len(it.stores) != 1:
                und.append('%d stores on a continuing path, expected the one decoded scalar' % len(it.stores))
                continue
            v = it.stores[0][4]
            names = dict((conv.unit_atom(eb_src, j), 'u%d' % j) for j in range(4))
            be = B.BitEval(s2, names)
            l = I.as_u(s2, v) - sub
            rngs = dict(('u%d' % j, s2.arange(conv.unit_atom(eb_src, j))) for j in range(4) if conv.unit_atom(eb_src, j) in s2.rng)
            got = known_bits(be.lin_bits(l, 32), rngs)
            want = known_bits(want, rngs)
            if got != pad(want, 32):
                problems.append('decoded value%s is [%s], the standard says [%s]' % (' - 0x%X' % sub if sub else '', B.fmt(got[:22]), B.fmt(pad(want, 22))))
        run.ob('R01.1', label, False if problems else (None if und else True), '; '.join(problems) if problems else (und[0] if und else 'decoded scalar matches the table bit for bit'),
               disc=cls['name'], loc=fn_loc(f))
    return n


def latin1(run, m, F, E):
    n = 0
    f8 = c02.find(m, F, '_ST_PRIVATE::utf8_convert_from_latin_1(')
    run.need(f8 is not None, 'utf8_convert_from_latin_1 not found')
    for (nm, rng, want) in (('byte 00-7F', (0, 0x7F), [unit((0, 1), X('u0', 6, 0))]),
                            ('byte 80-FF', (0x80, 0xFF), [unit((0b110, 3), (0, 3), X('u0', 7, 6)), unit((0b10, 2), X('u0', 5, 0))])):
        n += 1
        cls = dict(name=nm, units=[rng], k=None, need=1, expect='accept')
        I = Interp(m, F, E, conv.ConvHooks(1, 1))
        its = [it for it in conv.run_iteration(I, f8, c02.class_state(cls, 1), [PtrV('OUT'), PtrV('IN'), IntV(64, Lin.atom('n'), 'u')], 1, 1)
               if it.kind == 'backedge']
        problems, und = [], []
        if not its:
            und.append('no continuing path explored')
        for it in its:
            if len(it.stores) != len(want):
                problems.append('%d unit(s) stored for a byte of this class, its UTF-8 form has %d' % (len(it.stores), len(want)))
                continue
            be = B.BitEval(it.st, {conv.unit_atom(1, 0): 'u0'})
            for k, (ev, w) in enumerate(zip(it.stores, want)):
                got = be.lin_bits(I.as_u(it.st, ev[4]), 8) if isinstance(ev[4], IntV) else [B.T] * 8
                if got != pad(w, 8):
                    problems.append('unit %d is [%s], expected [%s]' % (k, B.fmt(got), B.fmt(pad(w, 8))))
        run.ob('R01.1', 'utf8_convert_from_latin_1', False if problems else (None if und else True), '; '.join(problems) if problems else und[0] if und else 'Latin-1 byte = code point U+00xx, standard UTF-8 form',
               disc=nm, loc=fn_loc(f8))
    for tgt, ebd in (('utf16', 2), ('utf32', 4)):
        f = c02.find(m, F, '_ST_PRIVATE::%s_convert_from_latin_1(' % tgt)
        run.need(f is not None, '%s_convert_from_latin_1 not found' % tgt)
        n += 1
        cls = dict(name='any byte', units=[(0, 0xFF)], k=None, need=1, expect='accept')
        I = Interp(m, F, E, conv.ConvHooks(1, ebd))
        its = [it for it in conv.run_iteration(I, f, c02.class_state(cls, 1), [PtrV('OUT'), PtrV('IN'), IntV(64, Lin.atom('n'), 'u')], 1, ebd)
               if it.kind == 'backedge']
        problems = []
        for it in its:
            be = B.BitEval(it.st, {conv.unit_atom(1, 0): 'u0'})
            if len(it.stores) != 1:
                problems.append('%d units stored for one byte, expected one' % len(it.stores))
                continue
            got = be.lin_bits(I.as_u(it.st, it.stores[0][4]), ebd * 8)
            if got != pad(X('u0', 7, 0), ebd * 8):
                problems.append('unit is [%s], expected the zero-extended byte' % B.fmt(got))
        if not its:
            problems.append('no path')
        run.ob('R01.1', '%s_convert_from_latin_1' % tgt, not problems, '; '.join(problems) if problems else 'zero-extended byte', disc='any byte', loc=fn_loc(f))
    return n


# ---------------------------------------------------------------------------------------------------------------
# R01.2: decoder result flows unmodified into the encoder / output store

def derives(f, op, ok_ids, depth=0):
    """op is one of ok_ids, or a cast / phi / select of such values and constants."""
    if op[0] == 'i':
        return 'const'
    if op[0] != 'v':
        return None
    if op[1] in ok_ids:
        return 'src'
    if depth > 6:
        return None
    i = f.inst(op[1])
    if i is None:
        return None
    if i.op in ('zext', 'sext', 'trunc', 'bitcast'):
        return derives(f, i.a[0], ok_ids, depth + 1)
    if i.op == 'phi':
        rs = [derives(f, v, ok_ids, depth + 1) for (v, bb) in i.d['inc']]
        if all(r is not None for r in rs):
            return 'src' if 'src' in rs else 'const'
        return None
    if i.op == 'select':
        rs = [derives(f, v, ok_ids, depth + 1) for v in i.a[1:]]
        if all(r is not None for r in rs):
            return 'src' if 'src' in rs else 'const'
    return None


def flows(run, m, F, pairs):
    n = 0
    for p in pairs:
        if getattr(p, 'cargs', None):
            continue
        f = p.C
        srcs = set()
        for i in f.all_insts():
            if i.op in ('call', 'invoke') and i.callee and re.match(r'^_ST_PRIVATE::extract_utf(8|16)\(', m.dem(i.callee)):
                srcs.add(i.id)
            elif i.op == 'load' and i.ty in ('i8', 'i16', 'i32'):
                # direct reads of the source cursor (UTF-32 / Latin-1 sources)
                a = i.a[0]
                if a[0] == 'v':
                    d = f.inst(a[1])
                    if d is not None and d.op in ('phi', 'getelementptr', 'load'):
                        srcs.add(i.id)
        sinks = []
        for i in f.all_insts():
            if i.op in ('call', 'invoke') and i.callee and re.match(r'^_ST_PRIVATE::write_utf(8|16)\(', m.dem(i.callee)):
                sinks.append((i, i.a[1], 'encoder ' + m.dem(i.callee).split('(')[0]))
            elif i.op == 'store' and i.d.get('sty') in ('i8', 'i16', 'i32') and i.a[0][0] != 'i':
                sinks.append((i, i.a[0], 'output store'))
        n += 1
        bad = []
        nsrc = 0
        for (i, op, what) in sinks:
            r = derives(f, op, srcs)
            if r is None:
                # Latin-1 two-byte form is computed arithmetically: judged by R01.1, not here
                if p.src == 'latin_1' and p.tgt == 'utf8':
                    continue
                bad.append('%s at line %d takes a value that is not the decoded character' % (what, i.line))
            elif r == 'src':
                nsrc += 1
        if not sinks:
            bad.append('no encoder call / output store found')
        run.ob('R01.2', '%s <- %s' % (p.tgt, p.src), not bad, bad[0] if bad else '%d sink(s) fed by the decoder result (or substitute constants)' % len(sinks),
               loc=fn_loc(f))
    return n


# ---------------------------------------------------------------------------------------------------------------
# R01.3: forwarding overloads

ACCESS_RE = re.compile(r'::(data|c_str|size|length)\(\) const$')


def forwarders(run, m, F):
    """Public conversion overloads that only forward: every (pointer,size) pair handed on must be data()/size()
    (or pointer + char_traits::length(pointer)) of one and the same argument."""
    n = 0
    und = 0
    for name in F.lib:
        f = m.func(name)
        if not (f.file.endswith('st_utf_conv.h')):
            continue
        calls = [(i, ts[0]) for (i, ts, k) in F.calls[name] if ts]
        inner = [(i, t) for (i, t) in calls if m.has(t) and m.is_lib(m.func(t)) and m.func(t).file.endswith('st_utf_conv.h')]
        if len(inner) != 1:
            continue
        n += 1
        ci, t = inner[0]
        g = m.func(t)
        groles = func_roles(g)
        problems = []
        k = 0
        while k < len(ci.a):
            r = groles[k] if k < len(groles) else None
            if r and re.match(r'^(char|wchar_t|char16_t|char32_t|char8_t) const\*$', r) and k + 1 < len(ci.a) and groles[k + 1] == 'unsigned long':
                ptr, ln = ci.a[k], ci.a[k + 1]
                ok = pair_ok(m, f, ptr, ln)
                if ok is False:
                    problems.append('(pointer,size) operands #%d,#%d do not describe one argument' % (k, k + 1))
                elif ok is None:
                    und += 1
                k += 2
            else:
                k += 1
        run.ob('R01.3', short(f.dem), not problems, problems[0] if problems else 'forwards to ' + short(g.dem, 60), loc=fn_loc(f))
    run.counts['forwarders with untracked operands'] = und
    return n


def root_obj(f, op, depth=0):
    """The SSA value (argument id) an accessor chain or cast starts from."""
    if op[0] != 'v':
        return None
    if op[1] < f.nargs:
        return ('arg', op[1])
    i = f.inst(op[1])
    if i is None or depth > 5:
        return None
    if i.op in ('bitcast', 'getelementptr'):
        return root_obj(f, i.d['base'] if i.op == 'getelementptr' else i.a[0], depth + 1)
    if i.op in ('call', 'invoke') and i.a:
        return root_obj(f, i.a[0], depth + 1)
    if i.op == 'load':
        return root_obj(f, i.a[0], depth + 1)
    return None


def pair_ok(m, f, ptr, ln):
    rp, rl = root_obj(f, ptr), root_obj(f, ln)
    if rp is None or rl is None:
        if ln[0] == 'v' and ln[1] < f.nargs and ptr[0] == 'v' and ptr[1] < f.nargs:
            return True
        return None
    return rp == rl or (rp[0] == 'arg' and rl[0] == 'arg' and abs(rp[1] - rl[1]) == 1)


def wellformed_accepted(run, m, F, E):
    """R01.4: every well-formed UTF-8 class passes the validator and is copied verbatim by the repairer (so the result of
    importing well-formed text does not depend on the validation mode)."""
    validate = c02.find(m, F, '_ST_PRIVATE::validate_utf8(char const*, unsigned long)')
    cleanup = c02.find(m, F, '_ST_PRIVATE::cleanup_utf8(char*, char const*, unsigned long)')
    run.need(validate and cleanup, 'validate_utf8 / cleanup_utf8 not found')
    n = 0
    nargs = [PtrV('IN'), IntV(64, Lin.atom('n'), 'u')]
    for cls in utf8_wellformed_classes():
        for (label, fn, kind, args) in (('validate_utf8', validate, 'validator', nargs), ('cleanup_utf8', cleanup, 'repairer', [PtrV('OUT')] + nargs)):
            n += 1
            I = Interp(m, F, E, conv.ConvHooks(1, 1))
            st = c02.class_state(cls, 1)
            its = conv.run_iteration(I, fn, st, args, 1, 1)
            its = [it for it in its if not (it.kind == 'ret' and c02.st_cursor_at_end(it))]
            if any(it.kind == 'untracked' for it in its) or not its:
                run.ob('R01.4', label, None, 'the loop does not move a recognised cursor over the input: class not judged' if its else 'no path explored', disc=cls['name'], loc=fn_loc(fn))
                continue
            bad = c02.judge_decider(I, its, cls, 1, kind, m)
            run.ob('R01.4', label, not bad, bad[0] if bad else 'well-formed sequence accepted unchanged', disc=cls['name'], loc=fn_loc(fn))
    return n


def check(run):
    m = run.module()
    F = run.facts()
    E = run.effects()
    run.trust('clang 14 lowering (LLVM IR, -O0, mem2reg)', 'STIR interpreter and the bit-provenance evaluator',
              'Unicode 15 Table 3-5 / 3-6 as transcribed in stir/rules/c01.py')
    run.assume('32-bit wchar_t (wchar_t overloads alias the UTF-32 routines)', 'libstdc++ std::basic_string construction of to_std_* results is trusted')
    n = 0
    n += encoder(run, m, F, E, '_ST_PRIVATE::write_utf8(', UTF8_ENC, 1, 'write_utf8')
    n += encoder(run, m, F, E, '_ST_PRIVATE::write_utf16(', UTF16_ENC, 2, 'write_utf16')
    n += decoder(run, m, F, E, '_ST_PRIVATE::utf32_convert_from_utf8(', utf8_wellformed_classes(), UTF8_DEC, 1, 'extract_utf8')
    n += decoder(run, m, F, E, '_ST_PRIVATE::utf32_convert_from_utf16(', c02.utf16_classes(), UTF16_DEC, 2, 'extract_utf16')
    n += latin1(run, m, F, E)
    run.floor('codec value classes', n, 18)
    run.floor('well-formed classes x (validator, repairer)', wellformed_accepted(run, m, F, E), 18)
    pairs = conv.discover(m, F, run, 'R01.1')
    run.floor('convert loops (flow)', flows(run, m, F, pairs) + conv.ODD[0], 12)
    # R01.4 for the converters: every class of well-formed units (and of the forms the library tolerates) is accepted by every
    # converter in every mode and advances the output alike - the accept-class obligations of C02 R02.2, owned here as well because
    # a converter that rejects or substitutes well-formed text breaks the round trip whatever the validation policy says
    sub = type(run)(run.prop, run.tier)
    c02.policy(sub, m, F, E, pairs)
    accept_names = set(c['name'] for mk in c02.CLASSES.values() for c in mk() if c['expect'] == 'accept')
    k = 0
    for o in sub.obs:
        if o['rule'] == 'R02.2' and (o.get('disc') or '').split(' / ')[0] in accept_names:
            o = dict(o)
            o['rule'] = 'R01.4'
            run.obs.append(o)
            k += 1
    run.floor('converter x well-formed class x mode', k, 100)
    run.floor('forwarding overloads', forwarders(run, m, F), 20)
    # measure helpers agree with the encoders on widths: covered by C03 R03.2; mode independence by C02 R02.2
    for o in [o for o in run.obs if o['rule'] == 'R01.1'][:4] + [o for o in run.obs if o['rule'] == 'R01.2'][:2]:
        run.sample(dict(rule=o['rule'], subject=o['subject'], case=o['disc'], verdict=o['verdict'], detail=o['detail'][:200]))
