"""Effect summaries by pointer provenance (flow-insensitive inside a function, fixpoint over the call graph).

For every function and every pointer parameter p:
  writes  - may store into memory reachable from p (deep: through loaded pointer fields)
  frees   - may pass such memory to operator delete / delete[]
  moves   - may pass p as the source of a move constructor / move assignment of a library owner class
  ret     - provenance of the returned pointer
  stores  - (p, src): may store a pointer with provenance src into memory reachable from p
Only pointer-typed values carry provenance; integers carry none.
"""
import re

from . import facts as factsmod
from .ir import is_ptr

C_WRITES = {   # external C functions: indices of pointer arguments written through
    'memcpy': [0], 'memmove': [0], 'memset': [0], 'wmemcpy': [0], 'wmemmove': [0], 'wmemset': [0],
    'strcpy': [0], 'strncpy': [0], 'strcat': [0], 'snprintf': [0], 'sprintf': [0], 'vsnprintf': [0],
    'strtol': [1], 'strtoul': [1], 'strtoll': [1], 'strtoull': [1], 'strtod': [1], 'strtof': [1], 'strtold': [1],
    'fwrite': [3], 'fputc': [1], 'fprintf': [0], 'fputs': [1], 'putc': [1],
    'llvm.memcpy.p0i8.p0i8.i64': [0], 'llvm.memmove.p0i8.p0i8.i64': [0], 'llvm.memset.p0i8.i64': [0],
    'strlen': [], 'wcslen': [], 'memcmp': [], 'wmemcmp': [], 'memchr': [], 'wmemchr': [], 'strcmp': [], 'abs': [],
    'abort': [], '_ZdaPv': [], '_ZdlPv': [], '_Znam': [], '_Znwm': [],
    '__cxa_allocate_exception': [], '__cxa_throw': [], '__cxa_free_exception': [], '__cxa_begin_catch': [],
    '__cxa_end_catch': [], '__cxa_rethrow': [], '__clang_call_terminate': [], '__dynamic_cast': [],
}
C_RET = {'memcpy': [0], 'memmove': [0], 'memset': [0], 'wmemcpy': [0], 'wmemmove': [0], 'wmemset': [0],
         'memchr': [0], 'wmemchr': [0], '__dynamic_cast': [0], '__cxa_begin_catch': []}

MOVE_RE = re.compile(r'^ST::(?:buffer<[^>]*>|string|string_stream)::(?:buffer|string|string_stream|operator=)\(.*&&\)$')


def split_params(dem):
    """Parameter type strings of a demangled function name (top-level commas)."""
    # find the parameter list: the last top-level (...) group, ignoring a trailing ' const'
    s = dem
    if s.endswith(' const'):
        s = s[:-6]
    if not s.endswith(')'):
        return None
    depth = 0
    i = len(s) - 1
    while i >= 0:
        c = s[i]
        if c == ')':
            depth += 1
        elif c == '(':
            depth -= 1
            if depth == 0:
                break
        i -= 1
    inner = s[i + 1:-1]
    if inner.strip() == '':
        return []
    out = []
    depth = 0
    cur = ''
    for c in inner:
        if c in '<([':
            depth += 1
        elif c in '>)]':
            depth -= 1
        if c == ',' and depth == 0:
            out.append(cur.strip())
            cur = ''
        else:
            cur += c
    out.append(cur.strip())
    return out


def const_pointee(t):
    t = t.strip()
    return bool(re.search(r'\bconst\s*[\*&]+$', t)) or not (t.endswith('*') or t.endswith('&'))


def param_roles(dem, params, sret):
    """Map LLVM parameter indices to 'sret' | 'this' | demangled parameter type | None (unknown)."""
    ptys = split_params(dem)
    roles = [None] * len(params)
    k = 0
    if sret == 0:
        roles[0] = 'sret'
        k = 1
    if ptys is None:
        return roles
    if len(params) - k == len(ptys) + 1:
        roles[k] = 'this'
        k += 1
    if len(params) - k == len(ptys):
        for j, t in enumerate(ptys):
            roles[k + j] = t
    return roles


def func_roles(f):
    return param_roles(f.dem, f.params, f.sret_index())


class Effects(object):
    def __init__(self, F):
        self.F = F
        self.m = F.m
        self.sum = {}
        self._ext_cache = {}
        self.run()

    # summary: dict(writes=set, frees=set, moves=set, ret=set, stores=set)
    def empty(self):
        return dict(writes=set(), frees=set(), moves=set(), ret=set(), stores=set(), reads=set())

    def ext_summary(self, name):
        s = self._ext_cache.get(name)
        if s is not None:
            return s
        s = self.empty()
        m = self.m
        if name in C_WRITES:
            s['writes'] = set(C_WRITES[name])
            s['ret'] = set(('p', k) for k in C_RET.get(name, []))
            if name in ('_Znam', '_Znwm', '__cxa_allocate_exception'):
                s['ret'] = {'new'}
            if name in ('_ZdaPv', '_ZdlPv'):
                s['frees'] = {0}
        else:
            if m.has(name):
                f = m.func(name)
                dem, params = f.dem, [p['ty'] for p in f.params]
                sret = f.sret_index()
            else:
                d = m.decls.get(name, {})
                dem, params = d.get('dem', name), [p['ty'] for p in d.get('params', [])]
                sret = None
                for k, p in enumerate(d.get('params', [])):
                    if 'sret' in p['attrs']:
                        sret = k
            ptys = split_params(dem)
            is_member = '::' in dem.split('(')[0] and not dem.startswith('std::operator') and ptys is not None
            idx = 0
            mapping = {}     # llvm param index -> demangled type or 'this'/'sret'
            k = 0
            if sret is not None and sret == 0:
                mapping[0] = 'sret'
                k = 1
            n_ll = len(params)
            n_dem = len(ptys) if ptys is not None else None
            if ptys is not None and n_ll - k == n_dem + 1:
                mapping[k] = 'this'
                k += 1
            if ptys is not None and n_ll - k == n_dem:
                for j, t in enumerate(ptys):
                    mapping[k + j] = t
            for j, ty in enumerate(params):
                if not is_ptr(ty):
                    continue
                t = mapping.get(j)
                if t == 'sret':
                    s['writes'].add(j)
                elif t == 'this':
                    if not dem.endswith(' const'):
                        s['writes'].add(j)
                elif t is None:
                    s['writes'].add(j)      # unknown layout: assume it may write
                elif not const_pointee(t):
                    s['writes'].add(j)
            # returned pointers may point into any pointer argument
            s['ret'] = set(('p', j) for j, ty in enumerate(params) if is_ptr(ty)) | {'ext'}
        if not s['reads']:
            if self.m.has(name):
                s['reads'] = set(j for j, p in enumerate(self.m.func(name).params) if is_ptr(p['ty']))
            elif name in self.m.decls:
                s['reads'] = set(j for j, p in enumerate(self.m.decls[name]['params']) if is_ptr(p['ty']))
            if name in ('_Znam', '_Znwm', '_ZdaPv', '_ZdlPv', '__cxa_allocate_exception', '__cxa_free_exception', '__cxa_throw'):
                s['reads'] = set()
        self._ext_cache[name] = s
        return s

    def opaque(self, name):
        if not self.m.has(name):
            return True
        f = self.m.func(name)
        return factsmod.is_iostream_fn(f.dem) and not self.m.is_lib(f)

    def run(self):
        m = self.m
        names = [n for n in m.function_names()]
        for n in names:
            self.sum[n] = self.empty()
            f = m.func(n)
            if self.m.is_lib(f) and MOVE_RE.match(f.dem) and len(f.params) == 2:
                self.sum[n]['moves'].add(1)
        self.rounds = 0
        changed = True
        while changed:
            changed = False
            self.rounds += 1
            for n in names:
                if self.opaque(n):
                    continue
                new = self.analyse(m.func(n))
                old = self.sum[n]
                new['moves'] |= old['moves']
                if any(new[k] != old[k] for k in new):
                    self.sum[n] = new
                    changed = True
            if self.rounds > 40:
                raise RuntimeError('effects fixpoint did not converge')

    def callee_summary(self, t):
        if self.opaque(t):
            return self.ext_summary(t)
        return self.sum[t]

    def analyse(self, f, want_detail=False):
        F = self.F
        prov = {}
        contents = {}
        res = self.empty()
        detail = []      # (inst, kind, param) for reporting
        for k, p in enumerate(f.params):
            if is_ptr(p['ty']):
                prov[k] = {('b', k)} if 'byval' in p['attrs'] else {('p', k)}

        def pv(op):
            if op[0] == 'v':
                return prov.get(op[1], ())
            if op[0] == 'g':
                return (('g', op[1]),)
            if op[0] == 'ce':
                o = factsmod.strip_casts(op)
                if o[0] == 'g':
                    return (('g', o[1]),)
                return ()
            return ()

        calls = dict((i.id, (ts, kind)) for (i, ts, kind) in F.calls[f.name])
        insts = list(f.all_insts())
        for _round in range(12):
            grew = False

            def add(vid, s):
                nonlocal grew
                if not s:
                    return
                cur = prov.get(vid)
                if cur is None:
                    prov[vid] = set(s)
                    grew = True
                elif not cur.issuperset(s):
                    cur.update(s)
                    grew = True

            def addc(o, s):
                nonlocal grew
                if not s:
                    return
                cur = contents.get(o)
                if cur is None:
                    contents[o] = set(s)
                    grew = True
                elif not cur.issuperset(s):
                    cur.update(s)
                    grew = True

            for i in insts:
                op = i.op
                if op == 'alloca':
                    add(i.id, {('a', i.id)})
                elif op == 'getelementptr':
                    add(i.id, pv(i.d['base']))
                elif op in ('bitcast', 'addrspacecast'):
                    if is_ptr(i.ty):
                        add(i.id, pv(i.a[0]))
                elif op == 'inttoptr':
                    add(i.id, {'ext'})
                elif op == 'phi':
                    if is_ptr(i.ty):
                        for (v, b) in i.d['inc']:
                            add(i.id, pv(v))
                elif op == 'select':
                    if is_ptr(i.ty):
                        add(i.id, pv(i.a[1]))
                        add(i.id, pv(i.a[2]))
                elif op == 'load':
                    for o in pv(i.a[0]):
                        if o[0] == 'p':
                            res['reads'].add(o[1])
                            if want_detail:
                                detail.append((i, 'load', o[1]))
                    if is_ptr(i.ty):
                        s = set()
                        for o in pv(i.a[0]):
                            if o[0] in ('p', 'a', 'b') or o == 'new':
                                s.add(o)
                            if o[0] in ('g', 'gd'):
                                s.add(('gd', o[1]))
                            s |= contents.get(o, set())
                        add(i.id, s)
                elif op == 'store':
                    val, addr = i.a[0], i.a[1]
                    for o in pv(addr):
                        if o[0] == 'p':
                            if o[1] not in res['writes']:
                                res['writes'].add(o[1])
                            if want_detail:
                                detail.append((i, 'store', o[1]))
                        elif o[0] == 'g' or (o[0] == 'gd' and not self.m.globals.get(o[1], {}).get('decl', True)):
                            res['stores'].add(('G', o[1]))
                            if want_detail:
                                detail.append((i, 'gstore', ('G', o[1])))
                        if is_ptr(i.d.get('sty', '')):
                            s = set(pv(val))
                            addc(o, s)
                            if o[0] == 'p':
                                for x in s:
                                    if x[0] == 'p' or x == 'new':
                                        res['stores'].add((o[1], x))
                elif op in ('call', 'invoke'):
                    ts, kind = calls.get(i.id, ([], 'direct'))
                    args = i.a
                    for t in ts:
                        cs = self.callee_summary(t)
                        for j in cs['writes']:
                            if j < len(args):
                                for o in pv(args[j]):
                                    if o[0] == 'p':
                                        res['writes'].add(o[1])
                                        if want_detail:
                                            detail.append((i, 'call ' + self.m.dem(t)[:90], o[1]))
                                    elif o[0] == 'g' or (o[0] == 'gd' and not self.m.globals.get(o[1], {}).get('decl', True)):
                                        res['stores'].add(('G', o[1]))
                                        if want_detail:
                                            detail.append((i, 'gcall ' + self.m.dem(t)[:90], ('G', o[1])))
                        for j in cs['reads']:
                            if j < len(args):
                                for o in pv(args[j]):
                                    if o[0] == 'p':
                                        res['reads'].add(o[1])
                                        if want_detail:
                                            detail.append((i, 'rcall ' + self.m.dem(t)[:90], o[1]))
                        for j in cs['frees']:
                            if j < len(args):
                                for o in pv(args[j]):
                                    if o[0] == 'p':
                                        res['frees'].add(o[1])
                        for j in cs['moves']:
                            if j < len(args):
                                for o in pv(args[j]):
                                    if o[0] == 'p':
                                        res['moves'].add(o[1])
                                        if want_detail:
                                            detail.append((i, 'move ' + self.m.dem(t)[:90], o[1]))
                        for (j, src) in cs['stores']:
                            if j == 'G' or not isinstance(j, int) or j >= len(args):
                                continue
                            if isinstance(src, tuple) and src[0] == 'p':
                                srcs = set(pv(args[src[1]])) if src[1] < len(args) else set()
                            else:
                                srcs = {src}
                            for o in pv(args[j]):
                                addc(o, srcs)
                                if o[0] == 'p':
                                    for x in srcs:
                                        if (isinstance(x, tuple) and x[0] == 'p') or x == 'new':
                                            res['stores'].add((o[1], x))
                        if is_ptr(i.ty):
                            s = set()
                            for src in cs['ret']:
                                if isinstance(src, tuple) and src[0] == 'p':
                                    if src[1] < len(args):
                                        s |= set(pv(args[src[1]]))
                                else:
                                    s.add(src)
                            add(i.id, s)
                    if not ts and is_ptr(i.ty):
                        add(i.id, {'ext'})
                elif op == 'ret':
                    if i.a and is_ptr(f.ret):
                        for o in pv(i.a[0]):
                            if o[0] == 'p' or o in ('new', 'ext') or o[0] == 'g':
                                res['ret'].add(o)
                elif op in ('extractvalue', 'insertvalue', 'landingpad'):
                    pass
            if not grew:
                break
        if want_detail:
            return res, detail, prov
        return res

    def explain(self, name, param):
        """List the instructions that make `name` write through / move from parameter `param`."""
        f = self.m.func(name)
        res, detail, prov = self.analyse(f, want_detail=True)
        return [(i, kind) for (i, kind, p) in detail if p == param and not (kind == 'load' or kind.startswith('rcall '))]

    def global_store_sites(self, name):
        """[(instruction, kind, global name)] for the stores / writing calls of `name` that target a global."""
        f = self.m.func(name)
        res, detail, prov = self.analyse(f, want_detail=True)
        return [(i, kind, p[1]) for (i, kind, p) in detail if isinstance(p, tuple) and p[0] == 'G']

    def events(self, name):
        """Per-instruction effect events of a function: list of (inst, kind, param) in block order,
        kind in store | call <callee> | move <callee> | load | rcall <callee>."""
        f = self.m.func(name)
        res, detail, prov = self.analyse(f, want_detail=True)
        seen = set()
        out = []
        for (i, kind, p) in detail:
            k = (i.id, kind, p)
            if k not in seen:
                seen.add(k)
                out.append((i, kind, p))
        return out
