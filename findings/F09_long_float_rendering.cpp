#include <string_theory/format>
#include <string_theory/string_stream>
#include <cstdio>
#include <cstring>
#include <cstdlib>
int main(int argc, char **argv) {
    int which = argc > 1 ? atoi(argv[1]) : 1, bad = 0;
    char ref[512];
    if (which == 1) {          // ST::format {f}: 1e100 has 101 integer digits
        snprintf(ref, sizeof(ref), "%f", 1e100);
        ST::string s = ST::format("{f}", 1e100);
        if (s != ref) { printf("format {f} of 1e100 differs from printf\n"); bad++; }
        snprintf(ref, sizeof(ref), "%.80f", 0.1);
        s = ST::format("{.80f}", 0.1);
        if (s != ref) { printf("format {.80f} of 0.1 differs from printf\n"); bad++; }
    } else {                   // from_double(v, 'f')
        snprintf(ref, sizeof(ref), "%f", -1e300);
        ST::string s = ST::string::from_double(-1e300, 'f');
        if (s != ref) { printf("from_double(-1e300,'f') differs from printf\n"); bad++; }
    }
    puts(bad ? "FAIL" : "OK");
    return bad ? 1 : 0;
}
