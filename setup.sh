#!/bin/sh
# Builds the IR dumper (the only compiled piece) from files on disk; offline.
set -e
cd "$(dirname "$0")"
python3 -c "from stir import frontend; frontend.ensure_irdump(); print('irdump ready')"
python3 -c "import stir.check, stir.facts, stir.effects, stir.ir; print('stir imports ok')"
