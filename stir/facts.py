"""Module-level fact base: call graph with resolved callees, throw sets, effect summaries.

All facts are derived from the IR dump of /repo's current tree; nothing is executed.
"""
import re

from . import ir as irmod

# --------------------------------------------------------------------------------------------
# exception types

BAD_ALLOC = 'std::bad_alloc'
STD_BASES = {
    'std::bad_alloc': 'std::exception',
    'std::bad_array_new_length': 'std::bad_alloc',
    'std::runtime_error': 'std::exception',
    'std::logic_error': 'std::exception',
    'std::out_of_range': 'std::logic_error',
    'std::invalid_argument': 'std::logic_error',
    'std::length_error': 'std::logic_error',
    'std::domain_error': 'std::logic_error',
    'std::bad_cast': 'std::exception',
    'std::bad_function_call': 'std::exception',
    'std::system_error': 'std::runtime_error',
    'std::ios_base::failure': 'std::system_error',
    'std::filesystem::filesystem_error': 'std::system_error',
}

# externals: mangled name -> set of exception type names that may leave the call
EXT_THROWS = {
    '_Znam': {BAD_ALLOC}, '_Znwm': {BAD_ALLOC},
    '__cxa_allocate_exception': set(), '__cxa_begin_catch': set(), '__cxa_end_catch': set(),
    '__cxa_free_exception': set(), '__cxa_bad_cast': {'std::bad_cast'},
    '_ZSt16__throw_bad_castv': {'std::bad_cast'},
    '_ZSt17__throw_bad_allocv': {BAD_ALLOC},
    '_ZSt19__throw_ios_failurePKc': {'std::ios_base::failure'},
    '_ZSt19__throw_logic_errorPKc': {'std::logic_error'},
    '_ZSt20__throw_length_errorPKc': {'std::length_error'},
    '_ZSt20__throw_out_of_rangePKc': {'std::out_of_range'},
    '_ZSt24__throw_out_of_range_fmtPKcz': {'std::out_of_range'},
    '_ZSt24__throw_invalid_argumentPKc': {'std::invalid_argument'},
    '_ZSt21__throw_runtime_errorPKc': {'std::runtime_error'},
    '_ZSt20__throw_domain_errorPKc': {'std::domain_error'},
    '_ZSt25__throw_bad_function_callv': {'std::bad_function_call'},
    '_ZSt28__throw_bad_array_new_lengthv': {'std::bad_array_new_length'},
    # exception constructors taking a C string build a std::string message: may fail to allocate
    '_ZNSt12out_of_rangeC1EPKc': {BAD_ALLOC}, '_ZNSt12out_of_rangeC2EPKc': {BAD_ALLOC},
    '_ZNSt13runtime_errorC1EPKc': {BAD_ALLOC}, '_ZNSt13runtime_errorC2EPKc': {BAD_ALLOC},
    '_ZNSt16invalid_argumentC1EPKc': {BAD_ALLOC}, '_ZNSt16invalid_argumentC2EPKc': {BAD_ALLOC},
    '_ZNSt11logic_errorC1EPKc': {BAD_ALLOC}, '_ZNSt11logic_errorC2EPKc': {BAD_ALLOC},
    # C stdio: C functions do not throw
    'fprintf': set(), 'fputc': set(), 'fwrite': set(), 'fputs': set(), 'putc': set(), 'puts': set(),
    # std::filesystem::path internals (narrow POSIX paths are copied, not transcoded)
    '_ZNSt10filesystem7__cxx114path14_M_split_cmptsEv': {BAD_ALLOC},
    '_ZNSt10filesystem7__cxx114path5_ListC1ERKS2_': {BAD_ALLOC},
    '_ZNSt10filesystem7__cxx114path5_ListC1Ev': set(),
}

# iostream internals are a trusted boundary: functions of these classes are not analysed but modelled
IOSTREAM_RE = re.compile(
    r'^(?:[\w:<>,\s\*&\[\]\(\)]*? )?std::(?:basic_ostream<|basic_istream<|basic_ios<|ios_base::|basic_streambuf<|'
    r'ostream::|istream::|__ostream_insert<|__ostream_write<|__ostream_fill<|'
    r'operator<<\s*<|operator>>\s*<|endl<|flush<|ws<|ctype<|use_facet<|__check_facet<|locale::)')
IOSTREAM_THROWS = {'std::ios_base::failure', BAD_ALLOC, 'std::bad_cast'}


def is_iostream_fn(dem):
    # demangled name may start with a return type for templates; test on the part before '('
    return bool(IOSTREAM_RE.match(dem))


def typeinfo_name(m, gname):
    g = m.globals.get(gname)
    if g is not None:
        d = g.get('dem', '')
        if d.startswith('typeinfo for '):
            d = d[len('typeinfo for '):]
            d = d.replace('[abi:cxx11]', '')
            return d
    return gname


def strip_casts(op):
    while op and op[0] == 'ce' and op[1] in ('bitcast', 'getelementptr', 'addrspacecast', 'ptrtoint', 'inttoptr'):
        op = op[3][0]
    return op


class Facts(object):
    def __init__(self, m):
        self.m = m
        self.lib = [f.name for f in m.lib_funcs()]
        self.libset = set(self.lib)
        self._bases = None
        self._address_taken()
        self._call_graph()
        self._throw_sets()

    # ---------------------------------------------------------------- address-taken / indirect
    def _address_taken(self):
        m = self.m
        taken = set()

        def scan_init(x):
            if isinstance(x, list):
                if len(x) >= 2 and x[0] == 'g' and isinstance(x[1], str):
                    taken.add(m.resolve(x[1]))
                else:
                    for y in x:
                        scan_init(y)
        for g in m.globals.values():
            if 'init' in g:
                scan_init(g['init'])
        self._fn_types = {}
        for f in m.funcs():
            for i in f.all_insts():
                ops = list(i.a)
                if i.op == 'phi':
                    ops = [x[0] for x in i.d['inc']]
                if i.op == 'getelementptr':
                    ops = [i.d['base']]
                for o in ops:
                    o2 = strip_casts(o)
                    if o2 and o2[0] == 'g' and (m.has(o2[1]) or o2[1] in m.decls):
                        taken.add(m.resolve(o2[1]))
        self.address_taken = taken

    def fn_type(self, name):
        """LLVM function type string of a defined function or declaration."""
        t = self._fn_types.get(name)
        if t is None:
            if self.m.has(name):
                f = self.m.func(name)
                t = '%s (%s)' % (f.ret, ', '.join(p['ty'] for p in f.params))
            elif name in self.m.decls:
                d = self.m.decls[name]
                t = '%s (%s%s)' % (d['ret'], ', '.join(p['ty'] for p in d['params']), ', ...' if d['vararg'] else '')
            else:
                t = '?'
            self._fn_types[name] = t
        return t

    def indirect_targets(self, fty):
        r = self._ind.get(fty)
        if r is None:
            r = sorted(n for n in self.address_taken if self.fn_type(n) == fty)
            self._ind[fty] = r
        return r

    # ---------------------------------------------------------------- call graph
    def _call_graph(self):
        m = self.m
        self._ind = {}
        self.calls = {}      # fn -> list of (inst, [targets], kind) kind in direct|indirect
        self.callers = {}
        for f in m.funcs():
            lst = []
            for i in f.all_insts():
                if i.op not in ('call', 'invoke'):
                    continue
                c = i.d['callee']
                c2 = strip_casts(c)
                if c2[0] == 'g':
                    t = m.resolve(c2[1])
                    lst.append((i, [t], 'direct'))
                    self.callers.setdefault(t, set()).add(f.name)
                elif c2[0] == 'asm':
                    lst.append((i, [], 'asm'))
                else:
                    ts = self.virtual_targets(f, i)
                    if ts is None:
                        ts = self.indirect_targets(i.d['fty'])
                    lst.append((i, ts, 'indirect'))
                    for t in ts:
                        self.callers.setdefault(t, set()).add(f.name)
            self.calls[f.name] = lst

    def virtual_slot(self, f, i):
        c = i.d['callee']
        if c[0] != 'v':
            return None
        ld = f.inst(c[1])
        if ld is None or ld.op != 'load' or ld.a[0][0] != 'v':
            return None
        g = f.inst(ld.a[0][1])
        if g is None:
            return None
        if g.op == 'getelementptr':
            st = g.d['steps']
            if len(st) != 1 or st[0][0] != 'a' or st[0][1][0] != 'i' or g.d['base'][0] != 'v':
                return None
            slot = st[0][1][1]
            vt = f.inst(g.d['base'][1])
        else:
            slot = 0
            vt = g
        if vt is None or vt.op != 'load':
            return None
        src = vt.a[0]
        if src[0] == 'v':
            b = f.inst(src[1])
            if b is not None and b.op == 'bitcast':
                return slot
        return None

    def vtables(self):
        if not hasattr(self, '_vtables'):
            vts = {}
            for gname, g in self.m.globals.items():
                if not gname.startswith('_ZTV') or 'init' not in g:
                    continue
                init = g['init']
                if not (isinstance(init, list) and init and isinstance(init[0], list)):
                    continue
                ents = init[0]
                if len(ents) < 2:
                    continue
                ti = strip_casts(ents[1]) if isinstance(ents[1], list) else None
                cls = typeinfo_name(self.m, ti[1]) if ti and ti[0] == 'g' else None
                fns = []
                for e in ents[2:]:
                    e2 = strip_casts(e) if isinstance(e, list) else None
                    fns.append(self.m.resolve(e2[1]) if e2 and e2[0] == 'g' else None)
                vts[gname] = (cls, fns)
            self._vtables = vts
        return self._vtables

    def virtual_targets(self, f, i):
        slot = self.virtual_slot(f, i)
        if slot is None:
            return None
        mt = re.match(r'.*?\(%"(?:class|struct)\.([^"]+?)(?:\.\d+)?"\*', i.d['fty'])
        if not mt:
            return None
        static = mt.group(1)
        out = []
        for gname, (cls, fns) in self.vtables().items():
            if cls is None or slot >= len(fns) or fns[slot] is None:
                continue
            if self.is_a(cls, static) and fns[slot] != '__cxa_pure_virtual':
                out.append(fns[slot])
        return sorted(set(out)) if out else None

    def reachable_from(self, roots, stop=None):
        seen = set()
        work = list(roots)
        while work:
            n = work.pop()
            if n in seen:
                continue
            seen.add(n)
            if stop and stop(n):
                continue
            for (i, ts, k) in self.calls.get(n, ()):
                for t in ts:
                    if t not in seen:
                        work.append(t)
        return seen

    # ---------------------------------------------------------------- exception hierarchy
    def bases(self):
        if self._bases is None:
            b = dict(STD_BASES)
            for gname, g in self.m.globals.items():
                if not gname.startswith('_ZTI') or 'init' not in g:
                    continue
                init = g['init']
                # {vtable ptr, name ptr, base typeinfo ptr} for single inheritance
                if isinstance(init, list) and len(init) == 3:
                    base = strip_casts(init[2]) if isinstance(init[2], list) else None
                    if base and base[0] == 'g' and base[1].startswith('_ZTI'):
                        b[typeinfo_name(self.m, gname)] = typeinfo_name(self.m, base[1])
            self._bases = b
        return self._bases

    def is_a(self, t, anc):
        b = self.bases()
        n = 0
        while t is not None and n < 10:
            if t == anc:
                return True
            t = b.get(t)
            n += 1
        return False

    # ---------------------------------------------------------------- throw sets
    def ext_throws(self, name):
        if name in EXT_THROWS:
            return EXT_THROWS[name]
        d = self.m.decls.get(name)
        if d is None:
            return {'UNKNOWN:' + name}
        if d.get('nounwind') or d.get('intrinsic'):
            return set()
        if is_iostream_fn(d['dem']):
            return IOSTREAM_THROWS
        # members of std::basic_string that libstdc++ provides as explicit instantiations (char / wchar_t below C++20): by
        # [string.require] they report errors only as length_error / out_of_range (position arguments) or through the allocator
        mt = re.match(r'^std::__cxx11::basic_string<.*?>::(~?\w+|operator\W+)\(', d['dem'])
        if mt:
            nm = mt.group(1)
            if nm.startswith('~') or nm in ('_M_data', '_M_local_data', '_M_capacity', '_M_set_length', '_M_dispose', '_M_length', '_Alloc_hider',
                                            'size', 'length', 'data', 'c_str', 'empty', 'capacity', 'operator[]', 'begin', 'end', 'clear', 'swap'):
                return set()
            s = {BAD_ALLOC, 'std::length_error'}
            if nm in ('substr', 'insert', 'erase', 'replace', 'at', 'compare', 'copy', 'assign', 'append', 'basic_string', 'find', 'rfind'):
                s = s | {'std::out_of_range'}
            return s
        return {'UNKNOWN:' + d['dem'][:80]}

    def pad_info(self, f):
        """block id -> dict(catch_all, types, rethrows, resumes, terminates) for each landing pad block."""
        info = {}
        for b in f.blocks:
            lp = b.insts[0] if b.insts and b.insts[0].op == 'landingpad' else None
            if lp is None:
                for i in b.insts:
                    if i.op == 'landingpad':
                        lp = i
                        break
            if lp is None:
                continue
            types = []
            catch_all = False
            for kind, op in lp.d['clauses']:
                if kind != 'catch':
                    continue
                o = strip_casts(op)
                if o[0] == 'n':
                    catch_all = True
                elif o[0] == 'g':
                    types.append(typeinfo_name(self.m, o[1]))
            # what does the handler region reach?
            seen = set()
            work = [b.id]
            rethrows = resumes = terminates = False
            while work:
                x = work.pop()
                if x in seen:
                    continue
                seen.add(x)
                bb = f.blocks[x]
                for i in bb.insts:
                    if i.op == 'resume':
                        resumes = True
                    elif i.op in ('call', 'invoke'):
                        c = i.callee
                        if c == '__cxa_rethrow':
                            rethrows = True
                        elif c in ('__clang_call_terminate', '_ZSt9terminatev'):
                            terminates = True
                for s in bb.succs():
                    # do not follow into the unwind edge of invokes inside the handler twice
                    work.append(s)
            info[b.id] = dict(catch_all=catch_all, types=types, rethrows=rethrows, resumes=resumes,
                              terminates=terminates, cleanup=lp.d['cleanup'], inst=lp)
        return info

    def _throw_sets(self):
        m = self.m
        self.throws = {}
        self.own_throws = {}
        self.pads = {}
        self.terminate_on = {}      # fn -> list of (call inst, callee, set of types reaching a terminate pad)
        names = m.function_names()
        for n in names:
            f = m.func(n)
            own = set()
            for i in f.all_insts():
                if i.op in ('call', 'invoke') and i.callee == '__cxa_throw':
                    ti = strip_casts(i.a[1])
                    own.add(typeinfo_name(m, ti[1]) if ti[0] == 'g' else 'UNKNOWN:throw')
            self.own_throws[n] = own
            self.pads[n] = self.pad_info(f) if any(i.op == 'invoke' for i in f.all_insts()) else {}
            self.throws[n] = set(own)
            if is_iostream_fn(f.dem) and not m.is_lib(f):
                self.throws[n] = set(IOSTREAM_THROWS)
        changed = True
        rounds = 0
        while changed:
            changed = False
            rounds += 1
            for n in names:
                f = m.func(n)
                if is_iostream_fn(f.dem) and not m.is_lib(f):
                    continue
                cur = self.throws[n]
                new = set(self.own_throws[n])
                for (i, ts, kind) in self.calls[n]:
                    if i.callee in ('__cxa_throw',):
                        continue
                    s = self.call_throws(i, ts, kind)
                    if not s:
                        continue
                    if i.op == 'invoke':
                        s = self.through_pad(n, i.d['unwind'], s)
                    new |= s
                new.discard('RETHROW')
                if new != cur:
                    self.throws[n] = new
                    changed = True
        self.throw_rounds = rounds
        # terminate audit
        for n in names:
            lst = []
            for (i, ts, kind) in self.calls[n]:
                if i.op != 'invoke':
                    continue
                p = self.pads[n].get(i.d['unwind'])
                if p and p['terminates'] and not p['resumes'] and not p['rethrows']:
                    s = self.call_throws(i, ts, kind)
                    if s:
                        lst.append((i, ts, s))
            if lst:
                self.terminate_on[n] = lst

    def throws_restricted(self, entry, keep_target):
        """Throw set of `entry` when virtual dispatch is restricted: keep_target(callee name) filters the targets of
        indirect calls (used to fix the dynamic type of a format_writer to the one the entry constructs)."""
        m = self.m
        reach = set()
        work = [entry]
        while work:
            n = work.pop()
            if n in reach or not m.has(n):
                continue
            reach.add(n)
            for (i, ts, kind) in self.calls[n]:
                for t in ts:
                    if kind == 'indirect' and not keep_target(t):
                        continue
                    if t not in reach:
                        work.append(t)
        th = dict((n, set(self.own_throws[n])) for n in reach)
        for n in reach:
            f = m.func(n)
            if is_iostream_fn(f.dem) and not m.is_lib(f):
                th[n] = set(IOSTREAM_THROWS)
        changed = True
        while changed:
            changed = False
            for n in reach:
                f = m.func(n)
                if is_iostream_fn(f.dem) and not m.is_lib(f):
                    continue
                new = set(self.own_throws[n])
                for (i, ts, kind) in self.calls[n]:
                    if i.callee == '__cxa_throw' or i.d.get('nounwind') or kind == 'asm':
                        continue
                    s = set()
                    for t in ts:
                        if kind == 'indirect' and not keep_target(t):
                            continue
                        if t == '__cxa_rethrow':
                            continue
                        s |= th[t] if t in th else self.ext_throws(t)
                    if s and i.op == 'invoke':
                        s = self.through_pad(n, i.d['unwind'], s)
                    new |= s
                new.discard('RETHROW')
                if new != th[n]:
                    th[n] = new
                    changed = True
        return th[entry]

    def call_throws(self, i, ts, kind):
        if i.d.get('nounwind'):
            return set()
        if kind == 'asm':
            return set()
        if kind == 'indirect' and not ts:
            return {'UNKNOWN:indirect ' + i.d['fty'][:60]}
        s = set()
        for t in ts:
            if t == '__cxa_rethrow':
                s.add('RETHROW')
            elif self.m.has(t):
                s |= self.throws.get(t, set())
            else:
                s |= self.ext_throws(t)
        return s

    def through_pad(self, fn, padblock, s):
        p = self.pads[fn].get(padblock)
        if p is None:
            return s
        if p['terminates'] and not p['resumes'] and not p['rethrows']:
            return set()
        out = set()
        for t in s:
            caught = p['catch_all'] or any(self.is_a(t, c) for c in p['types'])
            if caught and not p['rethrows']:
                # handler swallows it (anything the handler itself throws is accounted by its own calls)
                if p['catch_all'] and p['resumes'] and not p['types']:
                    out.add(t)      # defensive: catch-all pads that resume are cleanup-like
                continue
            out.add(t)
        out.discard('RETHROW')
        return out
