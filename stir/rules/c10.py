"""C10 - the format-string parser is total and memory-safe on every format string.

The format string is an abstract NUL-terminated text object of symbolic length L (unit at offset o is zero iff o == L).
apply_format<...> is interpreted with fetch_prefix / next_format / parse_format in place; the three loops are widened and
the cursor invariants (cursor <= L resp. < L, m_format_str <= next) are candidate facts verified inductive.

R10.1 every read of the format text is at an offset <= L (never past the terminating NUL); strto* starts inside the text
R10.2 exception set of the format entry points is within {bad_format, out_of_range, invalid_argument, unicode_error} plus
      allocation failure (and ios_base::failure / bad_cast for stream sinks)
R10.3 assertions: parse_format's precondition and the digit-class defaults are unreachable; the only assertion data can reach
      is the documented padding contract of character formatting
R10.4 progress: every iteration of the three parser loops advances the cursor
R10.5 the formatter table is indexed only below its size
R10.6 every format_type overload taking a raw character pointer tolerates a null pointer
"""
import re

from ..interp import Interp, Hooks, Budget
from ..state import State, Obj, IntV, PtrV, NULL, MAXLEN
from ..terms import Lin, ZERO
from .. import facts as factsmod
from . import own
from .common import short, fn_loc, slot_subst, subst, robust, congruent

LEVEL = 'proof'
EXPLANATION = ('abstract interpretation of the whole parser (apply_format with fetch_prefix, next_format, parse_format inlined) over a '
               'symbolic NUL-terminated text; loop invariants on the cursors are inferred as candidates and verified inductive, so the '
               'result covers format strings of any length and content; throw sets and assertion inventory from the module fact base')

ENTRY_RE = re.compile(r'^(ST::string ST::format(_latin_1)?<|void ST::(printf|writef)<|ST::string _ST_PRIVATE::udl_formatter::operator\(\)<)')
ALLOWED = set(['ST::bad_format', 'std::out_of_range', 'std::invalid_argument', 'ST::unicode_error',
               'std::bad_alloc', 'std::bad_array_new_length', 'std::length_error', 'std::bad_function_call'])
STREAM_EXTRA = set(['std::ios_base::failure', 'std::bad_cast'])
CONTRACT = {
    'Char formatting does not currently support padding': 'documented contract (the property names it)',
    'String data buffer is too large': 'contract: inputs below 256 Mi units',
    'buffer cannot be constructed with non-zero size and NULL data': 'contract: null data with non-zero size',
    'Invalid validation type': 'contract: valid enumerator',
}
ELSEWHERE = {
    'Input character out of range': 'C03 R03.4 (interval of extract_utf16 <= 0x10FFFF)',
    'Invalid conversion_error_t value': 'C02 R02.3',
    'Format buffer too small': 'C13',
    'Not enough space for format string': 'C13',
    "Your libc doesn't support reporting format size": 'C13',
}


class ParserHooks(Hooks):
    unroll = 0
    widen_on_entry = True
    max_depth = 10
    max_paths = 40000

    def __init__(self, m):
        self.m = m

    def on_access(self, I, st, inst, kind, p, nbytes):
        if kind == 'load' and p.obj == 'FMT':
            st.ev('text-read', inst, p.off)

    def should_inline(self, I, name, fn):
        d = fn.dem
        if d.startswith('ST::format_type(') or 'make_formatter_ref' in d:
            return False
        return self.m.is_lib(fn) or re.match(r'^(std::(min|max|swap|move|forward)|.*std::char_traits)', d) is not None

    def call(self, I, st, inst, name, args):
        if name is None:
            fty = inst.d['fty']
            if 'format_writer' in fty:
                if '(%"class.ST::format_writer"*, i8*, i64)' in fty:
                    n = I.as_u(st, args[2]) if isinstance(args[2], IntV) else None
                    st.ev('emit', inst, args[1], n)
                    if n is not None:
                        I.region_read(st, inst, args[1], n, 'append')
                else:
                    st.ev('emit-char', inst, args[1], args[2])
                return [(st, args[0])]
            return None
        d = self.m.dem(name)
        if 'std::function<' in d and '::operator()' in d:
            chk = I.access_check(st, inst, 'dispatch', args[0], 32)
            st.ev('dispatch', inst, args[0], chk)
            return [(st, None)]
        if 'std::function<' in d or '_Function_base' in d:
            return [(st, None)]
        return None


def text_state():
    st = State()
    st.rng['L'] = (0, MAXLEN)
    st.rng['c0'] = (0, MAXLEN)
    st.assume_ge0(Lin.atom('L') - Lin.atom('c0'))
    fmt = Obj('ext', Lin.atom('L') + 1)
    fmt.attrs['cstr_len'] = Lin.atom('L')
    st.objs['FMT'] = fmt
    w = Obj('ext', Lin.const(16))
    # the cursor into the format text is widened to "any position the verified invariants allow"; for a parser over arbitrary text
    # every such position is reachable (all-literal text in front of it), so a model over the cursor's symbol is a witness.  Widened
    # integers (indices, counters) are not exempt.
    # (no exemption is needed: the text is entered at an arbitrary position c0, so a model pinned to the first iteration of the
    # abstracted loops already describes an arbitrary cursor position)
    w.cells[8] = (8, PtrV('FMT', Lin.atom('c0')))
    w.lazy = True
    st.objs['W'] = w
    return st


def loc(m, inst):
    return '%s:%d' % (m.files[inst.file], inst.line) if inst is not None and hasattr(inst, 'line') else ''


def parser(run, m, F, E):
    n = 0
    total_paths = 0
    fns = [m.func(x) for x in F.lib if re.match(r'^(void )?ST::apply_format(<.*>)?\(ST::format_writer&', m.func(x).dem)]
    # keep the analysis quick: all instantiations with at most 3 arguments (the parser code is the same in every one)
    fns = [f for f in fns if len(f.params) <= 4]
    for f in fns:
        n += 1
        I = Interp(m, F, E, ParserHooks(m))
        st = text_state()
        args = [PtrV('W')] + [I.fresh_ptr(st, 'arg') for p in f.params[1:]]
        try:
            outs = I.run(I.start(f, args, st))
        except Budget as e:
            run.need(False, 'budget exceeded while interpreting %s: %s' % (f.dem, e))
        total_paths += len(outs)
        subject = short(f.dem, 90)
        bounds_v, bounds_u, asserts, progress, disp, kinds = [], [], [], [], [], {}
        abstract_aborts, progress_u = [], []
        for o in outs:
            s2 = o.st
            kinds[o.kind] = kinds.get(o.kind, 0) + 1
            for e in s2.events:
                if e[0] == 'oob':
                    bounds_v.append('%s of %r byte(s) at offset %r of the format text of length %r at %s' % (e[2], e[4], e[3].off, 'L', loc(m, e[1])))
                elif e[0] == 'oob?':
                    p, nb, size = e[3], e[4], e[5]
                    env = e[6] if len(e) > 6 else s2.find_model([p.off + nb - size, p.off], lambda v: v[0] > 0 or v[1] < 0)
                    if p.obj == 'FMT':
                        msg = '%s of %r byte(s) at text offset %r may lie beyond the terminating NUL (text length L) at %s' % (e[2], nb, p.off, loc(m, e[1]))
                    else:
                        msg = '%s of %r byte(s) at offset %r of %s (size %r) may be out of bounds at %s' % (e[2], nb, p.off, p.obj.split('#')[0], size, loc(m, e[1]))
                    if env is not None:
                        bounds_v.append(msg + '; witness ' + ', '.join('%s=%s' % (k if isinstance(k, str) else 'unit', v) for k, v in sorted(env.items(), key=repr)[:6]))
                    else:
                        bounds_u.append(msg)
                elif e[0] in ('strto-unterminated?', 'maybe-null', 'null-deref', 'use-after-free'):
                    bounds_v.append('%s at %s' % (e[0], loc(m, e[1])))
                elif e[0] == 'dispatch':
                    if e[3] != 'ok':
                        disp.append('formatter table indexed without a dominating bound check at %s (%s)' % (loc(m, e[1]), e[3]))
            if o.kind == 'abort':
                msg = o.info[1] if o.info and o.info[0] == 'assert' else str(o.info[0] if o.info else '?')
                if msg not in CONTRACT:
                    txt = 'assertion / abort "%s" is reachable from the format text at %s' % (msg, loc(m, o.info[2]) if o.info and len(o.info) > 2 else '')
                    if any(e[0] == 'widen' for e in s2.events):
                        # reached only in the abstraction of a loop (e.g. a fact about the unit at the cursor is not carried over the
                        # back edge): to be confirmed on an exactly interpreted prefix before it is called reachable
                        abstract_aborts.append(txt)
                    else:
                        asserts.append(txt)
            if o.kind == 'throw':
                t = o.val[0] if o.val else None
                ts = t if isinstance(t, (tuple, list)) else [t]
                for x in ts:
                    if x not in ALLOWED:
                        asserts.append('parser raises %s' % x)
            if o.kind == 'backedge':
                fnname, hdr = o.info
                b = s2.flags.get('wbegin:' + fnname) or {}
                e2 = s2.flags.get('wend:' + fnname) or {}
                adv = []
                for name, bv in b.items():
                    ev = e2.get(name)
                    if isinstance(bv, PtrV) and isinstance(ev, PtrV) and bv.obj == 'FMT' and ev.obj == 'FMT':
                        adv.append(ev.off - bv.off)
                if adv and not any(s2.is_ge0(a - 1) is True for a in adv):
                    # the cursor itself does not provably advance: the position that is read (cursor + index) may
                    fnx = m.func(fnname)
                    wi = max([k2 for k2, e in enumerate(s2.events) if e[0] == 'widen' and e[1] == fnname and e[2] == hdr] or [-1])
                    hb = s2.flags.get('hbegin:%s:%s' % (fnname, hdr)) or b
                    he = s2.flags.get('hend:%s:%s' % (fnname, hdr)) or e2
                    reads = [e[2] for e in s2.events[wi + 1:] if e[0] == 'text-read']
                    done = False
                    if reads:
                        p0 = reads[0]
                        pn = subst(p0, slot_subst(hb, he))
                        if pn is not None and s2.is_ge0(pn - p0 - 1) is True:
                            done = True
                    if not done:
                        # an index that moves on while the cursor stands still also advances the position read
                        for nm2, bv2 in hb.items():
                            ev2 = he.get(nm2)
                            if isinstance(bv2, IntV) and isinstance(ev2, IntV) and bv2.bits == 64:
                                b0, e0 = I.as_u(s2, bv2), I.as_u(s2, ev2)
                                if b0 is not None and e0 is not None and (s2.is_ge0(e0 - b0 - 1) is True or congruent(s2, e0, b0 + 1, 64)):
                                    done = None
                        if done is None:
                            progress_u.append('the loop in %s moves an index, not the cursor: progress of the position read not decided' % (m.dem(fnname)[:50],))
                    if done is False:
                        wit = None
                        for a in adv:
                            if robust([a]):
                                wit = s2.find_model([a], lambda v: v[0] <= 0)
                                if wit is not None:
                                    break
                        if wit is not None:
                            progress.append('an iteration of the loop in %s may not advance the cursor (advances: %s); witness %s' % (m.dem(fnname)[:50], adv, own.fmt_env(wit)))
                        else:
                            progress_u.append('advance of the loop in %s not decided (cursor moves by %s)' % (m.dem(fnname)[:50], adv))
        confirm_u = []
        if abstract_aborts and not asserts:
            class XH(ParserHooks):
                unroll = 2
                widen_on_entry = False
                stop_at_widen = True
                max_paths = 2500
                max_steps = 120000
            IX = Interp(m, F, E, XH(m))
            stx = text_state()
            argsx = [PtrV('W')] + [IX.fresh_ptr(stx, 'arg') for p in f.params[1:]]
            try:
                outsx = IX.run(IX.start(f, argsx, stx))
            except Budget:
                outsx = None
            if outsx is None:
                confirm_u.append(abstract_aborts[0] + ' (seen in the abstraction of a loop; exact prefix too large to confirm)')
            else:
                for ox in outsx:
                    for e in ox.st.events:
                        if e[0] in ('oob', 'oob?') and isinstance(e[3], PtrV) and e[3].obj == 'FMT' and not bounds_v:
                            env = e[6] if len(e) > 6 else None
                            if e[0] == 'oob' or env is not None:
                                bounds_v.append('%s of %r byte(s) at text offset %r may lie beyond the terminating NUL (text length L) at %s%s' % (
                                    e[2], e[4], e[3].off, loc(m, e[1]), '; witness ' + ', '.join('%s=%s' % (k if isinstance(k, str) else 'unit', v) for k, v in sorted(env.items(), key=repr)[:6]) if env else ''))
                    if ox.kind == 'abort':
                        msg = ox.info[1] if ox.info and ox.info[0] == 'assert' else str(ox.info[0] if ox.info else '?')
                        if msg not in CONTRACT:
                            asserts.append('assertion / abort "%s" is reachable from the format text (on an exactly interpreted prefix) at %s' % (
                                msg, loc(m, ox.info[2]) if ox.info and len(ox.info) > 2 else ''))
                if not asserts and abstract_aborts:
                    confirm_u.append(abstract_aborts[0] + ' - only in the abstraction of a loop, not on the exactly interpreted first iterations: not decided')
        run.ob('R10.1', subject, not bounds_v and not bounds_u if not bounds_v else False,
               bounds_v[0] if bounds_v else (bounds_u[0] if bounds_u else 'every read of the text is at an offset <= L on all %d paths' % len(outs)),
               disc='bounds', loc=fn_loc(f)) if (bounds_v or not bounds_u) else run.ob('R10.1', subject, None, bounds_u[0], disc='bounds')
        run.ob('R10.3', subject, False if asserts else (None if confirm_u else True), asserts[0] if asserts else (confirm_u[0] if confirm_u else 'no assertion reachable from the text; exits: %s' % kinds), disc='parser exits', loc=fn_loc(f))
        run.ob('R10.4', subject, False if progress else (None if progress_u else True), progress[0] if progress else (progress_u[0] if progress_u else 'every loop iteration advances the cursor'), disc='progress', loc=fn_loc(f))
        run.ob('R10.5', subject, not disp, disp[0] if disp else 'table index below num_formatters at every dispatch', disc='dispatch', loc=fn_loc(f))
        run.sample(dict(function=f.dem[:80], paths=len(outs), exits=kinds))
    run.counts['parser paths'] = total_paths
    return n


def parser_prefix(run, m, F, E):
    """R10.1 on the first iterations of the specifier parser, interpreted exactly (no abstraction of the loop): a read that leaves
    the text only after a particular character has been consumed (e.g. a pad character that is the terminating NUL) shows up here
    with a witness over the text alone."""
    f = None
    for name in F.lib:
        if m.func(name).dem == 'ST::format_writer::parse_format()':
            f = m.func(name)
    if f is None:
        return 0
    lay = m.structs.get('struct.ST::format_spec')

    class XH(ParserHooks):
        unroll = 1              # two iterations exactly
        widen_on_entry = False
        stop_at_widen = True
        max_paths = 8000
        max_steps = 300000
    I = Interp(m, F, E, XH(m))
    st = text_state()
    so = Obj('ext', Lin.const(lay['size'] if lay else 28))
    so.lazy = True
    st.objs['SPECOUT'] = so
    # precondition of parse_format (established by next_format, R10.3): the cursor is on a '{'
    a0 = ('load', 'FMT', Lin.atom('c0'), 0, 8)
    st.rng[a0] = (0x7B, 0x7B)
    st.assume_ge0(Lin.atom('L') - Lin.atom('c0') - 1)
    bounds_v, und = [], []
    try:
        outs = I.run(I.start(f, [PtrV('SPECOUT'), PtrV('W')], st))
    except Budget as e:
        outs = []
        und.append('exact prefix not explored: %s' % e)
    for o in outs:
        for e in o.st.events:
            if e[0] in ('oob', 'oob?') and isinstance(e[3], PtrV) and e[3].obj == 'FMT':
                env = e[6] if len(e) > 6 else None
                if e[0] == 'oob' or env is not None:
                    if not bounds_v:
                        bounds_v.append('%s of %r byte(s) at text offset %r lies beyond the terminating NUL (text length L) at %s%s' % (
                            e[2], e[4], e[3].off, loc(m, e[1]), '; witness ' + ', '.join('%s=%s' % (k if isinstance(k, str) else 'unit@%r' % (k[2],), v) for k, v in sorted(env.items(), key=repr)[:8]) if env else ''))
                else:
                    und.append('read at text offset %r not decided on the exact prefix' % (e[3].off,))
            elif e[0] in ('strto-unterminated?',):
                bounds_v.append('%s at %s' % (e[0], loc(m, e[1])))
    run.ob('R10.1', short(f.dem), False if bounds_v else (None if und else True), bounds_v[0] if bounds_v else (und[0] if und else
           'every read of the first two specifier characters and what follows them is at an offset <= L (%d exact paths)' % len(outs)), disc='exact prefix', loc=fn_loc(f))
    return 1


def throw_sets(run, m, F):
    n = 0
    for name in F.lib:
        f = m.func(name)
        if not ENTRY_RE.match(f.dem):
            continue
        n += 1
        allowed = set(ALLOWED)
        if 'writef' in f.dem or 'ostream' in f.dem:
            allowed |= STREAM_EXTRA
        # the dynamic type of the writer is the one this entry constructs: restrict virtual dispatch to it
        # (constructed by the entry itself or by a helper it forwards to: looked up in everything reachable from it)
        WR = re.compile(r'^(_ST_PRIVATE::\w*format_writer(?:<.*>)?)::\w*format_writer\(')
        wcls_all = sorted(set(WR.match(m.dem(t)).group(1) for t in F.reachable_from([name]) if WR.match(m.dem(t))))
        if len(wcls_all) != 1:
            run.ob('R10.2', short(f.dem, 90), None, 'the writer class this entry constructs is not unique (%s): virtual dispatch not resolved, throw set not judged' % (wcls_all or 'none found'), loc=fn_loc(f))
            continue
        wcls = wcls_all[0]

        def keep(t, wcls=wcls):
            d = m.dem(t)
            if 'format_writer' in d.split('(')[0]:
                return d.startswith(wcls + '::')
            return True
        extra = set(t for t in F.throws_restricted(name, keep) if t not in allowed)
        run.ob('R10.2', short(f.dem, 90), not extra, 'throw set within the documented exceptions' if not extra else
               'may throw %s' % ', '.join(sorted(extra)), loc=fn_loc(f))
    return n


def assert_inventory(run, m, F):
    entries = [n for n in F.lib if ENTRY_RE.match(m.func(n).dem)]
    reach = F.reachable_from(entries)
    msgs = {}
    for n in reach:
        if not m.has(n):
            continue
        f = m.func(n)
        for i in f.all_insts():
            if i.op in ('call', 'invoke') and i.callee == '_ZN11_ST_PRIVATE14assert_handlerEPKciS1_':
                g = factsmod.strip_casts(i.a[2])
                data = m.globals.get(g[1], {}).get('init') if g[0] == 'g' else None
                s = bytes(data[:-1]).decode('utf-8', 'replace') if isinstance(data, list) else '?'
                msgs.setdefault(s, []).append((f, i))
    n = 0
    for s, sites in sorted(msgs.items()):
        n += 1
        f, i = sites[0]
        if s in CONTRACT:
            run.ob('R10.3', 'assertion "%s"' % s, True, CONTRACT[s], disc='%d site(s)' % len(sites))
        elif s in ELSEWHERE:
            run.ob('R10.3', 'assertion "%s"' % s, True, 'unreachability is the subject of ' + ELSEWHERE[s], disc='%d site(s)' % len(sites))
        elif s == 'parse_format() called with no format':
            run.ob('R10.3', 'assertion "%s"' % s, True, 'proved unreachable by the parser interpretation above (protocol: called only after next_format() saw \'{\')')
        elif s.startswith('Invalid digit class') or s == 'Destination buffer too small':
            pass        # judged by digit_class() / format_char() below
        else:
            run.ob('R10.3', 'assertion "%s"' % s, None, 'assertion reachable in the call graph from a format entry is not classified (%s)' % f.loc(i), disc='%d site(s)' % len(sites))
    return n


class SinkHooks(Hooks):
    max_depth = 10

    def __init__(self, m):
        self.m = m

    def should_inline(self, I, name, fn):
        d = fn.dem
        # rendering of digits and padding is the subject of C11/C12; the assertions of interest precede it
        return not ('uint_formatter' in d or 'format_numeric_string' in d or d.startswith('ST::format_string('))

    def call(self, I, st, inst, name, args):
        if name is None and 'format_writer' in inst.d['fty']:
            st.ev('emit', inst)
            return [(st, args[0])]
        return None


def spec_object(I, st, m, digit_range=None):
    lay = m.structs.get('struct.ST::format_spec')
    o = Obj('ext', Lin.const(lay['size'] if lay else 28))
    o.lazy = True
    st.objs['SPEC'] = o
    if digit_range is not None and lay:
        off = lay['fields'][4][1]
        a = 'digit_class'
        st.rng[a] = digit_range
        o.cells[off] = (4, IntV(32, Lin.atom(a), 'u'))
    return PtrV('SPEC')


def digit_class(run, m, F, E):
    """The 'Invalid digit class' defaults and format_char's size assertion are unreachable for every enumerator."""
    en = m.enums.get('ST::digit_class_t')
    run.need(en, 'enum ST::digit_class_t not in debug info')
    lo, hi = min(en.values()), max(en.values())
    n = 0
    for name in F.lib:
        f = m.func(name)
        if not f.dem.startswith('ST::format_type(ST::format_spec const&, ST::format_writer&, '):
            continue
        ty = f.params[2]['ty'] if len(f.params) > 2 else ''
        if not (ty.startswith('i') and ty[1:].isdigit() and ty != 'i1'):
            continue
        n += 1
        I = Interp(m, F, E, SinkHooks(m))
        st = State()
        spec = spec_object(I, st, m, (lo, hi))
        w = I.fresh_ptr(st, 'writer')
        v = I.fresh_int(st, int(ty[1:]), 'value')
        outs = I.run(I.start(f, [spec, w, v], st))
        bad, und7 = [], []
        for o in outs:
            if o.kind == 'abort':
                msg = o.info[1] if o.info and o.info[0] == 'assert' else str(o.info)
                if msg not in CONTRACT:
                    bad.append('"%s" reachable with digit_class=%s' % (msg, o.st.arange('digit_class')))
            for e in o.st.events:
                if e[0] == 'oob':
                    bad.append('buffer access out of bounds at %s' % loc(m, e[1]))
                elif e[0] == 'oob?':
                    # not provably inside: a finding only with a model of the path (a real value / digit class), else undecided
                    env = e[6] if len(e) > 6 else None
                    if env is not None:
                        bad.append('buffer access out of bounds at %s; witness %s' % (loc(m, e[1]), own.fmt_env(env)))
                    else:
                        und7.append('a buffer access at %s is not decided to lie inside its object' % loc(m, e[1]))
        run.ob('R10.3', short(f.dem, 90), False if bad else (None if und7 else True), bad[0] if bad else (und7[0] if und7 else
               'no non-contract assertion reachable for any digit class (%d paths)' % len(outs)), disc='digit classes %d..%d' % (lo, hi), loc=fn_loc(f))
    # parse_format stores only enumerators into digit_class
    pf = [m.func(x) for x in F.lib if m.func(x).dem == 'ST::format_writer::parse_format()']
    run.need(pf, 'parse_format not found')
    lay = m.structs.get('struct.ST::format_spec')
    doff = lay['fields'][4][1]
    vals = []
    for i in pf[0].all_insts():
        if i.op == 'store' and i.a[1][0] == 'v':
            g = pf[0].inst(i.a[1][1])
            if g is not None and g.op == 'getelementptr' and 'format_spec' in g.d['srcty'] and g.d.get('off') == doff:
                vals.append(i.a[0])
    ok = bool(vals) and all(v[0] == 'i' and lo <= v[1] <= hi for v in vals)
    wrong = [v[1] for v in vals if v[0] == 'i' and not (lo <= v[1] <= hi)]
    run.ob('R10.3', 'parse_format', True if ok else (False if wrong else None), 'stores only enumerators of digit_class_t (%d stores)' % len(vals) if ok else
           ('the constant %d stored into spec.digit_class is not an enumerator of digit_class_t' % wrong[0] if wrong else
            'a store into spec.digit_class is a computed value: whether it is always an enumerator is not analysed'), disc='digit_class stores')
    return n


def null_guards(run, m, F, E):
    n = 0
    for name in F.lib:
        f = m.func(name)
        mt = re.match(r'^ST::format_type\(ST::format_spec const&, ST::format_writer&, (char|wchar_t|char16_t|char32_t|char8_t) const\*\)$', f.dem)
        if not mt:
            continue
        n += 1
        I = Interp(m, F, E, SinkHooks(m))
        st = State()
        spec = spec_object(I, st, m)
        w = I.fresh_ptr(st, 'writer')
        outs = I.run(I.start(f, [spec, w, NULL], st))
        bad = []
        for o in outs:
            if o.kind != 'ret':
                bad.append('null text: path ends in %s' % o.kind)
            for e in o.st.events:
                if e[0] in ('null-deref', 'maybe-null'):
                    bad.append('null text pointer reaches %s at %s' % (e[2] if len(e) > 2 else 'a dereference', loc(m, e[1])))
        run.ob('R10.6', short(f.dem, 100), not bad, bad[0] if bad else 'a null pointer formats as nothing', loc=fn_loc(f))
    return n


def renderer_bounds(run, m, F, E):
    """R10.7: what the format string can make the renderers do stays bounded.  The width and the precision of a field come from the
    format text (any int, negative after narrowing included); the two layout routines every field goes through - format_string for
    text, format_numeric_string for digits - are interpreted with every member of the spec free over its type: every count handed to
    append_char is at most the field width (zero when the width is not positive), every run handed to append lies inside the text
    argument, and the argument is read only inside [text, text + size).  A count that is not bounded by the width is a finding with a
    witness (a narrowed width of 2^31 turning into a count near 2^64 is the typical one)."""
    from . import c11
    n = 0
    for dem, textname, sizename in (
            ('ST::format_string(ST::format_spec const&, ST::format_writer&, char const*, unsigned long, ST::alignment_t)', 'TEXT', 'tsize'),
            ('_ST_PRIVATE::format_numeric_string(ST::format_spec const&, ST::format_writer&, char const*, unsigned long, _ST_PRIVATE::numeric_type)', 'TEXT', 'tsize')):
        f = None
        for name in F.lib:
            if m.func(name).dem.startswith(dem):
                f = m.func(name)
        if f is None:
            run.ob('R10.7', dem.split('(')[0], None, 'layout routine not found', loc='')
            continue
        n += 1

        class RH(c11.WriterHooks):
            # a loop of the routine itself (a walk back over the text, say) is interpreted exactly for two rounds before it is
            # abstracted, so that what it reads first has a real path
            unroll = 2
            widen_on_entry = False

            def on_access(self, I, st, inst, kind, p, nbytes):
                if kind == 'load' and isinstance(p, PtrV) and p.obj == 'TEXT':
                    st.ev('text-load', inst, p.off, nbytes)
        I = Interp(m, F, E, RH(m))
        st = State()
        fl = c11.spec_scene(I, st, m)
        if fl is None:
            run.ob('R10.7', short(f.dem), None, 'layout of ST::format_spec not recognised', loc=fn_loc(f))
            continue
        st.rng['tsize'] = (0, c11.huge_limit(run) - 1)
        st.objs['TEXT'] = Obj('ext', Lin.atom('tsize'))          # the argument need not be NUL-terminated: exactly size units
        ts = Lin.atom('tsize')
        last = I.fresh_int(st, 32, 'last_arg', lo=0, hi=2)
        w = I.fresh_ptr(st, 'writer')
        try:
            outs = I.run(I.start(f, [PtrV('SPEC'), w, PtrV('TEXT'), IntV(64, ts, 'u'), last], st))
        except Exception as e:
            run.ob('R10.7', short(f.dem), None, 'not interpreted: %s' % (str(e)[:80],), loc=fn_loc(f))
            continue
        probs, und, npaths = [], [], 0
        ml = fl['minimum_length']
        for o in outs:
            s2 = o.st
            if o.kind == 'abort':
                probs.append('aborts (%s)' % (o.info[1] if o.info and len(o.info) > 1 else o.info,))
                continue
            if o.kind not in ('ret', 'backedge'):
                continue
            npaths += 1
            width = I.as_s(s2, ml)
            for e in s2.events:
                if e[0] == 'emit-char' and e[3] is not None:
                    cnt = e[3]
                    if s2.is_eq0(cnt) is True or (not cnt.t and cnt.c <= 4):
                        continue            # nothing, or a sign / prefix character: a small constant, bounded whatever the width
                    d = width - cnt
                    if s2.is_ge0(d) is not True:
                        env = s2.find_model([d, cnt], lambda v: v[0] < 0 and v[1] >= 1)
                        if env is not None:
                            probs.append('append_char is handed %r pad unit(s) for a field of width %r (line %d): the count is not bounded by the width '
                                         'the format string asked for; witness %s' % (cnt, width, e[1].line, own.fmt_env(env)))
                        elif not own_abs(cnt) and not own_abs(width):
                            und.append('pad count %r not decided to be bounded by the width' % (cnt,))
                elif e[0] == 'emit' and isinstance(e[2], PtrV) and e[2].obj == 'TEXT' and e[3] is not None:
                    room = ts - e[2].off - e[3]
                    if s2.is_ge0(room) is not True or s2.is_ge0(e[2].off) is not True:
                        env = s2.find_model([room, e[2].off], lambda v: v[0] < 0 or v[1] < 0)
                        if env is not None:
                            probs.append('append is handed %r unit(s) at offset %r of a text of %r; witness %s' % (e[3], e[2].off, ts, own.fmt_env(env)))
                        else:
                            und.append('emitted range of the text argument not decided to lie inside it')
                elif e[0] in ('oob', 'oob?') and isinstance(e[3], PtrV) and e[3].obj == 'TEXT':
                    env = e[6] if len(e) > 6 else None
                    if e[0] == 'oob' or env is not None:
                        probs.append('reads the text argument at offset %r of %r unit(s) (line %d): it is a (pointer, size) pair and need not be '
                                     'terminated%s' % (e[3].off, ts, e[1].line, '; witness ' + own.fmt_env(env) if env else ''))
                    else:
                        und.append('a read of the text argument at line %d not decided to lie inside it' % e[1].line)
        if npaths == 0:
            und.append('no path explored')
        probs = sorted(set(probs), key=len)
        run.ob('R10.7', short(f.dem), False if probs else (None if und else True), probs[0] if probs else (und[0] if und else
               'pad counts <= width, emitted runs and reads inside [text, text + size) on %d paths' % npaths), loc=fn_loc(f))
    # the floating-point renderer pads by itself: the same bound on its counts (snprintf's report a free length)
    from . import c13
    f = None
    for name in F.lib:
        if m.func(name).dem.startswith('ST::format_type(ST::format_spec const&, ST::format_writer&, double)'):
            f = m.func(name)
    if f is not None:
        n += 1
        I = Interp(m, F, E, c13.FloatHooks(m))
        st = State()
        fl = c11.spec_scene(I, st, m)
        w = I.fresh_ptr(st, 'writer')
        from ..state import TopV
        probs, und, npaths = [], [], 0
        try:
            outs = I.run(I.start(f, [PtrV('SPEC'), w, TopV('value')], st)) if fl is not None else []
        except Exception as e:
            outs = []
            und.append('not interpreted: %s' % (str(e)[:80],))
        for o in outs:
            if o.kind != 'ret':
                continue
            npaths += 1
            s2 = o.st
            width = I.as_s(s2, fl['minimum_length'])
            for e in s2.events:
                if e[0] == 'emit-char' and isinstance(e[3], IntV):
                    cnt = I.as_u(s2, e[3])
                    if cnt is None or s2.is_eq0(cnt) is True or (not cnt.t and cnt.c <= 4):
                        continue
                    d = width - cnt
                    if s2.is_ge0(d) is not True:
                        env = s2.find_model([d, cnt], lambda v: v[0] < 0 and v[1] >= 1)
                        if env is not None:
                            probs.append('append_char is handed %r pad unit(s) for a field of width %r (line %d): the count is not bounded by the width '
                                         'the format string asked for; witness %s' % (cnt, width, e[1].line, own.fmt_env(env)))
                        elif not own_abs(cnt) and not own_abs(width):
                            und.append('pad count %r not decided to be bounded by the width' % (cnt,))
        if npaths == 0 and not und:
            und.append('no path explored')
        probs = sorted(set(probs), key=len)
        run.ob('R10.7', short(f.dem), False if probs else (None if und else True), probs[0] if probs else (und[0] if und else
               'pad counts <= width on %d paths' % npaths), loc=fn_loc(f))
    return n


def own_abs(l):
    from .common import abstract_atoms
    return bool(abstract_atoms(l))


def check(run):
    m = run.module()
    F = run.facts()
    E = run.effects()
    run.trust('clang 14 lowering (LLVM IR, -O0, mem2reg)', 'STIR interpreter; model of strtol (reads the C string from its argument up to at most its NUL; '
              'end >= start, > start when the first unit is a decimal digit)')
    run.assume('user-defined format_type overloads and iostream internals are outside the analysis',
               'format_spec objects hold valid enumerators (only parse_format writes them)')
    parser_prefix(run, m, F, E)
    run.floor('apply_format instantiations interpreted', parser(run, m, F, E), 3)
    run.floor('format entry points', throw_sets(run, m, F), 20)
    run.floor('assertion messages reachable from format entries', assert_inventory(run, m, F), 8)
    run.floor('integer format_type overloads', digit_class(run, m, F, E), 12)
    run.floor('raw pointer format_type overloads', null_guards(run, m, F, E), 5)
    run.floor('layout routines (renderer bounds)', renderer_bounds(run, m, F, E), 2)
