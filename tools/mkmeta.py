#!/usr/bin/env python3
"""Writes seeded/<id>/meta.json from notes.txt / build.txt and a matrix log (tools/matrix.sh output).
usage: mkmeta.py <matrix-log> [seed-id ...]   (existing meta.json files keep hand-edited fields 'needs' and 'summary')"""
import json, os, re, sys
V = os.path.dirname(os.path.dirname(os.path.abspath(__file__)))
log = {}
for line in open(sys.argv[1]):
    parts = line.split()
    if parts:
        log[parts[0]] = parts[1:]
ids = sys.argv[2:] or sorted(os.listdir(os.path.join(V, 'seeded')))
HEAD = re.compile(r'^(what|why|observed|demo|test suite|routes|file|change|full)\b', re.I)
for sid in ids:
    d = os.path.join(V, 'seeded', sid)
    if not os.path.exists(os.path.join(d, 'patch.diff')):
        continue
    notes = open(os.path.join(d, 'notes.txt')).read() if os.path.exists(os.path.join(d, 'notes.txt')) else ''
    lines = notes.splitlines()
    title = lines[0].strip() if lines else sid
    needs = []
    on = False
    for l in lines[1:]:
        s = l.strip()
        if re.match(r'^what it needs|^needs\b|^what .*manifest', s, re.I):
            on = True
            rest = s.split(':', 1)[1].strip() if ':' in s and len(s.split(':', 1)[1].strip()) > 3 else ''
            if rest:
                needs.append(rest)
            continue
        if on:
            if HEAD.match(s) or re.match(r'^[-=]{4,}$', s) and needs:
                if re.match(r'^[-=]{4,}$', s) and not needs:
                    continue
                break
            if re.match(r'^[-=]{4,}$', s):
                continue
            needs.append(s)
    needs = ' '.join(x for x in needs if x).strip()
    files = sorted(set(re.findall(r'^\+\+\+ b/(\S+)', open(os.path.join(d, 'patch.diff')).read(), re.M)))
    build = open(os.path.join(d, 'build.txt')).read().strip() if os.path.exists(os.path.join(d, 'build.txt')) else ''
    old = {}
    mp = os.path.join(d, 'meta.json')
    if os.path.exists(mp):
        old = json.load(open(mp))
    res = log.get(sid)
    detected = {}
    for r in res or []:
        m = re.match(r'(C\d+):exit=(\d+)\((\d+)v,(\d*)u\)', r)
        if m:
            detected[m.group(1)] = dict(exit=int(m.group(2)), violations=int(m.group(3)), undecided=int(m.group(4) or 0))
    meta = dict(
        id=sid,
        property=sid.split('-')[0],
        summary=old.get('summary') or title,
        files=files,
        needs_to_manifest=old.get('needs_to_manifest') or needs,
        origin='written by a sub-agent that saw only the property text and a scratch worktree of /repo (nothing from /verif)',
        what_was_run=[
            'patch applied to a scratch worktree of /repo (git apply), library test suite rebuilt and run: 112 tests passed with the change',
            'demo.cpp built against the changed and the unchanged headers (%s): fails with the change, passes without it' % (build or 'clang++ -std=c++20 -fsanitize=address,undefined'),
            'sh tools/matrix.sh seeded/%s  (git -C /repo apply; ./bin/check; git -C /repo checkout -- .)' % sid,
        ],
        check_result=detected if detected else old.get('check_result', {}),
        caught=(any(v['exit'] == 1 for v in detected.values()) if detected else old.get('caught')),
    )
    for k in ('miss_reason', 'caught_by_rule'):
        if k in old:
            meta[k] = old[k]
    json.dump(meta, open(mp, 'w'), indent=1)
    print(sid, 'caught' if meta['caught'] else 'MISSED', '| needs:', meta['needs_to_manifest'][:110])
