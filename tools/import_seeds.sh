#!/bin/sh
# usage: [TAG=r5] import_seeds.sh <Cnn> : copies /tmp/mut_<Cnn>$TAG/<k>/ into seeded/<Cnn>-<next free number>/, removes the agent's worktree
cd /verif
for p in "$@"; do
  for src in /tmp/mut_$p$TAG/*/; do
    [ -f "$src/patch.diff" ] || continue
    n=1; while [ -e seeded/$p-$n ]; do n=$((n+1)); done
    mkdir -p seeded/$p-$n && cp "$src"/patch.diff "$src"/notes.txt seeded/$p-$n/ 2>/dev/null
    for f in demo.cpp build.txt; do [ -f "$src/$f" ] && cp "$src/$f" seeded/$p-$n/; done
    echo "seeded/$p-$n <- $src"
  done
  rm -rf /tmp/mut_$p$TAG
  git -C /repo worktree remove --force /tmp/wt_$p$TAG 2>/dev/null
done
