"""C09 - split, tokenize and replace partition the text exactly; join inverts split.

Every loop that searches for a separator / pattern is summarised per iteration with the search primitive as a symbol
(match at cursor + k inside the haystack, or no match):

R09.1 the needle handed to the substring search is never empty (empty separator / pattern leave the text whole)
R09.2 skip coherence: the next search starts at (match + length of the needle that was searched for) in all five loops
R09.3 replace: the sizing scan adds |to| - |from| per occurrence; the copying scan copies [pstart, match) then `to` and advances the
      output by (match - pstart) + |to|; both scans issue the same search from the same cursor, so they see the same occurrences;
      the result is allocated with the counted size
R09.4 split: one piece [cursor, match) and one decrement of max_splits per iteration, final piece [cursor, end): at most max+1
      contiguous pieces
R09.5 tokenize: each piece is a non-empty run [next, cur), delimiters are tested with find_cs on the delimiter set
"""
import re

from ..interp import Interp, Hooks, Budget
from ..state import State, Obj, IntV, PtrV, NULL, MAXLEN
from ..terms import Lin, ZERO
from ..ir import int_bits
from . import own
from .c08 import string_scene, SliceHooks
from .common import short, fn_loc, robust, congruent

LEVEL = 'other'
EXPLANATION = ('per-iteration step summaries of the five searching loops by abstract interpretation with the search primitive as a symbol; '
               'the step facts (needle length, resume position, size / output balance, piece boundaries) are machine-checked, the loop '
               'invariants that turn them into the whole-string equations are stated in DESIGN.md')

SEARCH_RE = re.compile(r'^_ST_PRIVATE::find_c([si])\(char const\*, unsigned long, char const\*, unsigned long\)')
SEARCH1_RE = re.compile(r'^_ST_PRIVATE::find_c([si])\(char const\*, unsigned long, char\)')


_SHAPE_CACHE = {}


def search_core_shape(m, F, name):
    """A library function that is a substring search by shape rather than by name: it returns a pointer, takes
    (text, its length or its end, needle, needle length[, a mode flag]) and reaches both the character search and the
    three-argument comparison.  Returns {'end': second parameter is an end pointer, 'mode': index of the flag or None} or None."""
    key = (id(m), name)
    if key in _SHAPE_CACHE:
        return _SHAPE_CACHE[key]
    r = None
    if name in F.libset and m.has(name):
        f = m.func(name)
        tys = [p['ty'] for p in f.params]
        d = f.dem
        if f.ret == 'i8*' and len(tys) in (4, 5) and tys[0] == 'i8*' and tys[1] in ('i64', 'i8*') and tys[2] == 'i8*' and tys[3] == 'i64' \
                and (len(tys) == 4 or tys[4] in ('i1', 'i8', 'i32')) and not SEARCH_RE.match(d):
            seen, work, has_chr, has_cmp = set(), [(name, 0)], False, False
            while work:
                n_, depth = work.pop()
                if n_ in seen or depth > 3:
                    continue
                seen.add(n_)
                for (i, ts, kind) in F.calls.get(n_, ()):
                    for t in ts:
                        dt = m.dem(t)
                        if SEARCH1_RE.match(dt) or t == 'memchr' or dt.startswith('std::char_traits<char>::find('):
                            has_chr = True
                        if re.match(r'^_ST_PRIVATE::compare_c[si]\(char const\*, char const\*, unsigned long\)', dt) or t in ('memcmp', 'bcmp') \
                                or dt.startswith('std::char_traits<char>::compare('):
                            has_cmp = True
                        if t in F.libset:
                            work.append((t, depth + 1))
            if has_chr and has_cmp:
                r = {'end': tys[1] == 'i8*', 'mode': 4 if len(tys) == 5 else None}
    _SHAPE_CACHE[key] = r
    return r


def rejects_empty_needle(m, F, E, name, shape):
    """True when the search core `name`, handed a needle of length 0, returns null on every path (it treats the empty needle
    itself); False when some path can return a position; None when not decided."""
    key = (id(m), name, 'empty')
    if key in _SHAPE_CACHE:
        return _SHAPE_CACHE[key]
    from .c07 import SearchHooks
    r = None
    try:
        I = Interp(m, F, E, SearchHooks(m, 'char'))
        st = State()
        st.rng['hsize'] = (0, MAXLEN)
        ho = Obj('ext', Lin.atom('hsize') + 1)
        ho.lazy = True
        st.objs['HAY'] = ho
        no = Obj('ext', Lin.const(1))
        no.lazy = True
        st.objs['NEEDLE0'] = no
        f = m.func(name)
        args = [PtrV('HAY'), PtrV('HAY', Lin.atom('hsize')) if shape['end'] else IntV(64, Lin.atom('hsize'), 'u'), PtrV('NEEDLE0'), IntV(64, ZERO, 'u')]
        if shape['mode'] is not None:
            b_ = int_bits(f.params[4]['ty']) or 32
            args.append(I.fresh_int(st, b_, 'mode', hi=1))
        outs = I.run(I.start(f, args, st))
        rets = [o for o in outs if o.kind == 'ret']
        if rets and all(isinstance(o.val, PtrV) and o.val.obj is None for o in rets) and all(o.kind in ('ret', 'backedge') for o in outs):
            r = True
        elif any(isinstance(o.val, PtrV) and o.val.obj is not None for o in rets):
            r = False
    except Exception:
        r = None
    _SHAPE_CACHE[key] = r
    return r


class PartHooks(SliceHooks):
    unroll = 0
    widen_on_entry = True
    max_paths = 6000
    watch = None            # atom of an input (the case mode): a branch / switch / select decided by it is recorded as 'cs-read'

    def __init__(self, m):
        SliceHooks.__init__(self, m)

    def on_cond(self, I, st, inst, c):
        if self.watch is not None and self.watch in I.cond_atoms(st, c):
            st.ev('cs-read', inst)

    # a preparatory loop of the member itself that calls nothing (a scan over the separator before the searching loop) is
    # interpreted exactly for its first rounds, so that what it leaves behind is a function of the inputs on those paths
    prescan_unroll = 3

    def unroll_for(self, I, fn, header, st=None):
        if st is not None and len(st.frames) == 1 and self.unroll == 0:
            from ..interp import loop_info
            loops, _b = loop_info(fn)
            body = loops.get(header, ())
            if body and not any(i.op in ('call', 'invoke') for b in fn.blocks if b.id in body for i in b.insts):
                return self.prescan_unroll
        return self.unroll

    def call(self, I, st, inst, name, args):
        if name is None:
            return None
        d = self.m.dem(name)
        mt = SEARCH_RE.match(d)
        mt1 = SEARCH1_RE.match(d)
        if mt or mt1:
            hay, hlen = args[0], args[1]
            nlen = I.as_u(st, args[3]) if mt and isinstance(args[3], IntV) else Lin.const(1)
            hl = I.as_u(st, hlen) if isinstance(hlen, IntV) else None
            st.ev('search', inst, hay, hl, args[2], nlen, 'ci' if (mt or mt1).group(1) == 'i' else 'cs', 'needle' if mt else 'char')
            if not isinstance(hay, PtrV) or hay.obj is None or hl is None:
                return [(st, I.fresh_ptr(st, 'match', maynull=True))]
            s2 = I.fork(st)
            k = I.fresh('k')
            st.rng[k] = (0, MAXLEN)
            conts = []
            if st.assume_ge0(hl - Lin.atom(k) - nlen):
                st.flags['match'] = (hay.obj, hay.off + Lin.atom(k), nlen)
                if mt1:
                    st.ev('mhit', inst, args[2])        # this unit was found in the set searched
                conts.append((st, PtrV(hay.obj, hay.off + Lin.atom(k), None)))
            conts.append((s2, NULL))
            return conts
        shape = search_core_shape(self.m, I.F, name) if I.F is not None else None
        if shape is not None and isinstance(args[0], PtrV) and isinstance(args[3], IntV):
            # a substring search of another name (the scan extracted into a shared helper): the same symbol as find_cs / find_ci,
            # except that a helper which answers "not found" for an empty needle itself is not asked about one
            hay = args[0]
            if shape['end']:
                hl = (args[1].off - hay.off) if isinstance(args[1], PtrV) and args[1].obj == hay.obj and hay.obj is not None else None
            else:
                hl = I.as_u(st, args[1]) if isinstance(args[1], IntV) else None
            nlen = I.as_u(st, args[3])
            conts = []
            if rejects_empty_needle(self.m, I.F, I.E, name, shape) is True:
                s0 = I.fork(st)
                if s0.assume_eq0(nlen):
                    conts.append((s0, NULL))
                if not st.assume_ge0(nlen - 1):
                    return conts
            st.ev('search', inst, hay, hl, args[2], nlen, 'shape', 'needle')
            if hay.obj is None or hl is None:
                return conts + [(st, I.fresh_ptr(st, 'match', maynull=True))]
            s2 = I.fork(st)
            k = I.fresh('k')
            st.rng[k] = (0, MAXLEN)
            if st.assume_ge0(hl - Lin.atom(k) - nlen):
                st.flags['match'] = (hay.obj, hay.off + Lin.atom(k), nlen)
                conts.append((st, PtrV(hay.obj, hay.off + Lin.atom(k), None)))
            conts.append((s2, NULL))
            return conts
        mc = re.match(r'^_ST_PRIVATE::compare_c([si])\(char const\*, unsigned long, char const\*, unsigned long\)', d)
        if mc:
            # a whole-string comparison (a decision about two texts, not a search): a symbol, remembered with its mode
            v = I.fresh_int(st, 32, 'cmp4', signed=True)
            st.ev('cmp4', inst, 'c' + mc.group(1), list(args), v)
            return [(st, v)]
        if 'emplace_back' in d or 'push_back' in d:
            if 'emplace_back<char const*&, long' in d and len(args) >= 3:
                # in-place construction string(ptr, len, validation): the arguments travel by reference
                p = I.load(st, inst, args[1], 'i8*', 8)
                n = I.load(st, inst, args[2], 'i64', 8)
                st.ev('piece', inst, p, n)
            st.ev('push', inst, list(args))
            return [(st, None)]
        if d.startswith('ST::string::from_validated(char const*, unsigned long)') or re.match(r'^ST::string::string\(char const\*, unsigned long, ST::utf_validation_t\)', d):
            # piece construction: (ptr,len)
            off = 1 if d.startswith('ST::string::from_validated') else 1
            st.ev('piece', inst, args[1], args[2])
            return [(st, None)]
        if d.startswith('std::vector<ST::string') and ('~vector' in d or '::vector(' in d):
            return [(st, None)]
        if d.startswith('ST::string::~string') or d.startswith('ST::string::string(ST::string&&)'):
            return [(st, None)]
        return None



def soften(probs, und):
    """Findings that speak about a symbol standing for lost precision and carry no witness become undecided."""
    from .common import abstract_atoms
    soft = [p for p in probs if abstract_atoms(p) and 'witness' not in p]
    if not soft:
        return probs, und
    return [p for p in probs if p not in soft], list(und) + ['%s (over an abstracted value: not a witness)' % p[:200] for p in soft[:2]]


def find(m, F, dem):
    for name in F.lib:
        f = m.func(name)
        if f.dem == dem:
            return f
    return None


def slot_delta(I, st, f, pred):
    b = st.flags.get('wbegin:' + f.name) or {}
    e = st.flags.get('wend:' + f.name) or {}
    out = []
    for nm, bv in b.items():
        ev = e.get(nm)
        if pred(bv) and ev is not None:
            out.append((nm, bv, ev))
    return out


def next_start(I, st, f, sto, hay):
    """(cursor position at the start of the iteration, position the next iteration searches from), both as offsets into the
    storage object.  The cursor is the carried slot (pointer into the string, or index) from which this iteration's search start
    differs by a constant; the next start is the slot's end value plus that constant."""
    if not isinstance(hay, PtrV) or hay.obj != sto.obj:
        return None
    b = st.flags.get('wbegin:' + f.name) or {}
    e = st.flags.get('wend:' + f.name) or {}
    cands = []
    for nm, bv in b.items():
        ev = e.get(nm)
        if isinstance(bv, PtrV) and bv.obj == sto.obj and isinstance(ev, PtrV) and ev.obj == sto.obj:
            b0, e0 = bv.off, ev.off
        elif isinstance(bv, IntV) and bv.bits == 64 and isinstance(ev, IntV):
            b0, e0 = sto.off + bv.lin, sto.off + ev.lin
        else:
            continue
        c = hay.off - b0
        if not c.t:
            cands.append((0 if isinstance(bv, PtrV) else 1, b0, e0 + c.c))
    if not cands:
        return None
    cands.sort(key=lambda x: x[0])
    return cands[0][1], cands[0][2]


def splits(run, m, F, E, L):
    n = 0
    specs = [('ST::string::split(char, unsigned long, ST::case_sensitivity_t) const', 'char'),
             ('ST::string::split(char const*, unsigned long, ST::case_sensitivity_t) const', 'cstr'),
             ('ST::string::split(ST::string const&, unsigned long, ST::case_sensitivity_t) const', 'string')]
    for dem, form in specs:
        f = find(m, F, dem)
        run.need(f is not None, '%s not found' % dem)
        n += 1
        I = Interp(m, F, E, PartHooks(m))
        st = State()
        this, ret, entry = string_scene(I, st, L, 'large', with_ret=False)
        vec = I.fresh_ptr(st, 'result')
        if form == 'char':
            sep = I.fresh_int(st, 8, 'sep', lo=1, hi=0x7F)
            seplen = Lin.const(1)
        elif form == 'cstr':
            st.rng['slen'] = (0, MAXLEN)
            so = Obj('ext', Lin.atom('slen') + 1)
            so.attrs['cstr_len'] = Lin.atom('slen')
            st.objs['SEP'] = so
            sep = PtrV('SEP')
            seplen = Lin.atom('slen')
        else:
            sepo = own.make_buffer(I, st, L, 'sep', 'large')
            st.rng['size(sep)'] = (0, MAXLEN)      # an empty separator is a legal argument
            sep = PtrV(sepo)
            seplen = st.flags['entry:sep']['size']
        mx = I.fresh_int(st, 64, 'max_splits')
        cs = I.fresh_int(st, 32, 'cs', hi=1)
        outs = I.run(I.start(f, [vec, PtrV(this), sep, mx, cs], st))
        s = entry['size']
        sto = entry['storage']
        p1, p2, p4, und = [], [], [], []
        nit = nfinal = 0
        for o in outs:
            s2 = o.st
            searches = [e for e in s2.events if e[0] == 'search' and e[7] == ('char' if form == 'char' else 'needle')]
            for e in searches:
                if s2.is_ge0(e[5] - 1) is not True:
                    env = s2.find_model([e[5]], lambda v: v[0] <= 0)
                    if env is not None or s2.is_ge0(e[5] - 1) is False:
                        p1.append('substring search is called with an empty needle (line %d)%s' % (e[1].line, '; witness ' + own.fmt_env(env) if env else ''))
                    else:
                        und.append('needle length at line %d not decided positive' % e[1].line)
                hay, hl = e[2], e[3]
                if isinstance(hay, PtrV) and hay.obj == sto.obj and hl is not None:
                    if not (s2.is_ge0(hay.off - sto.off) is True and s2.is_ge0(sto.off + s - hay.off - hl) is True):
                        p4.append('search range [%r, +%r) is not inside the string' % (hay.off - sto.off, hl))
            if o.kind == 'backedge' and o.info and o.info[0] == f.name:
                wi = max([k2 for k2, e in enumerate(s2.events) if e[0] == 'widen' and e[1] == f.name] or [-1])
                evs = s2.events[wi + 1:]
                se = [e for e in evs if e[0] == 'search' and e[7] == ('char' if form == 'char' else 'needle')]
                pc = [e for e in evs if e[0] == 'piece']
                if not se and not pc:
                    continue          # a loop of the function that neither searches nor emits (separator pre-scan)
                if len(se) != 1:
                    und.append('iteration with %d searches' % len(se))
                    continue
                nit += 1
                mt = s2.flags.get('match')
                cur = slot_delta(I, s2, f, lambda v: isinstance(v, PtrV) and v.obj == sto.obj)
                cnt = slot_delta(I, s2, f, lambda v: isinstance(v, IntV) and v.bits == 64)
                if len(cur) != 1 or mt is None:
                    und.append('cursor / match not tracked')
                    continue
                nm, bv, ev = cur[0]
                # R09.2 resume position
                what = {'char': '1 unit', 'cstr': 'strlen(splitter)', 'string': 'splitter.size()'}[form]
                if not isinstance(ev, PtrV):
                    und.append('cursor after the iteration not tracked')
                else:
                    d9 = ev.off - mt[1] - seplen
                    r9 = s2.is_eq0(d9)
                    if r9 is not True:
                        env = s2.find_model([d9], lambda v: v[0] != 0)
                        if env is not None or r9 is False:
                            p2.append('next search starts at match + (%r), the separator searched for is %s long%s' %
                                      (ev.off - mt[1], what, '; witness ' + own.fmt_env(env) if env else ''))
                        else:
                            und.append('resume position match + (%r) vs the separator length (%s) not decided' % (ev.off - mt[1], what))
                d8 = mt[2] - seplen
                r8 = s2.is_eq0(d8)
                if r8 is not True:
                    env = s2.find_model([d8], lambda v: v[0] != 0)
                    if env is not None or r8 is False:
                        p2.append('the needle length handed to the search is %r, not the separator length (%s)%s' %
                                  (mt[2], what, '; witness ' + own.fmt_env(env) if env else ''))
                    else:
                        und.append('needle length %r vs the separator length (%s) not decided' % (mt[2], what))
                # R09.4 piece = [cursor, match)
                if len(pc) != 1 or not (isinstance(pc[0][2], PtrV) and pc[0][2].obj == sto.obj and s2.is_eq0(pc[0][2].off - bv.off) is True and
                                        isinstance(pc[0][3], IntV) and s2.is_eq0(I.as_u(s2, pc[0][3]) - (mt[1] - bv.off)) is True):
                    p4.append('piece of an iteration is not [cursor, match)')
                # the budget of splits: some carried integer M with M == max_splits on entry, M >= 1 in an iteration that cuts, and
                # M - 1 afterwards - whether spelled as a countdown of max_splits or as a counter running up to it
                hk = [k for k in s2.flags if isinstance(k, str) and k.startswith('hentry:' + f.name + ':')]
                ent = s2.flags.get(hk[-1]) if hk else {}
                budget_ok, moved = False, False
                for (nm2, bv2, ev2) in cnt:
                    if not isinstance(ev2, IntV):
                        continue
                    b0, e0 = I.as_u(s2, bv2), I.as_u(s2, ev2)
                    if b0 is None or e0 is None:
                        continue
                    if s2.is_eq0(e0 - b0) is not True:
                        moved = True
                    en = ent.get(nm2)
                    en0 = I.as_u(s2, en) if isinstance(en, IntV) else None
                    if s2.is_eq0(b0 - e0 - 1) is True:          # countdown
                        M, M0 = b0, en0
                    elif s2.is_eq0(e0 - b0 - 1) is True:        # counter
                        M, M0 = mx.lin - b0, (mx.lin - en0) if en0 is not None else None
                    else:
                        continue
                    if M0 is not None and s2.is_eq0(M0 - mx.lin) is True and s2.is_ge0(M - 1) is True:
                        budget_ok = True
                if not budget_ok:
                    if not moved:
                        p4.append('nothing counts the pieces of an iteration: max_splits cannot limit them')
                    else:
                        und.append('no carried integer recognised as the split budget (max_splits on entry, one less per piece, positive when cutting)')
            elif o.kind == 'ret':
                pc = [e for e in s2.events if e[0] == 'piece']
                if pc:
                    nfinal += 1
                    last = pc[-1]
                    if not (isinstance(last[2], PtrV) and last[2].obj == sto.obj and isinstance(last[3], IntV) and
                            s2.is_eq0(last[2].off - sto.off + I.as_u(s2, last[3]) - s) is True):
                        p4.append('final piece does not extend to the end of the string')
            elif o.kind == 'abort':
                if not (o.info and o.info[0] == 'assert'):
                    p4.append('aborts')
        if nit == 0:
            und.append('no searching iteration explored')
        for rule, probs, okmsg in (('R09.1', p1, 'needle length >= 1 at every search'), ('R09.2', p2, 'resume at match + separator length'),
                                   ('R09.4', p4, 'pieces [cursor,match), one decrement per piece, final piece to the end')):
            probs, und2 = soften(probs, und)
            run.ob(rule, short(f.dem), False if probs else (None if und2 else True), probs[0] if probs else (und2[0] if und2 else okmsg), disc=form, loc=fn_loc(f))
    return n


def replace(run, m, F, E, L):
    f = find(m, F, 'ST::string::replace(ST::string const&, ST::string const&, ST::case_sensitivity_t) const')
    run.need(f is not None, 'replace core not found')
    I = Interp(m, F, E, PartHooks(m))
    st = State()
    this, ret, entry = string_scene(I, st, L, 'large')
    fo = own.make_buffer(I, st, L, 'from', 'large')
    to = own.make_buffer(I, st, L, 'to', 'large')
    st.rng['size(from)'] = (0, MAXLEN)
    st.rng['size(to)'] = (0, MAXLEN)
    fl, tl = st.flags['entry:from']['size'], st.flags['entry:to']['size']
    cs = I.fresh_int(st, 32, 'cs', hi=1)
    outs = I.run(I.start(f, [PtrV(ret), PtrV(this), PtrV(fo), PtrV(to), cs], st))
    s = entry['size']
    sto = entry['storage']
    fsto = st.flags['entry:from']['storage']
    tsto = st.flags['entry:to']['storage']
    p1, p2, p3, und = [], [], [], []
    scans = {}
    for o in outs:
        s2 = o.st
        for e in [e for e in s2.events if e[0] == 'search' and e[7] == 'needle']:
            if s2.is_ge0(e[5] - 1) is not True:
                env = s2.find_model([e[5]], lambda v: v[0] <= 0)
                if env is not None or s2.is_ge0(e[5] - 1) is False:
                    p1.append('substring search is called with an empty pattern (line %d)%s' % (e[1].line, '; witness ' + own.fmt_env(env) if env else ''))
            if not (isinstance(e[4], PtrV) and e[4].obj == fsto.obj and s2.is_eq0(e[5] - fl) is True):
                if isinstance(e[4], PtrV) and e[4].obj is not None and e[4].obj != fsto.obj:
                    p3.append('search at line %d is not for the pattern `from` (it searches for %r)' % (e[1].line, e[4]))
                else:
                    d9 = e[5] - fl
                    env = s2.find_model([d9], lambda v: v[0] != 0) if robust([d9]) else None
                    (p3 if env is not None else und).append('search at line %d is for %r units, the pattern is from.size() long%s' %
                                                            (e[1].line, e[5], '; witness ' + own.fmt_env(env) if env else ' (not decided)'))
            hay, hl = e[2], e[3]
            if isinstance(hay, PtrV) and hay.obj == sto.obj and hl is not None:
                d9 = hay.off + hl - sto.off - s
                if s2.is_eq0(d9) is not True:
                    env = s2.find_model([d9], lambda v: v[0] != 0) if robust([d9]) else None
                    (p3 if env is not None else und).append('search at line %d does not cover [cursor, end of the string): it ends %r units from the end%s' %
                                                            (e[1].line, d9, '; witness ' + own.fmt_env(env) if env else ' (not decided)'))
        if o.kind == 'ret' and not [e for e in s2.events if e[0] == 'search']:
            # a result produced without looking for `from` at all: fine when the text or the pattern is empty, or when `from` and
            # `to` are the same bytes (substituting a pattern by itself); a comparison that ignores case does not justify it
            if s2.is_eq0(s) is True or s2.is_eq0(fl) is True:
                pass
            else:
                cm4 = [e for e in s2.events if e[0] == 'cmp4']
                just = [e for e in cm4 if isinstance(e[3][0], PtrV) and isinstance(e[3][2], PtrV) and
                        set([e[3][0].obj, e[3][2].obj]) == set([fsto.obj, tsto.obj]) and s2.is_eq0(e[4].lin) is True]
                if any(e[2] == 'ci' for e in just):
                    p3.append('returns without searching because `from` and `to` compare equal ignoring case: occurrences of `from` written in '
                              'another case than `to` stay unsubstituted (e.g. from="a", to="A", text "a")')
                elif just:
                    pass            # byte-for-byte equal pattern and replacement: a no-op
                else:
                    und.append('a result is produced without searching for the pattern, on a path not decided to be the empty / identical case')
        if o.kind == 'backedge' and o.info and o.info[0] != f.name and m.has(o.info[0]):
            # a searching loop of a helper that replace() calls (a counting pass moved out of the member): the occurrences it sees
            # are the ones the copying scan substitutes only if it, too, resumes behind the whole match
            g = m.func(o.info[0])
            wi = max([k2 for k2, e in enumerate(s2.events) if e[0] == 'widen' and e[1] == g.name and e[2] == o.info[1]] or [-1])
            se = [e for e in s2.events[wi + 1:] if e[0] == 'search' and e[7] == 'needle']
            mt = s2.flags.get('match')
            if len(se) == 1 and mt is not None and isinstance(se[0][4], PtrV) and se[0][4].obj == fsto.obj:
                nxt = next_start(I, s2, g, sto, se[0][2])
                if nxt is None:
                    und.append('scan cursor of %s not tracked' % short(g.dem, 60))
                else:
                    d9 = nxt[1] - mt[1] - fl
                    if s2.is_eq0(d9) is not True:
                        env = s2.find_model([d9], lambda v: v[0] != 0) if robust([d9]) else None
                        if env is not None:
                            p2.append('the scan in %s (line %d) resumes at match + (%r), the pattern is from.size() long: it sees overlapping occurrences '
                                      'that the copying scan does not substitute; witness %s' % (short(g.dem, 50), se[0][1].line, nxt[1] - mt[1], own.fmt_env(env)))
                        else:
                            und.append('resume position of the scan in %s (%r) vs match + |from| not decided' % (short(g.dem, 50), nxt[1] - mt[1]))
            continue
        if o.kind != 'backedge' or not o.info or o.info[0] != f.name:
            continue
        hdr = o.info[1]
        wi = max([k2 for k2, e in enumerate(s2.events) if e[0] == 'widen' and e[1] == f.name and e[2] == hdr] or [-1])
        evs = s2.events[wi + 1:]
        se = [e for e in evs if e[0] == 'search' and e[7] == 'needle']
        mt = s2.flags.get('match')
        if not se and not [e for e in evs if e[0] == 'copy']:
            continue
        if len(se) != 1 or mt is None:
            und.append('iteration with %d searches' % len(se))
            continue
        outc = slot_delta(I, s2, f, lambda v: isinstance(v, PtrV) and v.obj not in (sto.obj, fsto.obj, tsto.obj) and v.obj is not None)
        ints = slot_delta(I, s2, f, lambda v: isinstance(v, IntV) and v.bits == 64)
        nxt = next_start(I, s2, f, sto, se[0][2])
        if nxt is None:
            und.append('scan cursor not tracked')
            continue
        bv_off, nstart = nxt
        if s2.is_eq0(nstart - mt[1] - fl) is not True:
            env = s2.find_model([nstart - mt[1] - fl], lambda v: v[0] != 0) if robust([nstart - mt[1] - fl]) else None
            if env is not None or (s2.is_eq0(nstart - mt[1] - fl) is False and robust([nstart - mt[1] - fl])):
                p2.append('the scan at line %d resumes at match + (%r), the pattern is from.size() long%s' %
                          (se[0][1].line, nstart - mt[1], '; witness ' + own.fmt_env(env) if env else ''))
            else:
                und.append('resume position %r vs match + |from| not decided' % (nstart - mt[1],))
        copies = [e for e in evs if e[0] == 'copy']
        if not copies:
            # sizing scan: one accumulator grows by |to| - |from|
            # size_t arithmetic: |to| - |from| may wrap when the replacement is shorter; equality is modulo 2^64
            ok = [c for c in ints if isinstance(c[2], IntV) and congruent(s2, I.as_u(s2, c[2]) - I.as_u(s2, c[1]), tl - fl, 64)]
            scans.setdefault('size', []).append(bool(ok))
            if not ok:
                deltas = [(I.as_u(s2, c[2]) - I.as_u(s2, c[1])) for c in ints if isinstance(c[2], IntV) and I.as_u(s2, c[2]) is not None and I.as_u(s2, c[1]) is not None]
                counters = [d for d in deltas if s2.is_eq0(d - 1) is True]
                moving = [d for d in deltas if s2.is_eq0(d) is not True and d not in counters]
                wit = None
                for d in moving:
                    dd = d - (tl - fl)
                    if robust([dd]):
                        wit = s2.find_model([dd], lambda v: v[0] % (1 << 64) != 0)
                        if wit is not None:
                            p3.append('the sizing scan adds %r per occurrence, the result grows by |to| - |from|; witness %s' % (d, own.fmt_env(wit)))
                            break
                if wit is None:
                    und.append('the sizing scan %s; how the result size follows from that is not analysed' %
                               ('counts the occurrences' if counters else 'keeps no recognised size accumulator'))
        else:
            scans.setdefault('copy', []).append(True)
            gap = mt[1] - bv_off
            if len(copies) != 2:
                p3.append('copying scan makes %d copies per occurrence, expected the gap and the replacement' % len(copies))
            else:
                c1, c2 = copies
                if not (isinstance(c1[3], PtrV) and c1[3].obj == sto.obj and s2.is_eq0(c1[3].off - bv_off) is True and s2.is_eq0(c1[4] - gap) is True):
                    p3.append('first copy is not the text between the cursor and the match')
                if not (isinstance(c2[3], PtrV) and c2[3].obj == tsto.obj and s2.is_eq0(c2[3].off - tsto.off) is True and s2.is_eq0(c2[4] - tl) is True):
                    p3.append('second copy is not the replacement text (to.c_str(), to.size())')
                if isinstance(c1[2], PtrV) and isinstance(c2[2], PtrV) and s2.is_eq0(c2[2].off - c1[2].off - gap) is not True:
                    p3.append('the replacement is not written right after the gap')
            oc = [c for c in outc if isinstance(c[2], PtrV)]
            if len(oc) != 1 or s2.is_eq0(oc[0][2].off - oc[0][1].off - gap - tl) is not True:
                p3.append('output advances by %s, expected (match - cursor) + |to|' % ([repr(c[2].off - c[1].off) for c in oc]))
    if 'copy' not in scans:
        und.append('copying scan not explored')
    if 'size' not in scans:
        und.append('sizing scan not explored')
    for rule, probs, okmsg in (('R09.1', p1, 'pattern length >= 1 at every search'), ('R09.2', p2, 'both scans resume at match + |from|'),
                               ('R09.3', p3, 'sizing adds |to|-|from|; copying copies gap + replacement; same search in both scans')):
        probs, und2 = soften(probs, und)
        run.ob(rule, short(f.dem), False if probs else (None if und2 else True), probs[0] if probs else (und2[0] if und2 else okmsg), disc='replace', loc=fn_loc(f))
    mode_blind(run, m, F, E, L, f)
    # the other replace overloads construct strings from their arguments and forward to the core
    n = 1
    for name in F.lib:
        g = m.func(name)
        if g.dem.startswith('ST::string::replace(') and g.name != f.name:
            n += 1
            reach = [m.dem(t) for t in F.reachable_from([name]) if t != name and m.has(t)]
            ok = any(c.startswith(f.dem.split('(')[0] + '(') and c == f.dem for c in reach)
            run.ob('R09.3', short(g.dem), True if ok else None, 'forwards to the replace core' if ok else 'does not reach the replace core: a separate implementation, not analysed', disc='forwarder', loc=fn_loc(g))
    return n


def mode_blind(run, m, F, E, L, f):
    """R09.8: whether a unit of the text matches the pattern depends on the case mode (ASCII letters).  replace() is interpreted
    *exactly* (no loop abstraction) for a text, a pattern and a replacement of one unit each, the three units and the mode symbolic,
    the search primitives still symbols.  A returning path on which nothing was searched for and the mode decided nothing (no
    branch, switch or select computed from it, in the member or in anything it calls) does the same thing under case_sensitive and
    case_insensitive; if text "X", pattern "x" take that path, one of the two modes gets the wrong result."""
    class XH(PartHooks):
        unroll = 4
        widen_on_entry = False
    I = Interp(m, F, E, XH(m))
    st = State()
    this, ret, entry = string_scene(I, st, L, 'small')
    fo = own.make_buffer(I, st, L, 'from', 'small')
    to = own.make_buffer(I, st, L, 'to', 'small')
    s, fl, tl = entry['size'], st.flags['entry:from']['size'], st.flags['entry:to']['size']
    if not (st.assume_eq0(s - 1) and st.assume_eq0(fl - 1) and st.assume_eq0(tl - 1)):
        run.ob('R09.8', short(f.dem), None, 'scene with one-unit operands not built', disc='replace', loc=fn_loc(f))
        return
    cs = I.fresh_int(st, 32, 'cs', hi=1)
    I.h.watch = cs.lin.single_atom()[0]
    sto, fsto = entry['storage'], st.flags['entry:from']['storage']
    try:
        outs = I.run(I.start(f, [PtrV(ret), PtrV(this), PtrV(fo), PtrV(to), cs], st))
    except Exception as e:
        run.ob('R09.8', short(f.dem), None, 'not interpreted exactly: %s' % (str(e)[:80],), disc='replace', loc=fn_loc(f))
        return
    probs, und, nret, nsearch = [], [], 0, 0
    for o in outs:
        s2 = o.st
        if o.kind != 'ret':
            continue
        nret += 1
        if any(e[0] == 'search' for e in s2.events):
            nsearch += 1
            continue
        if any(e[0] == 'cs-read' for e in s2.events):
            continue
        if any(e[0] == 'widen' for e in s2.events):
            und.append('a returning path without a search runs through a loop that was abstracted')
            continue
        s3 = s2.clone()
        tu = I.load(s3, None, PtrV(sto.obj, sto.off), 'i8', 1)
        fu = I.load(s3, None, PtrV(fsto.obj, fsto.off), 'i8', 1)
        if not (isinstance(tu, IntV) and isinstance(fu, IntV)):
            und.append('units of the operands not tracked')
            continue
        tl_, fl_ = I.as_u(s3, tu), I.as_u(s3, fu)
        if tl_ is None or fl_ is None or not (s3.assume_eq0(tl_ - 0x58) and s3.assume_eq0(fl_ - 0x78)):
            continue                    # the path excludes these units (e.g. it is the exact-match or the non-letter case)
        wit = s3.find_model([tl_, fl_, cs.lin], lambda v: v[0] == 0x58 and v[1] == 0x78)
        if wit is not None:
            probs.append('for a one-unit text, pattern and replacement a result is produced without a search and without the case mode having '
                         'decided anything on that path: text "X" with pattern "x" takes it under case_sensitive and case_insensitive alike, '
                         'and only the second may substitute; witness %s' % own.fmt_env(wit))
        else:
            und.append('a returning path without a search and without a decision on the case mode: no witness found')
    if nret == 0:
        und.append('no returning path explored')
    run.ob('R09.8', short(f.dem), False if probs else (None if und else True),
           probs[0] if probs else (und[0] if und else 'every returning path for one-unit operands searches with the requested mode or is decided by it '
                                   '(%d paths, %d searching)' % (nret, nsearch)), disc='one-unit operands', loc=fn_loc(f))


def split_mode_blind(run, m, F, E, L):
    """R09.8 for the split overloads: exact interpretation for a one-unit text and a one-unit separator with at least one split
    allowed; a returning path without a search and without a decision on the case mode that text "X", separator "x" can take."""
    specs = [('ST::string::split(char, unsigned long, ST::case_sensitivity_t) const', 'char'),
             ('ST::string::split(char const*, unsigned long, ST::case_sensitivity_t) const', 'cstr'),
             ('ST::string::split(ST::string const&, unsigned long, ST::case_sensitivity_t) const', 'string')]
    for dem, form in specs:
        f = find(m, F, dem)
        if f is None:
            continue

        class XH(PartHooks):
            unroll = 4
            widen_on_entry = False
        I = Interp(m, F, E, XH(m))
        st = State()
        this, ret, entry = string_scene(I, st, L, 'small', with_ret=False)
        vec = I.fresh_ptr(st, 'result')
        s = entry['size']
        ok = st.assume_eq0(s - 1)
        sep_unit = None
        if form == 'char':
            sep = I.fresh_int(st, 8, 'sep', lo=1, hi=0x7F)
            sep_unit = sep.lin
        elif form == 'cstr':
            so = Obj('ext', Lin.const(2))
            so.attrs['cstr_len'] = Lin.const(1)
            st.objs['SEP'] = so
            sep = PtrV('SEP')
        else:
            sepo = own.make_buffer(I, st, L, 'sep', 'small')
            ok = ok and st.assume_eq0(st.flags['entry:sep']['size'] - 1)
            sep = PtrV(sepo)
        mx = I.fresh_int(st, 64, 'max_splits')
        ok = ok and st.assume_ge0(I.as_u(st, mx) - 1)
        cs = I.fresh_int(st, 32, 'cs', hi=1)
        I.h.watch = cs.lin.single_atom()[0]
        sto = entry['storage']
        if not ok:
            run.ob('R09.8', short(f.dem), None, 'scene with one-unit operands not built', disc=form, loc=fn_loc(f))
            continue
        try:
            outs = I.run(I.start(f, [vec, PtrV(this), sep, mx, cs], st))
        except Exception as e:
            run.ob('R09.8', short(f.dem), None, 'not interpreted exactly: %s' % (str(e)[:80],), disc=form, loc=fn_loc(f))
            continue
        probs, und, nret, nsearch = [], [], 0, 0
        for o in outs:
            s2 = o.st
            if o.kind != 'ret':
                continue
            nret += 1
            if any(e[0] == 'search' for e in s2.events):
                nsearch += 1
                continue
            if any(e[0] == 'cs-read' for e in s2.events):
                continue
            if any(e[0] == 'widen' for e in s2.events):
                und.append('a returning path without a search runs through a loop that was abstracted')
                continue
            s3 = s2.clone()
            tu = I.load(s3, None, PtrV(sto.obj, sto.off), 'i8', 1)
            if form == 'char':
                fl_ = sep_unit
            elif form == 'cstr':
                fu = I.load(s3, None, PtrV('SEP'), 'i8', 1)
                fl_ = I.as_u(s3, fu) if isinstance(fu, IntV) else None
            else:
                fs = s3.flags['entry:sep']['storage']
                fu = I.load(s3, None, PtrV(fs.obj, fs.off), 'i8', 1)
                fl_ = I.as_u(s3, fu) if isinstance(fu, IntV) else None
            tl_ = I.as_u(s3, tu) if isinstance(tu, IntV) else None
            if tl_ is None or fl_ is None:
                und.append('units of the operands not tracked')
                continue
            if not (s3.assume_eq0(tl_ - 0x58) and s3.assume_eq0(fl_ - 0x78)):
                continue
            wit = s3.find_model([tl_, fl_, cs.lin, I.as_u(s3, mx)], lambda v: v[0] == 0x58 and v[1] == 0x78 and v[3] >= 1)
            if wit is not None:
                probs.append('for a one-unit text and separator with a split allowed, the pieces are produced without a search and without the case '
                             'mode having decided anything on that path: text "X" with separator "x" takes it under both modes, and only '
                             'case_insensitive may cut; witness %s' % own.fmt_env(wit))
            else:
                und.append('a returning path without a search and without a decision on the case mode: no witness found')
        if nret == 0:
            und.append('no returning path explored')
        run.ob('R09.8', short(f.dem), False if probs else (None if und else True),
               probs[0] if probs else (und[0] if und else 'every returning path for one-unit operands searches with the requested mode or is decided by it '
                                       '(%d paths, %d searching)' % (nret, nsearch)), disc=form + ' / one-unit operands', loc=fn_loc(f))


def tokenize(run, m, F, E, L):
    f = find(m, F, 'ST::string::tokenize(char const*) const')
    run.need(f is not None, 'tokenize not found')

    class TH(PartHooks):
        # the walks inside the token loop (nested loops of the member, or loops of helpers it calls) are interpreted exactly for
        # their first two rounds, so that a token that ends early has a real path
        def unroll_for(self, I, fn, header, st=None):
            from ..interp import loop_info
            if st is not None and len(st.frames) > 1:
                return 2
            loops, _b = loop_info(fn)
            if any(h2 != header and header in body for h2, body in loops.items()):
                return 2
            return self.unroll
    I = Interp(m, F, E, TH(m))
    st = State()
    this, ret, entry = string_scene(I, st, L, 'large', with_ret=False)
    vec = I.fresh_ptr(st, 'result')
    st.rng['dlen'] = (0, MAXLEN)
    do = Obj('ext', Lin.atom('dlen') + 1)
    do.attrs['cstr_len'] = Lin.atom('dlen')
    st.objs['DELIMS'] = do
    outs = I.run(I.start(f, [vec, PtrV(this), PtrV('DELIMS')], st))
    sto = entry['storage']
    s = entry['size']
    probs, und = [], []
    npieces = 0
    for o in outs:
        s2 = o.st
        for e in s2.events:
            if e[0] == 'search':
                if e[7] != 'char' or not (isinstance(e[2], PtrV) and e[2].obj == 'DELIMS' and s2.is_eq0(e[2].off) is True and
                                         e[3] is not None and s2.is_eq0(e[3] - Lin.atom('dlen')) is True):
                    probs.append('delimiter test at line %d is not find_cs(delims, strlen(delims), unit)' % e[1].line)
            elif e[0] == 'piece':
                npieces += 1
                p, ln = e[2], e[3]
                if not (isinstance(p, PtrV) and p.obj == sto.obj and isinstance(ln, IntV)):
                    probs.append('piece is not a range of the string')
                    continue
                l2 = I.as_u(s2, ln)
                if s2.is_ge0(l2 - 1) is not True:
                    probs.append('an empty piece may be emitted')
                if not (s2.is_ge0(p.off - sto.off) is True and s2.is_ge0(sto.off + s - p.off - l2) is True):
                    und.append('piece range not decided to lie inside the string')
                # a token is a *maximal* run: it ends where the string ends or where a unit was found in the delimiter set
                end = p.off + l2
                k9 = s2.events.index(e)
                hits = [h for h in s2.events[:k9 + 40] if h[0] == 'mhit' and isinstance(h[2], IntV) and
                        any(isinstance(a, tuple) and a[0] == 'load' and a[1] == sto.obj and isinstance(a[2], Lin) and s2.is_eq0(a[2] - end) is True
                            for a in h[2].lin.atoms())]
                if s2.is_eq0(end - sto.off - s) is not True and not hits:
                    rest = sto.off + s - end
                    env = s2.find_model([rest], lambda v: v[0] >= 1)
                    if env is not None:
                        probs.append('a token ends at offset %r although the string goes on and the unit there was not found in the delimiter set (a walk that '
                                     'stops on something else than a delimiter or the end, e.g. on an embedded NUL); witness %s' % (end - sto.off, own.fmt_env(env)))
                    else:
                        und.append('end of a token (%r) not decided to be a delimiter or the end of the string' % (end - sto.off,))
            elif e[0] in ('oob', 'oob?') and isinstance(e[3], PtrV) and e[3].obj == sto.obj:
                env = e[6] if len(e) > 6 else None
                if e[0] == 'oob' or env is not None:
                    probs.append('reads the string at offset %r of %r (line %d)%s' % (e[3].off - sto.off, s, e[1].line, '; witness ' + own.fmt_env(env) if env else ''))
    if npieces == 0:
        und.append('no piece emitted on any path')
    if not any(e[0] == 'search' for o in outs for e in o.st.events):
        und.append('the delimiter test is not find_cs(delims, strlen(delims), unit): membership of a unit in the set is not decided')
    probs, und = soften(probs, und)
    run.ob('R09.5', short(f.dem), False if probs else (None if und else True), probs[0] if probs else (und[0] if und else
           'delimiters tested with find_cs on the set; pieces are non-empty ranges of the string; walks stay inside it'), loc=fn_loc(f))
    return 1


SPAN_PRIMS = ('strspn', 'strcspn', 'strpbrk', 'strtok', 'strtok_r', 'strsep', 'strstr', 'strcasestr', 'strchr', 'strrchr', 'strlen',
              'strcmp', 'strncmp', 'strcasecmp', 'strncasecmp')


def nul_blind(run, m, F):
    """R09.6: the text that is cut / scanned is all size() bytes, embedded NULs included: no split / tokenize / replace member hands the
    string's own storage to a C primitive that stops at the first NUL (expected count zero; C06's positive control covers the rule's
    machinery, which is shared)."""
    from . import c06
    return c06.nul_blind(run, m, F, only=lambda f: re.match(r'^ST::string::(split|tokenize|replace)\(', f.dem) is not None, rule='R09.6', prims=SPAN_PRIMS,
                         what='are cut / substituted differently')


def check(run):
    m = run.module()
    F = run.facts()
    E = run.effects()
    run.trust('clang 14 lowering (LLVM IR, -O0, mem2reg)', 'STIR interpreter',
              'C07 for the search primitives (a match lies inside the haystack and is the first one); C05 for the string storage')
    run.assume('the whole-string equations (pieces + separators reassemble the text; result length = size + k(|to|-|from|)) follow from the '
               'machine-checked step facts by the loop invariants stated in DESIGN.md; the invariants themselves are not mechanised')
    L = own.buffer_layout(m, 'char')
    run.need(L is not None, 'layout of ST::buffer<char> not recognised')
    run.floor('split overloads', splits(run, m, F, E, L), 3)
    run.floor('replace overloads', replace(run, m, F, E, L), 4)
    split_mode_blind(run, m, F, E, L)
    tokenize(run, m, F, E, L)
    run.floor('members scanned for NUL-stopping primitives', nul_blind(run, m, F), 8)
    # R09.7: a tokenize that tests its units against a folded representation of the delimiter set (expected count zero on this tree)
    from . import setrep
    run.counts['unit-set predicates under tokenize'] = setrep.check_members(run, 'R09.7', m, F, E, r'^ST::string::tokenize\(char const\*\) const$', 'tokenize')
    for o in run.obs[:6]:
        run.sample(dict(rule=o['rule'], subject=o['subject'], case=o['disc'], verdict=o['verdict'], detail=o['detail'][:160]))
