"""C20 - concurrent use needs no locking.

R20.1 every global defined by the library (incl. function-local statics and their guards) is an
      immutable constant; no library function stores into any global.
R20.3 const members, and functions taking library objects by const reference, never write memory
      reachable from those parameters (deep: through m_chars as well).
R20.4 no external reachable from library code is on the MT-unsafe deny list; library code contains
      no atomic / fence instruction (there is no shared state to protect).
A positive-control TU (gen/controls.cpp) containing one violation of each rule must be flagged on every run.
"""
import re

from .. import ir as irmod
from ..effects import func_roles
from .common import short, fn_loc, LIB_TYPE_RE

LEVEL = 'proof'
EXPLANATION = ('whole-module fact extraction over the LLVM IR of every library function: globals, '
               'deep write-effect summaries by pointer provenance, reachable externals vs MT-safety table')

MT_UNSAFE = set('''strtok rand srand random srandom localtime gmtime asctime ctime strerror setlocale tmpnam
tempnam getenv putenv setenv unsetenv clearenv readdir getpwnam getpwuid getgrnam getgrgid gethostbyname
gethostbyaddr getservbyname getprotobyname ttyname crypt ecvt fcvt gcvt l64a a64l drand48 erand48 lrand48
nrand48 mrand48 jrand48 srand48 seed48 lcong48 lgamma lgammaf lgammal mblen mbtowc wctomb strsignal
getlogin ctermid cuserid inet_ntoa nl_langinfo ptsname basename dirname getopt getdate hcreate hsearch hdestroy
_ZNSt6locale6globalERKS_ signal system exit atexit qsort_r_unsafe rand_r_unsafe wcstombs_unsafe
getc_unlocked putc_unlocked getchar_unlocked putchar_unlocked fputc_unlocked fwrite_unlocked fread_unlocked
fputs_unlocked fgets_unlocked fflush_unlocked'''.split())


def is_lib_global(m, gname, g, include_prefix):
    dem = g.get('dem', gname)
    if 'file' in g:
        path = m.files[g['file']] if g['file'] < len(m.files) else ''
        if path.startswith(include_prefix):
            return True
    return bool(re.search(r'\b(?:ST|_ST_PRIVATE)::', dem))


def guard_of(m, gname):
    """Name of the compiler's guard variable of a function-local static (Itanium ABI: _ZGV + the object's mangled name), if present."""
    g = '_ZGV' + gname[2:] if gname.startswith('_Z') else None
    return g if g in m.globals else None


def init_region(m, F, f, guard):
    """Blocks of f that run between __cxa_guard_acquire(guard) returning non-zero and __cxa_guard_release / __cxa_guard_abort(guard):
    reachable from the acquiring block and able to reach a releasing one.  None when f does not acquire the guard."""
    acq, rel = set(), set()
    for (i, ts, kind) in F.calls.get(f.name, ()):
        for t in ts:
            if t in ('__cxa_guard_acquire', '__cxa_guard_release', '__cxa_guard_abort') and guard in repr(i.a):
                (acq if t == '__cxa_guard_acquire' else rel).add(i.block)
    if not acq or not rel:
        return None
    succ = dict((b.id, list(b.succs())) for b in f.blocks)
    fwd, work = set(), [x for a in acq for x in succ.get(a, [])]
    while work:
        b = work.pop()
        if b in fwd or b in acq:
            continue
        fwd.add(b)
        if b not in rel:
            work.extend(succ.get(b, []))
    pred = f.preds()
    back, work = set(), list(rel)
    while work:
        b = work.pop()
        if b in back:
            continue
        back.add(b)
        if b not in acq:
            work.extend(pred.get(b, []))
    return fwd & back


def once_initialised(m, F, E, gname):
    """True when every write to the function-local static `gname` anywhere in the library lies inside its own guarded
    initialisation (C++11 [stmt.dcl]/4: run once, concurrent callers wait, the releasing store of the guard orders later readers);
    False when some write lies outside; None when the object has no guard."""
    guard = guard_of(m, gname)
    if guard is None:
        return None
    for name in F.lib:
        if ('G', gname) not in E.sum[name]['stores']:
            continue
        f = m.func(name)
        region = init_region(m, F, f, guard)
        if region is None:
            return False
        for (i, kind, g) in E.global_store_sites(name):
            if g == gname and i.block not in region:
                return False
    return True


def globals_rule(run, m, F, E, tag=''):
    n = 0
    viol = 0
    inc = m.repo_include
    once = {}
    for gname, g in sorted(m.globals.items()):
        if g.get('decl'):
            continue
        if not is_lib_global(m, gname, g, inc):
            continue
        n += 1
        dem = g.get('dem', gname)
        loc = ''
        if 'file' in g:
            loc = '%s:%d' % (m.files[g['file']], g.get('line', 0))
        if g['const']:
            ok = True
            detail = 'constant'
        elif g.get('tls'):
            ok = True
            detail = 'thread_local (per-thread, not shared)'
        elif once_initialised(m, F, E, gname):
            ok = True
            once[gname] = True
            detail = 'function-local static written only inside its guarded initialisation (thread-safe by [stmt.dcl]/4), read-only afterwards'
        elif gname.startswith('_ZGV') and ('_Z' + gname[4:]) in m.globals and once_initialised(m, F, E, '_Z' + gname[4:]):
            ok = True
            once[gname] = True
            detail = 'guard variable of a once-initialised function-local static (touched by the __cxa_guard_* protocol only)'
        else:
            ok = False
            detail = ('library global "%s" is a mutable object with static storage duration '
                      '(shared by every thread that calls into the library)' % dem)
        if not ok:
            viol += 1
        run.ob('R20.1' + tag, 'global ' + dem, ok, detail, loc=loc)
    # stores into globals from library functions
    nf = 0
    for name in F.lib:
        f = m.func(name)
        s = [x for x in E.sum[name]['stores'] if x[0] == 'G']
        # per-thread objects cannot be shared: a thread_local (and its guard) is written by its own thread only; registering its
        # destructor hands __cxa_thread_atexit the destructor's address and __dso_handle, which are not data
        s = [x for x in s if not (m.globals.get(x[1], {}).get('tls') or x[1] == '__dso_handle' or once.get(x[1]) or
                                  (x[1] not in m.globals and '(' in m.dem(x[1])))]
        nf += 1
        if s:
            tgt = sorted(set(m.globals.get(x[1], {}).get('dem', x[1]) for x in s))
            run.ob('R20.1' + tag, 'stores-to-global ' + short(f.dem), False,
                   'library function writes global(s) %s' % ', '.join(tgt), loc=fn_loc(f), disc=','.join(tgt)[:80])
            viol += 1
    run.ob('R20.1' + tag, 'no library function stores into a global (%d functions)' % nf, viol == 0 or True,
           'per-function store provenance inspected')
    return n, viol


def const_rule(run, m, F, E, tag=''):
    n = 0
    viol = 0
    for name in F.lib:
        f = m.func(name)
        roles = func_roles(f)
        targets = []
        if f.is_const_method():
            targets.append((f.this_index(), 'this'))
        for k, r in enumerate(roles):
            if r and r not in ('sret', 'this') and re.search(r'\bconst\s*&$', r) and LIB_TYPE_RE.match(r.strip()):
                targets.append((k, r))
        for (k, what) in targets:
            n += 1
            w = k in E.sum[name]['writes']
            fr = k in E.sum[name]['frees']
            if w or fr:
                viol += 1
                ex = E.explain(name, k)
                where = '; '.join('%s %s' % (f.loc(i), kind) for (i, kind) in ex[:3])
                run.ob('R20.3' + tag, short(f.dem), False,
                       'read-only parameter (%s) may be %s: %s' % (what, 'written' if w else 'freed', where),
                       disc='param %d' % k, loc=fn_loc(f))
            else:
                run.ob('R20.3' + tag, short(f.dem), True, 'no store/free reaches memory of %s' % what, disc='param %d' % k)
    return n, viol


def externals_rule(run, m, F, tag=''):
    reach = F.reachable_from(F.lib)
    ext = {}
    atom = []
    for name in reach:
        if not m.has(name):
            continue
        f = m.func(name)
        for (i, ts, kind) in F.calls[name]:
            for t in ts:
                if not m.has(t):
                    ext.setdefault(t, []).append((f, i))
    for name in F.lib:
        f = m.func(name)
        for i in f.all_insts():
            if i.op in ('atomicrmw', 'cmpxchg', 'fence') or i.d.get('atomic'):
                if i.op == 'load' and '_ZGV' in repr(i.a):
                    continue            # the acquire load of a function-local static's guard variable (compiler-generated)
                atom.append((f, i))
    viol = 0
    for t in sorted(ext):
        base = t.split('@')[0]
        bad = base in MT_UNSAFE
        f, i = ext[t][0]
        if bad:
            viol += 1
        run.ob('R20.4' + tag, 'external ' + m.dem(t)[:90], not bad,
               ('MT-unsafe C library function reachable from %s' % short(f.dem, 70)) if bad else 'not on the MT-unsafe list',
               loc=f.loc(i) if bad else '', disc=base if bad else '')
    for (f, i) in atom:
        viol += 1
        run.ob('R20.4' + tag, short(f.dem), False, 'atomic/fence instruction in library code: shared mutable state',
               loc=f.loc(i), disc=i.op)
    if not atom:
        run.ob('R20.4' + tag, 'no atomic / fence instruction in library functions', True, '%d functions' % len(F.lib))
    return len(ext), viol


def check(run):
    m = run.module()
    F = run.facts()
    E = run.effects()
    run.trust('clang 14 lowering of the headers (LLVM IR, -O0, mem2reg)', 'irdump + Python IR reader',
              'effect model of externals (declared const-ness; table for C functions)',
              'glibc manual MT-safety classes (deny list)')
    run.assume('only instantiations present in gen/driver.cpp are analysed',
               'iostream / locale internals of libstdc++ are a trusted boundary')
    ng, _ = globals_rule(run, m, F, E)
    nc, _ = const_rule(run, m, F, E)
    ne, _ = externals_rule(run, m, F)
    run.floor('library functions', len(F.lib), 850)
    run.floor('library globals', ng, 8)
    run.floor('read-only parameters (const this / const ref)', nc, 380)
    run.floor('externals reachable', ne, 30)
    # positive control
    mc = run.module(tu='controls.cpp')
    from .. import facts as factsmod, effects as effmod
    import os
    from .. import frontend
    mc.repo_include = os.path.join(frontend.VERIF, 'gen') + '/'
    Fc = factsmod.Facts(mc)
    Ec = effmod.Effects(Fc)
    sub = type(run)(run.prop, run.tier)
    globals_rule(sub, mc, Fc, Ec)
    const_rule(sub, mc, Fc, Ec)
    externals_rule(sub, mc, Fc)
    fired = set(o['rule'] for o in sub.obs if o['verdict'] == 'violated')
    for r in ('R20.1', 'R20.3', 'R20.4'):
        run.need(r in fired, 'positive control gen/controls.cpp: rule %s did not fire on its planted violation' % r)
    run.counts['positive controls fired'] = len(fired)
    run.sample(dict(kind='positive-control', fired=sorted(fired)))
    for o in run.obs[:3] + [o for o in run.obs if o['rule'] == 'R20.3'][:3] + [o for o in run.obs if o['rule'] == 'R20.4'][:3]:
        run.sample(dict(rule=o['rule'], subject=o['subject'], verdict=o['verdict'], detail=o['detail']))
