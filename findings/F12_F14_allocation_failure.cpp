// Allocation-failure injection: the N-th operator new / new[] after arming throws std::bad_alloc.
#include <string_theory/string>
#include <string_theory/char_buffer>
#include <cstdio>
#include <cstdlib>
#include <new>
static long g_fail_at = -1, g_count = 0;
static void *alloc(size_t n) {
    if (g_fail_at >= 0 && ++g_count == g_fail_at) { g_fail_at = -1; throw std::bad_alloc(); }
    void *p = malloc(n ? n : 1); if (!p) throw std::bad_alloc(); return p;
}
void *operator new(size_t n) { return alloc(n); }
void *operator new[](size_t n) { return alloc(n); }
void operator delete(void *p) noexcept { free(p); }
void operator delete[](void *p) noexcept { free(p); }
void operator delete(void *p, size_t) noexcept { free(p); }
void operator delete[](void *p, size_t) noexcept { free(p); }
static void arm(long n) { g_count = 0; g_fail_at = n; }

int main(int argc, char **argv) {
    int which = argc > 1 ? atoi(argv[1]) : 0;
    const char long1[] = "0123456789012345678901234", long2[] = "abcdefghijklmnopqrstuvwxyzABCDEF";
    if (which == 1) {       // allocate() on a heap-mode buffer: old block released, then new fails
        ST::char_buffer b(long1, 25);
        arm(1);
        try { b.allocate(100); } catch (const std::bad_alloc &) { puts("bad_alloc caught"); }
        printf("size=%zu first=%d\n", b.size(), b.c_str()[0]);   // reads released storage
    } else if (which == 2) { // copy assignment heap <- heap
        ST::char_buffer a(long1, 25), c(long2, 32);
        arm(1);
        try { a = c; } catch (const std::bad_alloc &) { puts("bad_alloc caught"); }
        printf("size=%zu first=%d\n", a.size(), a.c_str()[0]);   // m_chars dangles although size()==0
    } else if (which == 3) { // to_utf8() is noexcept but copies (allocates)
        ST::string s(long1);
        arm(1);
        try { ST::char_buffer u = s.to_utf8(); (void)u; } catch (const std::bad_alloc &) { puts("bad_alloc caught"); return 0; }
        puts("no exception?"); return 1;
    } else if (which == 4) { // building the exception object fails to allocate its message
        arm(1);              // the only allocation on this path is the message of unicode_error
        try { (void)ST::string::from_utf8("\xff", 1, ST::check_validity); }
        catch (const std::bad_alloc &) { puts("bad_alloc caught"); return 0; }
        catch (const ST::unicode_error &) { puts("unicode_error (allocation did not fail?)"); return 1; }
    }
    return 0;
}
