"""C17 - all output sinks emit the same bytes for the same format call.

The argument is structural.  What a format call emits is the sequence of append(data, size) / append_char(ch, count) calls that the
shared driver (apply_format, the parser, the format_type renderers) makes on the abstract ST::format_writer; the driver is the same
code whatever the sink and talks to the sink only through those two virtual members (C10 / C11 analyse it once, for every writer).
Hence two sinks receive the same bytes iff every concrete writer hands its sink exactly the bytes of each call, in call order:

R17.1 append(data, size) of every writer is one hand-over of exactly [data, data + size): fwrite(data, 1, size, stream) for FILE*,
      basic_ostream<char>::write(data, size) for narrow streams, string_stream::append(data, size) for ST::format; for wchar_t /
      char16_t / char32_t streams the buffer returned by the library conversion into *that stream's encoding* -
      utf8_to_wchar / utf8_to_utf16 / utf8_to_utf32 (data, size) - written whole (data(), size())
R17.2 append_char(ch, count) emits exactly count copies of ch (converted to the stream's character type): one fputc / put per
      iteration of a loop that runs count times, or the call forwarded whole to string_stream::append_char(ch, count)
R17.3 every public entry (ST::format x2, format_latin_1, printf x2, writef, _stfmt) constructs one writer over its format string and
      runs apply_format on it; the string forms return to_string(true, requested / default validation), format_latin_1
      to_string(false, assume_valid)
R17.5 call order: a writer that stages bytes in its own storage flushes them before it hands bytes of a later call to the sink directly
R17.4 operator<<(basic_ostream<T>&, const ST::string&) inserts basic_string<T>(b.data(), b.size()) of the buffer filled by
      to_buffer(b); operator>>(basic_istream<T>&, ST::string&) sets the string from exactly the token extracted into a
      basic_string<T> - (c_str(), size()) - with the default validation; that basic_string is empty when the extraction starts on
      every path (constructed or cleared in the call: a token object that outlives the call keeps the previous token when the
      stream yields none)

Decided: these hand-over facts, for every writer instantiated in gen/driver.cpp.  Not decided: that libc / iostream deliver what they
are handed (trusted), what the conversions produce (C01-C03), what the driver emits (C10 / C11), buffering added inside a writer (an
unknown idiom is reported undecided, never as a finding).
"""
import re

from ..interp import Interp, Hooks, Budget
from ..state import State, Obj, IntV, PtrV, NULL, MAXLEN
from ..terms import Lin, ZERO
from . import own
from .common import short, fn_loc, robust, slot_subst, subst

LEVEL = 'other'
EXPLANATION = ('abstract interpretation of the append / append_char members of every concrete format_writer with the data pointer, '
               'size, character and count symbolic: the calls that reach the sink (fwrite, fputc, ostream::write / put, '
               'string_stream::append / append_char, the UTF conversion used for wide streams) are compared with the arguments '
               'the writer was given; entry points and stream operators by interpretation with the driver / conversions as symbols')

WRITER_RE = re.compile(r'^_ST_PRIVATE::(stdio_format_writer|string_format_writer|ostream_format_writer<([\w ]+), .*>)::(append|append_char)\((char const\*|char), unsigned long\)$')
CONV_FOR = {'wchar_t': 'utf8_to_wchar', 'char16_t': 'utf8_to_utf16', 'char32_t': 'utf8_to_utf32'}
ELT_BYTES = {'char': 1, 'wchar_t': 4, 'char16_t': 2, 'char32_t': 4, 'char8_t': 1}


class SinkHooks(Hooks):
    unroll = 0
    widen_on_entry = True
    max_depth = 8
    max_paths = 2000

    def __init__(self, m, extra=None):
        self.m = m
        self.extra = extra

    def fill_buffer(self, I, st, p, elt, tag):
        """The library buffer object at p now describes `tag`: data pointer into an object of that name, size a symbol."""
        L = own.buffer_layout(self.m, elt)
        if L is None or not isinstance(p, PtrV) or p.obj is None:
            return False
        o = st.objs.get(p.obj)
        if o is None:
            return False
        sz = 'size(%s)' % tag
        st.rng[sz] = (0, MAXLEN)
        data = Obj('ext', (Lin.atom(sz) + 1).scale(L.eb))
        data.lazy = True
        st.objs[tag] = data
        base = p.off.c if not p.off.t else 0
        o.cells[base + L.chars_off] = (8, PtrV(tag, ZERO))
        o.cells[base + L.size_off] = (8, IntV(64, Lin.atom(sz), 'u'))
        o.version += 1
        return True

    def call(self, I, st, inst, name, args):
        if name is None:
            return None
        d = self.m.dem(name)
        if self.extra is not None:
            r = self.extra(self, I, st, inst, d, args)
            if r is not None:
                return r
        if d == 'fwrite':
            st.ev('sink', 'fwrite', inst, list(args))
            return [(st, I.fresh_int(st, 64, 'fwrite'))]
        if d == 'fputc':
            st.ev('sink', 'fputc', inst, list(args))
            return [(st, I.fresh_int(st, 32, 'fputc', signed=True))]
        mt = re.match(r'^std::(?:basic_ostream<([\w ]+), .*>|ostream)::(write|put)\(', d)
        if mt:
            st.ev('sink', mt.group(2), inst, list(args), mt.group(1) or 'char')
            return [(st, args[0])]
        if d.startswith('ST::string_stream::append(char const*, unsigned long)'):
            st.ev('sink', 'ss-append', inst, list(args))
            return [(st, args[0])]
        if d.startswith('ST::string_stream::append_char(char, unsigned long)'):
            st.ev('sink', 'ss-append_char', inst, list(args))
            return [(st, args[0])]
        r = self.std_string(I, st, inst, d, args)
        if r is not None:
            return r
        mt = re.search(r'ST::(utf8_to_wchar|utf8_to_utf16|utf8_to_utf32|utf8_to_latin_1)(?:<[\w ]+>)?\(char const\*, unsigned long', d)
        if mt and len(args) >= 3:
            elt = {'utf8_to_wchar': 'wchar_t', 'utf8_to_utf16': 'char16_t', 'utf8_to_utf32': 'char32_t', 'utf8_to_latin_1': 'char'}[mt.group(1)]
            k = len([e for e in st.events if e[0] == 'conv'])
            tag = 'CONV%d' % k
            ok = self.fill_buffer(I, st, args[0], elt, tag)
            st.ev('conv', mt.group(1), inst, list(args[1:]), tag if ok else None)
            return [(st, None)]
        return None


def _std_string(self, I, st, inst, d, args):
    """A std::basic_string used as a block of fill units (a member of the writer or a local): its size and which ranges were set to
    which value *in this call* are tracked; the contents it had before the call are whatever an earlier call left."""
    mt = re.match(r'^std::__cxx11::basic_string<(char|wchar_t|char16_t|char32_t), .*?>::(size|length|resize|assign|data|c_str|clear|basic_string|~basic_string)\(([^)]*)\)', d)
    if not mt or not args or not isinstance(args[0], PtrV) or args[0].obj is None or args[0].off.t:
        return None
    op, sig = mt.group(2), mt.group(3)
    key = (args[0].obj, args[0].off.c)
    tab = dict(st.flags.get('sstr') or {})
    rec = dict(tab.get(key) or {})
    if 'size' not in rec:
        if op == 'basic_string':
            rec['size'] = ZERO
        else:
            a = 'strsize(%s+%d)' % key
            st.rng[a] = (0, MAXLEN)
            rec['size'] = Lin.atom(a)           # what an earlier call left
        rec['fills'] = ()
        rec['prev'] = rec['size']
    out = None
    if op in ('size', 'length'):
        out = [(st, IntV(64, rec['size'], 'u'))]
    elif op in ('data', 'c_str'):
        tag = 'SSTR:%s+%d' % key
        if tag not in st.objs:
            o = Obj('ext', None)
            o.lazy = True
            st.objs[tag] = o
        st.ev('sstr-data', inst, key)
        out = [(st, PtrV(tag, ZERO))]
    elif op == 'clear':
        rec['size'], rec['fills'] = ZERO, ()
        out = [(st, None)]
    elif op in ('resize', 'assign') and len(args) == 3 and isinstance(args[1], IntV):
        n = I.as_u(st, args[1])
        lo = ZERO if op == 'assign' else rec['size']
        rec['fills'] = tuple(rec['fills']) + ((lo, n, args[2]),)
        rec['size'] = n
        out = [(st, args[0] if op == 'assign' else None)]
    elif op == 'basic_string' and sig.startswith('unsigned long, ') and len(args) >= 3 and isinstance(args[1], IntV):
        n = I.as_u(st, args[1])
        rec['fills'] = ((ZERO, n, args[2]),)
        rec['size'] = n
        out = [(st, None)]
    elif op == 'basic_string' and sig == '':
        out = [(st, None)]
    elif op == '~basic_string':
        out = [(st, None)]
    if out is None:
        return None
    tab[key] = rec
    st.flags['sstr'] = tab
    return out


SinkHooks.std_string = _std_string


def writer_scene(I, st):
    w = Obj('ext', None)
    w.lazy = True
    st.objs['W'] = w
    st.rng['n'] = (0, MAXLEN)
    d = Obj('ext', Lin.atom('n'))
    d.lazy = True
    st.objs['DATA'] = d


def same_ptr(st, p, obj, off=ZERO):
    return isinstance(p, PtrV) and p.obj == obj and st.is_eq0(p.off - off) is True


def differs(st, d):
    """None if d == 0 on this path, a witness dict if a model with d != 0 exists, '?' otherwise."""
    if st.is_eq0(d) is True:
        return None
    env = st.find_model([d], lambda v: v[0] != 0) if robust([d]) else None
    if env is not None or not d.t:
        return env or {}
    return '?'


CLASS_FILL = {}


def staged_symbols(outs):
    """Symbols of the writer's own fields that index its own storage when bytes are staged there (copy / fill into the writer object at
    base + field): the count(s) of pending bytes of a buffering writer."""
    fills = set()
    for o in outs:
        for e in o.st.events:
            if e[0] in ('copy', 'fill') and isinstance(e[2], PtrV) and e[2].obj == 'W':
                from ..terms import base_atoms
                for a in base_atoms(e[2].off):
                    if isinstance(a, str) and a.startswith('W.'):
                        fills.add(a)
    return fills


def order_check(I, s2, evs, fills, direct, probs, und, what):
    """R17.5: bytes reach the sink in call order - a writer that stages bytes in its own storage hands them over (flushes) before it
    gives the bytes of a later call to the sink directly."""
    if not fills:
        return
    flushed = False
    for e in evs:
        if e[0] != 'sink':
            continue
        a = e[3]
        ptrs = [x for x in a if isinstance(x, PtrV)]
        if any(x.obj == 'W' for x in ptrs[:2]) and e[1] in ('fwrite', 'write', 'ss-append'):
            flushed = True
            continue
        if direct(e) and not flushed:
            for fa in sorted(fills):
                if s2.is_eq0(Lin.atom(fa)) is True:
                    continue
                env = s2.find_model([Lin.atom(fa)], lambda v: v[0] >= 1)
                if env is not None:
                    probs.append('%s hands bytes of this call to the sink while bytes staged by earlier calls may still be pending (%s of them): the '
                                 'sink sees them out of call order; witness %s' % (what, fa, own.fmt_env(env)))
                else:
                    und.append('%s: a direct hand-over while staged bytes may be pending (%s) - not decided' % (what, fa))
                return


# well-formed UTF-8 around a cut: (unit before the one before the cut, unit before the cut, first unit after the cut); None = any
TORN_WINDOWS = [((None, 0xC3, 0xA9), 'U+00E9 (C3|A9)'), ((0xE2, 0x82, 0xAC), 'U+20AC (E2 82|AC)'), ((0xF0, 0x9F, 0x98), 'U+1F600 (F0 9F|98 80)')]


def torn_piece(I, s2, N):
    """R17.6: a writer that transcodes its text in pieces must cut between characters.  For the conversion call of this iteration
    (pointer into the data of the call, piece length): if the path admits a well-formed text whose multi-byte character straddles
    the end of the piece while text remains behind it, the piece ends inside a character and the converted output differs from the
    conversion of the whole.  Returns the finding text with its witness, or None."""
    convs = [e for e in s2.events if e[0] == 'conv']
    if len(convs) != 1:
        return None
    cargs = convs[0][3]
    if not (isinstance(cargs[0], PtrV) and cargs[0].obj == 'DATA' and isinstance(cargs[1], IntV)):
        return None
    piece = I.as_u(s2, cargs[1])
    cut = cargs[0].off + piece
    if s2.is_ge0(cut - N) is True:
        return None                     # the piece runs to the end of the text: no cut
    for (win, label) in TORN_WINDOWS:
        s3 = s2.clone()
        if not s3.assume_ge0(N - cut - 1) or not s3.assume_ge0(cut - 3):
            continue
        terms = []
        ok = True
        for k, want in zip((-2, -1, 0), win):
            if want is None:
                continue
            v = I.load(s3, None, PtrV('DATA', cut + k), 'i8', 1)
            if not isinstance(v, IntV):
                ok = False
                break
            u = I.as_u(s3, v)
            if u is None or not s3.assume_eq0(u - want):
                ok = False
                break
            terms.append(u)
        if not ok:
            continue
        env = s3.find_model(terms + [N - cut], lambda vals: vals[-1] >= 1)
        if env is not None:
            return ('converts the text in pieces and ends a piece of %r byte(s) inside a character: a well-formed text with %s across the cut takes '
                    'this path, so the stream receives the conversion of two torn halves instead of the character; witness %s' %
                    (piece, label, own.fmt_env(env)))
    return None


def appends(run, m, F, E):
    n = 0
    for name in F.lib:
        f = m.func(name)
        mt = WRITER_RE.match(f.dem)
        if not mt or mt.group(3) != 'append':
            continue
        n += 1
        cls = mt.group(1).split('<')[0]
        elt = mt.group(2) or 'char'
        I = Interp(m, F, E, SinkHooks(m))
        st = State()
        writer_scene(I, st)
        if 1 not in E.sum[name]['writes'] and 1 not in E.sum[name]['frees']:
            st.objs['DATA'].attrs['readonly'] = True        # no store of append reaches the bytes it is handed (effect summary)
        N = Lin.atom('n')
        try:
            outs = I.run(I.start(f, [PtrV('W'), PtrV('DATA'), IntV(64, N, 'u')], st))
        except Budget as e:
            run.ob('R17.1', short(f.dem), None, 'not interpreted: %s' % e, loc=fn_loc(f))
            continue
        probs, und = [], []
        nret = 0
        fills = staged_symbols(outs)
        CLASS_FILL[mt.group(1)] = fills
        for o in outs:
            s2 = o.st
            if o.kind in ('ret', 'backedge'):
                order_check(I, s2, s2.events, fills, lambda e: any(isinstance(x, PtrV) and x.obj == 'DATA' for x in e[3]), probs, und, 'append')
            if o.kind == 'backedge':
                if elt != 'char':
                    torn = torn_piece(I, s2, N)
                    if torn:
                        probs.append(torn)
                        continue
                und.append('hands the bytes over in a loop: not one of the recognised idioms')
                continue
            if o.kind == 'throw':
                continue                # a conversion / allocation failure propagates: nothing reached the sink on this path (C18/C19)
            if o.kind != 'ret':
                if o.kind == 'abort':
                    probs.append('aborts')
                continue
            nret += 1
            sinks = [e for e in s2.events if e[0] == 'sink']
            convs = [e for e in s2.events if e[0] == 'conv']
            stores = [e for e in s2.events if e[0] == 'store-this']
            if len(sinks) != 1:
                if not sinks and s2.is_eq0(N) is True:
                    continue
                und.append('%d sink calls on a returning path: not one of the recognised idioms (a staging buffer, chunked output, ...)' % len(sinks))
                continue
            kind, inst, a = sinks[0][1], sinks[0][2], sinks[0][3]
            if cls == 'stdio_format_writer':
                if kind != 'fwrite' or len(a) != 4:
                    und.append('FILE* writer hands its bytes to %s: not a recognised idiom' % kind)
                    continue
                if not (isinstance(a[0], PtrV) and a[0].obj == 'DATA'):
                    und.append('fwrite is given %r, not the data of the call: a staging buffer or another idiom, not analysed' % (a[0],))
                    continue
                if not same_ptr(s2, a[0], 'DATA'):
                    probs.append('fwrite starts at %r, not at the data pointer of the call' % (a[0],))
                esz, cnt = (I.as_u(s2, a[1]) if isinstance(a[1], IntV) else None), (I.as_u(s2, a[2]) if isinstance(a[2], IntV) else None)
                if esz is None or cnt is None:
                    und.append('fwrite sizes not tracked')
                else:
                    one = [x for x in (esz, cnt) if not x.t and x.c == 1]
                    other = cnt if (not esz.t and esz.c == 1) else esz
                    if not one:
                        und.append('fwrite(size=%r, count=%r): neither is 1' % (esz, cnt))
                    else:
                        w = differs(s2, other - N)
                        if w == '?':
                            und.append('fwrite length %r not decided equal to the size of the call' % (other,))
                        elif w is not None:
                            probs.append('fwrite is given %r byte(s) where the call handed over `size`%s' % (other, '; witness ' + own.fmt_env(w) if w else ''))
            elif cls == 'string_format_writer':
                if kind != 'ss-append':
                    und.append('string writer hands its bytes to %s: not a recognised idiom' % kind)
                    continue
                if not (isinstance(a[0], PtrV) and a[0].obj == 'W'):
                    probs.append('appends to a stream that is not the writer\'s own')
                if not (isinstance(a[1], PtrV) and a[1].obj == 'DATA'):
                    und.append('string_stream::append is given %r, not the data of the call: another idiom, not analysed' % (a[1],))
                    continue
                if not same_ptr(s2, a[1], 'DATA'):
                    probs.append('string_stream::append starts at %r, not at the data pointer of the call' % (a[1],))
                w = differs(s2, I.as_u(s2, a[2]) - N) if isinstance(a[2], IntV) else '?'
                if w == '?':
                    und.append('appended length not decided equal to the size of the call')
                elif w is not None:
                    probs.append('string_stream::append is given %r byte(s) where the call handed over `size`%s' % (a[2], '; witness ' + own.fmt_env(w) if w else ''))
            else:
                if kind != 'write':
                    und.append('stream writer hands its bytes to %s: not a recognised idiom' % kind)
                    continue
                if elt == 'char':
                    if convs:
                        und.append('a narrow stream is written through a conversion (%s): not a recognised idiom' % convs[0][1])
                        continue
                    if not (isinstance(a[1], PtrV) and a[1].obj == 'DATA'):
                        und.append('ostream::write is given %r, not the data of the call: another idiom, not analysed' % (a[1],))
                        continue
                    if not same_ptr(s2, a[1], 'DATA'):
                        probs.append('ostream::write starts at %r, not at the data pointer of the call' % (a[1],))
                    w = differs(s2, I.as_u(s2, a[2]) - N) if isinstance(a[2], IntV) and I.as_u(s2, a[2]) is not None else '?'
                    if w == '?':
                        und.append('written length not decided equal to the size of the call')
                    elif w is not None:
                        probs.append('ostream::write is given %r unit(s) where the call handed over `size`%s' % (a[2], '; witness ' + own.fmt_env(w) if w else ''))
                else:
                    if len(convs) != 1:
                        und.append('%d conversions before the write to a %s stream: not a recognised idiom' % (len(convs), elt))
                        continue
                    cname, cinst, cargs, tag = convs[0][1], convs[0][2], convs[0][3], convs[0][4]
                    same_enc = cname == CONV_FOR[elt] or (ELT_BYTES.get(elt) == 4 and cname in ('utf8_to_utf32', 'utf8_to_wchar'))
                    if not same_enc:
                        probs.append('a %s stream is fed from ST::%s, its encoding is produced by ST::%s' % (elt, cname, CONV_FOR[elt]))
                        continue
                    if not same_ptr(s2, cargs[0], 'DATA'):
                        probs.append('the conversion is given %r, not the data pointer of the call' % (cargs[0],))
                    w = differs(s2, I.as_u(s2, cargs[1]) - N) if isinstance(cargs[1], IntV) else '?'
                    if w == '?':
                        und.append('converted length not decided equal to the size of the call')
                    elif w is not None:
                        probs.append('the conversion is given %r byte(s) where the call handed over `size`' % (cargs[1],))
                    if tag is None:
                        und.append('conversion result not tracked')
                        continue
                    if not same_ptr(s2, a[1], tag):
                        (probs if isinstance(a[1], PtrV) and a[1].obj == tag else und).append('the stream is not written from the start of the converted buffer (%r)' % (a[1],))
                    w = differs(s2, I.as_u(s2, a[2]) - Lin.atom('size(%s)' % tag)) if isinstance(a[2], IntV) and I.as_u(s2, a[2]) is not None else '?'
                    if w == '?':
                        und.append('written length not decided equal to the size of the converted buffer')
                    elif w is not None:
                        probs.append('%r unit(s) of the converted buffer are written, it holds size() units' % (a[2],))
        if nret == 0:
            und.append('no returning path explored')
        run.ob('R17.1', short(f.dem), False if probs else (None if und else True), probs[0] if probs else (und[0] if und else
               'exactly [data, data+size) handed to the sink in one call' + ('' if elt == 'char' else ', through ST::%s' % CONV_FOR[elt])), loc=fn_loc(f))
    return n


def append_chars(run, m, F, E):
    n = 0
    for name in F.lib:
        f = m.func(name)
        mt = WRITER_RE.match(f.dem)
        if not mt or mt.group(3) != 'append_char':
            continue
        n += 1
        cls = mt.group(1).split('<')[0]
        elt = mt.group(2) or 'char'
        I = Interp(m, F, E, SinkHooks(m))
        st = State()
        writer_scene(I, st)
        ch = I.fresh_int(st, 8, 'ch')
        cnt = I.fresh_int(st, 64, 'count')
        C = cnt.lin
        try:
            outs = I.run(I.start(f, [PtrV('W'), ch, cnt], st))
        except Budget as e:
            run.ob('R17.2', short(f.dem), None, 'not interpreted: %s' % e, loc=fn_loc(f))
            continue
        probs, und = [], []
        from ..terms import base_atoms
        cha = list(base_atoms(ch.lin))

        def is_ch(s2, v):
            return isinstance(v, IntV) and set(base_atoms(v.lin)) == set(cha)
        nb = nr = 0
        fills = set(CLASS_FILL.get(mt.group(1), set())) | staged_symbols(outs)
        for o in outs:
            s2 = o.st
            if o.kind in ('ret', 'backedge'):
                order_check(I, s2, s2.events, fills, lambda e: e[1] in ('fputc', 'put'), probs, und, 'append_char')
            sinks_all = [e for e in s2.events if e[0] == 'sink']
            if cls == 'string_format_writer':
                if o.kind != 'ret':
                    continue
                nr += 1
                if len(sinks_all) != 1 or sinks_all[0][1] != 'ss-append_char':
                    und.append('not forwarded to string_stream::append_char')
                    continue
                a = sinks_all[0][3]
                if not is_ch(s2, a[1]):
                    probs.append('forwards the character %r, not ch' % (a[1],))
                w = differs(s2, I.as_u(s2, a[2]) - C) if isinstance(a[2], IntV) else '?'
                if w == '?':
                    und.append('forwarded count not decided')
                elif w is not None:
                    probs.append('forwards the count %r, not count' % (a[2],))
                continue
            hk = [k for k in s2.flags if isinstance(k, str) and k.startswith('hbegin:' + f.name + ':')]
            wi = max([k for k, e in enumerate(s2.events) if e[0] == 'widen' and e[1] == f.name] or [-1])
            sinks = [e for e in s2.events[wi + 1:] if e[0] == 'sink']
            if o.kind == 'backedge':
                nb += 1
                want = 'fputc' if cls == 'stdio_format_writer' else 'put'
                if len(sinks) != 1 or sinks[0][1] != want:
                    und.append('an iteration makes %d sink calls (%s): not the one-unit-per-iteration idiom' % (len(sinks), ','.join(e[1] for e in sinks)))
                    continue
                a = sinks[0][3]
                unit = a[0] if want == 'fputc' else a[1]
                if not is_ch(s2, unit):
                    probs.append('an iteration emits %r, not the character of the call' % (unit,))
                # the budget: some carried integer M with M == count on entry, M >= 1 when emitting, M - 1 afterwards
                b = s2.flags.get(hk[-1]) if hk else {}
                e2 = s2.flags.get('hend:' + hk[-1][7:]) if hk else {}
                en = s2.flags.get('hentry:' + hk[-1][7:]) if hk else {}
                ok = moved = False
                for nm, bv in (b or {}).items():
                    ev = (e2 or {}).get(nm)
                    if not (isinstance(bv, IntV) and isinstance(ev, IntV) and bv.bits == 64):
                        continue
                    b0, e0 = I.as_u(s2, bv), I.as_u(s2, ev)
                    if b0 is None or e0 is None:
                        continue
                    if s2.is_eq0(e0 - b0) is not True:
                        moved = True
                    env0 = (en or {}).get(nm)
                    en0 = I.as_u(s2, env0) if isinstance(env0, IntV) else None
                    if s2.is_eq0(b0 - e0 - 1) is True:
                        M, M0 = b0, en0
                    elif s2.is_eq0(e0 - b0 - 1) is True:
                        M, M0 = C - b0, (C - en0) if en0 is not None else None
                    else:
                        continue
                    if M0 is not None and s2.is_eq0(M0 - C) is True and s2.is_ge0(M - 1) is True:
                        ok = True
                if not ok:
                    (und if moved else probs).append('no carried integer recognised as the remaining count (count on entry, one less per unit, positive when emitting)'
                                                     if moved else 'nothing counts the units emitted: the loop cannot stop after count of them')
            elif o.kind == 'ret':
                nr += 1
                if wi < 0 and sinks_all and s2.is_eq0(C) is not True:
                    # a run written in one piece from a block of fill units (a std::basic_string): the units handed over must have
                    # been set to ch in this call - a block kept between calls holds what an earlier call put there
                    blk = [e for e in sinks_all if e[1] == 'write' and len(e[3]) >= 3 and isinstance(e[3][1], PtrV) and str(e[3][1].obj).startswith('SSTR:')]
                    one = [e for e in sinks_all if e[1] in ('put', 'fputc')]
                    if len(blk) == 1 and len(sinks_all) == 1 and isinstance(blk[0][3][2], IntV):
                        a = blk[0][3]
                        ln = I.as_u(s2, a[2])
                        key9 = tuple(str(a[1].obj)[5:].rsplit('+', 1))
                        rec = (s2.flags.get('sstr') or {}).get((key9[0], int(key9[1]))) or {}
                        w9 = differs(s2, ln - C)
                        if w9 == '?' or s2.is_eq0(a[1].off) is not True:
                            und.append('a block write whose start / length is not decided to be the whole run')
                        elif w9 is not None:
                            probs.append('writes %r units of the fill block where the call asked for count%s' % (ln, '; witness ' + own.fmt_env(w9) if w9 else ''))
                        else:
                            full = [fl for fl in rec.get('fills', ()) if is_ch(s2, fl[2]) and s2.is_eq0(fl[0]) is True and s2.is_ge0(fl[1] - ln) is True]
                            if full:
                                nb += 1             # counts as the emitting form of this writer
                            else:
                                # the first unit not set in this call: position 0 when the block was not empty before
                                prev = rec.get('prev')
                                stale_from = [fl for fl in rec.get('fills', ()) if is_ch(s2, fl[2])]
                                env = None
                                if prev is not None and prev.t:
                                    env = s2.find_model([prev, ln], lambda v: v[0] >= 1 and v[1] >= 1)
                                if env is not None:
                                    probs.append('writes count units of a fill block that is kept between calls, of which only the units from its previous '
                                                 'size on %s set to ch in this call: the units below keep the fill character of an earlier call; witness %s' %
                                                 ('were' if stale_from else 'would have been', own.fmt_env(env)))
                                else:
                                    und.append('a block write from a string whose contents are not decided to be count copies of ch')
                    elif len(one) == 1 and len(sinks_all) == 1 and s2.is_eq0(C - 1) is True:
                        a = one[0][3]
                        unit = a[0] if one[0][1] == 'fputc' else a[1]
                        if not is_ch(s2, unit):
                            probs.append('emits %r for a run of one, not the character of the call' % (unit,))
                    else:
                        und.append('emits without a loop: not the one-unit-per-iteration idiom')
        if cls != 'string_format_writer' and nb == 0:
            und.append('no emitting iteration explored')
        if nr == 0:
            und.append('no returning path explored')
        run.ob('R17.2', short(f.dem), False if probs else (None if und else True), probs[0] if probs else (und[0] if und else
               ('forwarded whole to string_stream::append_char' if cls == 'string_format_writer' else 'one unit (ch) per iteration, count iterations')), loc=fn_loc(f))
    return n


ENTRY_RE = re.compile(r'^(ST::string ST::format(_latin_1)?<|void ST::(printf|writef)<|ST::string _ST_PRIVATE::udl_formatter::operator\(\)<)')
WCLS = re.compile(r'^(_ST_PRIVATE::\w*format_writer(?:<.*>)?)::\w*format_writer\(')


def entries(run, m, F, E):
    n = 0
    modes = m.enums.get('ST::utf_validation_t') or {}
    for name in F.lib:
        f = m.func(name)
        if not ENTRY_RE.match(f.dem):
            continue
        n += 1
        reach = F.reachable_from([name])
        wc = sorted(set(WCLS.match(m.dem(t)).group(1) for t in reach if WCLS.match(m.dem(t))))
        drv = [t for t in reach if m.dem(t).startswith('void ST::apply_format<') or m.dem(t).startswith('ST::apply_format(')]
        probs, und = [], []
        if len(wc) != 1:
            und.append('constructs %d writer classes (%s)' % (len(wc), ', '.join(wc) or 'none'))
        if not drv:
            und.append('does not reach ST::apply_format: a separate driver, not analysed')
        if f.dem.startswith('ST::string '):
            fin = [t for t in reach if m.dem(t).startswith('_ST_PRIVATE::string_format_writer::to_string(') or m.dem(t).startswith('ST::string_stream::to_string(')]
            if not fin:
                und.append('the string is not produced by to_string() of the accumulated bytes')
        run.ob('R17.3', short(f.dem, 100), False if probs else (None if und else True), probs[0] if probs else (und[0] if und else
               'one %s, driven by apply_format' % (wc[0].split('::')[-1] if wc else 'writer')), loc=fn_loc(f))
    # to_string arguments of the three string front ends (no-argument instantiations, interpreted with the driver as a symbol)
    for dem_re, want in ((r'^ST::string ST::format<>\(char const\*\)$', ('true', 'default')),
                         (r'^ST::string ST::format<>\(ST::utf_validation_t, char const\*\)$', ('true', 'param')),
                         (r'^ST::string ST::format_latin_1<>\(char const\*\)$', ('false', 'assume_valid'))):
        fs = [m.func(x) for x in F.lib if re.match(dem_re, m.func(x).dem)]
        if not fs:
            continue
        f = fs[0]
        n += 1

        def extra(h, I, st, inst, d, args):
            if d.startswith('_ST_PRIVATE::string_format_writer::to_string(') or d.startswith('ST::string_stream::to_string('):
                st.ev('to_string', inst, list(args))
                return [(st, None)]
            if d.startswith('void ST::apply_format<') or d.startswith('ST::apply_format('):
                st.ev('drive', inst, list(args))
                return [(st, None)]
            if d.startswith('ST::format_writer::format_writer(') or WCLS.match(d):
                if d.startswith('ST::format_writer::format_writer('):
                    st.ev('ctor', inst, list(args))
                    return [(st, None)]
            return None
        I = Interp(m, F, E, SinkHooks(m, extra))
        st = State()
        fo = Obj('ext', None)
        fo.lazy = True
        st.objs['FMT'] = fo
        L = own.buffer_layout(m, 'char')
        ret = own.make_buffer(I, st, L, 'ret', 'undef')
        args = [PtrV(ret)]
        mode_arg = None
        if want[1] == 'param':
            mode_arg = I.fresh_int(st, 32, 'validation', lo=min(modes.values()) if modes else 0, hi=max(modes.values()) if modes else 2)
            args.append(mode_arg)
        args.append(PtrV('FMT'))
        probs, und = [], []
        try:
            outs = I.run(I.start(f, args, st))
        except Exception as e:
            outs = []
            und.append('not interpreted: %s' % (str(e)[:80],))
        nret = 0
        for o in outs:
            if o.kind != 'ret':
                continue
            nret += 1
            s2 = o.st
            ts = [e for e in s2.events if e[0] == 'to_string']
            dr = [e for e in s2.events if e[0] == 'drive']
            ct = [e for e in s2.events if e[0] == 'ctor']
            if len(ts) != 1 or len(dr) != 1:
                und.append('%d driver runs / %d to_string calls on a returning path' % (len(dr), len(ts)))
                continue
            if ct and not same_ptr(s2, ct[0][2][1], 'FMT'):
                probs.append('the writer is constructed over %r, not the format string of the call' % (ct[0][2][1],))
            a = ts[0][2]
            # (sret, this, utf8_encoded, validation)
            flag = a[-2] if len(a) >= 2 else None
            mode = a[-1] if a else None
            fv = (flag.lin.c if isinstance(flag, IntV) and not flag.lin.t else None)
            if fv is None:
                und.append('utf8_encoded flag of to_string not a constant')
            elif bool(fv) != (want[0] == 'true'):
                probs.append('to_string is told utf8_encoded=%s, expected %s' % (bool(fv), want[0]))
            if want[1] == 'param':
                if not (isinstance(mode, IntV) and mode_arg is not None and s2.is_eq0(mode.lin - mode_arg.lin) is True):
                    probs.append('to_string is given %r, not the validation mode of the call' % (mode,))
            elif want[1] == 'assume_valid':
                mv = mode.lin.c if isinstance(mode, IntV) and not mode.lin.t else None
                av = [v for k, v in modes.items() if k.endswith('assume_valid')]
                if mv is None or not av:
                    und.append('validation mode of to_string not a constant')
                elif mv != av[0]:
                    probs.append('format_latin_1 validates its output (mode %d), the bytes are Latin-1, not UTF-8' % mv)
            else:
                mv = mode.lin.c if isinstance(mode, IntV) and not mode.lin.t else None
                if mv is None:
                    und.append('validation mode of to_string not a constant')
        if nret == 0 and not und:
            und.append('no returning path explored')
        run.ob('R17.3', short(f.dem, 100), False if probs else (None if und else True), probs[0] if probs else (und[0] if und else
               'writer over the format string, apply_format, to_string(%s, %s)' % want), disc='to_string', loc=fn_loc(f))
    return n


def stream_ops(run, m, F, E):
    n = 0
    for name in F.lib:
        f = m.func(name)
        mo = re.match(r'^std::basic_ostream<([\w ]+), .*>& operator<<<.*>\(std::basic_ostream<.*>&, ST::string const&\)$', f.dem)
        mi = re.match(r'^std::basic_istream<([\w ]+), .*>& operator>><.*>\(std::basic_istream<.*>&, ST::string&\)$', f.dem)
        if not (mo or mi):
            continue
        n += 1
        elt = (mo or mi).group(1)
        probs, und = [], []

        def extra(h, I, st, inst, d, args):
            if d.startswith('ST::string::to_buffer(ST::buffer<'):
                ok = h.fill_buffer(I, st, args[1], elt, 'TOBUF')
                st.ev('to_buffer', inst, list(args), ok)
                return [(st, None)]
            if re.match(r'^std::__cxx11::basic_string<.*>::basic_string\((?:char|wchar_t|char16_t|char32_t) const\*, unsigned long, std::allocator<.*> const&\)', d):
                st.ev('mkstr', inst, list(args))
                return [(st, None)]
            if re.match(r'^std::__cxx11::basic_string<.*>::(~basic_string|basic_string)\(\)', d) or d.startswith('std::allocator<'):
                if '::basic_string()' in d:
                    st.ev('tokfresh', inst, list(args))
                return [(st, None)]
            if re.match(r'^std::__cxx11::basic_string<.*>::clear\(\)', d):
                st.ev('tokfresh', inst, list(args))
                return [(st, None)]
            if re.match(r'^std::basic_ostream<.*>& std::operator<<<', d):
                st.ev('insert', inst, list(args))
                return [(st, args[0])]
            if re.match(r'^std::basic_istream<.*>& std::operator>><', d):
                st.ev('extract', inst, list(args))
                return [(st, args[0])]
            if re.match(r'^std::__cxx11::basic_string<.*>::c_str\(\) const', d):
                st.ev('c_str', inst, list(args))
                if 'TOKEN' not in st.objs:
                    st.rng['toklen'] = (0, MAXLEN)
                    t = Obj('ext', (Lin.atom('toklen') + 1).scale(ELT_BYTES.get(elt, 1)))
                    t.lazy = True
                    st.objs['TOKEN'] = t
                return [(st, PtrV('TOKEN', ZERO))]
            if re.match(r'^std::__cxx11::basic_string<.*>::size\(\) const', d):
                st.rng.setdefault('toklen', (0, MAXLEN))
                st.ev('size', inst, list(args))
                return [(st, IntV(64, Lin.atom('toklen'), 'u'))]
            if re.match(r'^ST::string::set\((?:char|wchar_t|char16_t|char32_t) const\*, unsigned long, ST::utf_validation_t\)', d):
                st.ev('set', inst, list(args))
                return [(st, None)]
            if mi and d.startswith('ST::string::') and args and isinstance(args[0], PtrV) and args[0].obj == s_obj and \
                    not d.rstrip().endswith('const') and not d.startswith('ST::string::~'):
                # any other non-const member applied to the string being extracted into
                st.ev('mutate', inst, d.split('(')[0])
                return [(st, None)]
            return None
        I = Interp(m, F, E, SinkHooks(m, extra))
        st = State()
        so = Obj('ext', None)
        so.lazy = True
        st.objs['STREAM'] = so
        L = own.buffer_layout(m, 'char')
        s_obj = own.make_buffer(I, st, L, 'str', 'large')
        try:
            outs = I.run(I.start(f, [PtrV('STREAM'), PtrV(s_obj)], st))
        except Exception as e:
            outs = []
            und.append('not interpreted: %s' % (str(e)[:80],))
        nret = 0
        for o in outs:
            if o.kind != 'ret':
                continue
            nret += 1
            s2 = o.st
            ev = lambda k: [e for e in s2.events if e[0] == k]
            if mo:
                tb, mk, ins = ev('to_buffer'), ev('mkstr'), ev('insert')
                if len(tb) != 1 or len(mk) != 1 or len(ins) != 1 or not tb[0][3]:
                    und.append('not of the form to_buffer / basic_string(data, size) / stream << (%d/%d/%d)' % (len(tb), len(mk), len(ins)))
                    continue
                if not (isinstance(tb[0][2][0], PtrV) and tb[0][2][0].obj == s_obj):
                    probs.append('to_buffer is called on %r, not on the string being inserted' % (tb[0][2][0],))
                a = mk[0][2]
                if not same_ptr(s2, a[1], 'TOBUF'):
                    (probs if isinstance(a[1], PtrV) and a[1].obj == 'TOBUF' else und).append('the inserted text does not start at the converted buffer\'s data() (%r)' % (a[1],))
                w = differs(s2, I.as_u(s2, a[2]) - Lin.atom('size(TOBUF)')) if isinstance(a[2], IntV) and I.as_u(s2, a[2]) is not None else '?'
                if w == '?':
                    und.append('inserted length not decided equal to the converted buffer\'s size()')
                elif w is not None:
                    probs.append('%r unit(s) are inserted, the converted buffer holds size() units' % (a[2],))
                if not (isinstance(ins[0][2][0], PtrV) and ins[0][2][0].obj == 'STREAM'):
                    probs.append('inserted into %r, not the stream of the call' % (ins[0][2][0],))
                elif not (isinstance(ins[0][2][1], PtrV) and isinstance(a[0], PtrV) and ins[0][2][1].obj == a[0].obj):
                    und.append('the basic_string inserted is not the one built from the buffer')
            else:
                ex, se = ev('extract'), ev('set')
                sidx = max([k for k, e in enumerate(s2.events) if e[0] == 'set'] or [-1])
                mu = [e for e in s2.events[sidx + 1:] if e[0] == 'mutate'] if sidx >= 0 else []
                if mu:
                    probs.append('after storing the token the string is changed again by %s (line %d): what the caller gets is no longer the token a '
                                 'basic_string extraction yields' % (mu[0][2], mu[0][1].line))
                    continue
                if len(ex) != 1 or len(se) != 1:
                    und.append('not of the form stream >> basic_string / set(c_str(), size()) (%d/%d)' % (len(ex), len(se)))
                    continue
                a = se[0][2]
                if not (isinstance(a[0], PtrV) and a[0].obj == s_obj):
                    probs.append('set() is called on %r, not on the string being extracted into' % (a[0],))
                if not same_ptr(s2, a[1], 'TOKEN'):
                    (probs if isinstance(a[1], PtrV) and a[1].obj == 'TOKEN' else und).append('the string is set from %r, not from the token\'s c_str()' % (a[1],))
                w = differs(s2, I.as_u(s2, a[2]) - Lin.atom('toklen')) if isinstance(a[2], IntV) and I.as_u(s2, a[2]) is not None else '?'
                if w == '?':
                    und.append('length given to set() not decided equal to the token\'s size()')
                elif w is not None:
                    probs.append('set() is given %r unit(s), the token holds size() units' % (a[2],))
                cs, sz = ev('c_str'), ev('size')
                tok = ex[0][2][1]
                # the token is what *this* extraction read: a basic_string that is empty when the extraction starts (constructed or
                # cleared in this call).  libstdc++ leaves the string untouched when the sentry fails (empty, exhausted or failed
                # stream), so one that outlives the call hands the previous call's token to set().
                before = s2.events[:s2.events.index(ex[0])]
                if isinstance(tok, PtrV) and not [e for e in before if e[0] == 'tokfresh' and isinstance(e[2][0], PtrV) and e[2][0].obj == tok.obj]:
                    ko = s2.objs.get(tok.obj)
                    if ko is not None and ko.kind == 'global':
                        probs.append('extracts into %s, an object that outlives the call, on a path that neither constructs nor clears it: when the '
                                     'stream yields no token (empty, exhausted or failed stream) the string is set to the token of an earlier '
                                     'extraction instead of the empty token a basic_string extraction leaves' % (str(tok.obj)[:60],))
                    else:
                        und.append('the basic_string extracted into is not seen to be empty when the extraction starts')
                for e in cs + sz:
                    if not (isinstance(e[2][0], PtrV) and isinstance(tok, PtrV) and e[2][0].obj == tok.obj):
                        und.append('c_str() / size() are not taken from the basic_string that was extracted into')
        if nret == 0 and not und:
            und.append('no returning path explored')
        run.ob('R17.4', short(f.dem, 100), False if probs else (None if und else True), probs[0] if probs else (und[0] if und else
               ('inserts basic_string(b.data(), b.size()) of to_buffer(b)' if mo else 'set(token.c_str(), token.size(), default validation)')), loc=fn_loc(f))
    return n


CSTR_SINKS = set('fputs puts fprintf printf vfprintf vprintf dprintf fputws fwprintf wprintf sprintf snprintf strlen strcpy strcat strdup'.split())


def counted_chunks(run, m, F):
    """R17.8: append(data, size) is a counted chunk - the driver hands over literal text and argument bytes with their length, NULs
    included.  No writer passes the data pointer of the call to something that takes a NUL-terminated string (fputs, a printf-family
    call - "%.*s" stops at the first NUL as well -, strlen, or a library function that measures the parameter): the sink would get the
    bytes up to the first NUL only, while the other sinks get all of them.  Expected count: zero; witness: the chunk {x, 0, y}."""
    from .common import cstring_params, measured_at_call, pointer_roots
    cs = cstring_params(m, F)
    n = 0
    for name in F.lib:
        f = m.func(name)
        mt = WRITER_RE.match(f.dem)
        if not mt or mt.group(3) != 'append':
            continue
        n += 1
        bad = []
        # the member itself and the library helpers it hands the pointer on to
        work, seen = [(f, 1)], set()
        while work:
            g, pi = work.pop()
            if (g.name, pi) in seen:
                continue
            seen.add((g.name, pi))
            for (i, ts, k) in F.calls.get(g.name, ()):
                for t in ts:
                    for ai, a in enumerate(i.a):
                        if not (isinstance(a, list) and a and a[0] == 'v'):
                            continue
                        if ('param', pi) not in pointer_roots(m, g, a):
                            continue
                        base = t.split('@')[0]
                        if base in CSTR_SINKS or (t in cs and ai in cs[t] and measured_at_call(m, t, ai, i)):
                            bad.append('hands the data pointer of the call to %s (line %d), which reads a NUL-terminated string: a chunk with an embedded NUL - '
                                       'e.g. {x, 0, y}, size 3 - reaches this sink cut at the NUL while the other sinks receive all of it' %
                                       (m.dem(t).split('(')[0][:60], i.line))
                        elif m.has(t) and m.is_lib(m.func(t)) and ai < m.func(t).nargs and m.func(t).params[ai]['ty'].endswith('*'):
                            work.append((m.func(t), ai))
        run.ob('R17.8', short(f.dem), not bad, bad[0] if bad else 'the data pointer goes to counted hand-overs only', loc=fn_loc(f), disc='counted chunk')
    # append_char(ch, count) is a run of `count` units of ch, and ch can be 0 ({c} of the value 0): a run that the member builds in a
    # buffer of its own and hands to a sink that takes nothing but a NUL-terminated string (fputs, puts, fputws) arrives empty for
    # ch == 0, while the other sinks receive `count` NULs.  A literal handed to such a sink is not a run built from ch.  Expected: zero.
    for name in F.lib:
        f = m.func(name)
        mt = WRITER_RE.match(f.dem)
        if not mt or mt.group(3) != 'append_char':
            continue
        n += 1
        bad, und = [], []
        for (i, ts, k) in F.calls.get(f.name, ()):
            for t in ts:
                if t.split('@')[0] not in ('fputs', 'puts', 'fputws', 'fputs_unlocked') or not i.a:
                    continue
                a = i.a[0]
                roots = pointer_roots(m, f, a) if isinstance(a, list) and a and a[0] == 'v' else set([('const',)])
                if ('other', 'alloca') in roots:
                    bad.append('emits the run through %s (line %d) from a buffer of its own: the sink reads a NUL-terminated string, so a run of NUL '
                               'characters - append_char(0, count), what {c} of the value 0 asks for - arrives empty while the other sinks receive '
                               'count units' % (t.split('@')[0], i.line))
                elif roots != set([('const',)]):
                    und.append('hands %s a string whose origin is not decided (line %d)' % (t.split('@')[0], i.line))
        run.ob('R17.8', short(f.dem), False if bad else (None if und else True), bad[0] if bad else (und[0] if und else
               'no run built from the character goes to a sink that takes only a NUL-terminated string'), loc=fn_loc(f), disc='run of a character')
    return n


def direct_form(I, st, ev, utf8, mode):
    """The result is what string_stream::to_string(utf8, mode) computes, spelled out: from_latin_1(raw, size) when utf8 is false,
    from_utf8(raw, size, mode) when it is true, over the stream's raw_buffer() and size()."""
    name, args = ev[2], ev[3]
    ptrs = [a for a in args if isinstance(a, PtrV) and a.obj is not None and str(a.obj).startswith('raw')]
    sizes = [a for a in args if isinstance(a, IntV) and any(str(x).startswith('sssize') for x in a.lin.atoms())]
    if len(ptrs) != 1 or len(sizes) != 1 or st.is_eq0(ptrs[0].off) is not True:
        return False
    if not utf8:
        return name.endswith('from_latin_1')
    if not name.endswith('from_utf8'):
        return False
    return any(isinstance(a, IntV) and a.bits == 32 and st.is_eq0(I.as_u(st, a) - mode) is True for a in args)


def writer_result(run, m, F, E):
    """R17.7: what ST::format / format_latin_1 return is to_string(utf8, validation) of the bytes the writer accumulated.  The string
    writer is taken through two-step histories - constructor, then append_char(ch, count) with ch >= 0x80, or append(data, 1) with
    data[0] >= 0x80 - and its to_string(false, assume_valid) / to_string(true, check_validity) interpreted in the resulting state of
    the writer's own fields: every returning path must hand exactly those arguments to string_stream::to_string of its stream.  A
    path that returns something else (a shortcut guarded by a field the history left stale) returns the raw bytes: Latin-1 text is not
    transcoded, UTF-8 not validated."""
    def fn(prefix):
        for name in F.lib:
            if m.func(name).dem.startswith(prefix):
                return m.func(name)
        return None
    ctor = fn('_ST_PRIVATE::string_format_writer::string_format_writer(char const*)')
    apc = fn('_ST_PRIVATE::string_format_writer::append_char(char, unsigned long)')
    app = fn('_ST_PRIVATE::string_format_writer::append(char const*, unsigned long)')
    tos = fn('_ST_PRIVATE::string_format_writer::to_string(bool, ST::utf_validation_t)')
    if not (ctor and apc and app and tos):
        run.ob('R17.7', 'string_format_writer', None, 'constructor / append / append_char / to_string of the string writer not all found', loc='')
        return 0

    def extra(h, I, st, inst, d, args):
        if d.startswith('ST::string_stream::to_string(bool, ST::utf_validation_t)'):
            st.ev('ss-to_string', inst, list(args))
            return [(st, None)]
        if d.startswith('ST::string::from_validated(') or re.match(r'^ST::string::string\(', d) or d.startswith('ST::string::from_utf8(') or d.startswith('ST::string::from_latin_1('):
            st.ev('other-result', inst, d.split('(')[0], list(args))
            return [(st, None)]
        if d.startswith('ST::format_writer::format_writer(') or d.startswith('ST::string_stream::string_stream('):
            return [(st, None)]
        if d.startswith('ST::string_stream::raw_buffer(') or d.startswith('ST::string_stream::size('):
            return [(st, I.fresh_ptr(st, 'raw') if 'raw_buffer' in d else I.fresh_int(st, 64, 'sssize'))]
        return None
    n = 0
    for hist in ('append_char', 'append'):
        for (utf8, val, label) in ((0, 'assume_valid', 'to_string(false, assume_valid)'), (1, 'check_validity', 'to_string(true, check_validity)')):
            n += 1
            modes = m.enums.get('ST::utf_validation_t') or {}
            if val not in modes:
                run.ob('R17.7', label, None, 'enumerator %s not found' % val, disc=hist, loc=fn_loc(tos))
                continue
            I = Interp(m, F, E, SinkHooks(m, extra))
            st = State()
            w = Obj('ext', None)
            w.lazy = True
            st.objs['W'] = w
            fm = Obj('ext', None)
            fm.lazy = True
            st.objs['FMT'] = fm
            probs, und, nret = [], [], 0
            try:
                states = [o.st for o in I.run(I.start(ctor, [PtrV('W'), PtrV('FMT')], st)) if o.kind == 'ret']
                nxt = []
                for s1 in states:
                    s1.frames, s1.events = [], []
                    if hist == 'append_char':
                        ch = I.fresh_int(s1, 8, 'ch', lo=0x80, hi=0xFF)
                        cnt = I.fresh_int(s1, 64, 'count', lo=1, hi=MAXLEN)
                        outs = I.run(I.start(apc, [PtrV('W'), ch, cnt], s1))
                    else:
                        d = Obj('ext', Lin.const(1))
                        d.lazy = True
                        s1.objs['DATA1'] = d
                        b0 = I.load(s1, None, PtrV('DATA1'), 'i8', 1)
                        if isinstance(b0, IntV):
                            s1.assume_ge0(I.as_u(s1, b0) - 0x80)
                        outs = I.run(I.start(app, [PtrV('W'), PtrV('DATA1'), IntV(64, Lin.const(1), 'u')], s1))
                    nxt += [o.st for o in outs if o.kind == 'ret' and not any(e[0] == 'widen' for e in o.st.events)]
                    if any(o.kind == 'ret' and any(e[0] == 'widen' for e in o.st.events) for o in outs):
                        und.append('%s abstracts a loop: the state it leaves is not exact' % hist)
                for s2 in nxt:
                    s2.frames, s2.events = [], []
                    r = Obj('ext', None)
                    r.lazy = True
                    s2.objs['RESULT'] = r
                    outs = I.run(I.start(tos, [PtrV('RESULT'), PtrV('W'), IntV(1, Lin.const(utf8), 'u'), IntV(32, Lin.const(modes[val]), 'u')], s2))
                    for o in outs:
                        if o.kind != 'ret':
                            continue
                        nret += 1
                        ev = [e for e in o.st.events if e[0] == 'ss-to_string']
                        oth = [e for e in o.st.events if e[0] == 'other-result']
                        if len(ev) == 1 and not oth:
                            a = ev[0][2]
                            okargs = len(a) >= 4 and isinstance(a[2], IntV) and o.st.is_eq0(I.as_u(o.st, a[2]) - utf8) is True and \
                                isinstance(a[3], IntV) and o.st.is_eq0(I.as_u(o.st, a[3]) - modes[val]) is True
                            if not okargs:
                                probs.append('%s hands string_stream::to_string other arguments than it was given' % label)
                        elif oth and not ev and len(oth) == 1 and direct_form(I, o.st, oth[0], utf8, modes[val]):
                            pass        # to_string of the stream written out: from_latin_1 / from_utf8 of (raw_buffer(), size()) with the mode
                        elif oth and not ev:
                            probs.append('after the constructor and %s the writer answers %s through %s instead of to_string of its stream: the bytes are '
                                         'returned as they are - %s (a shortcut guarded by a field that %s leaves as the constructor set it)' %
                                         ('append_char(ch >= 0x80, count)' if hist == 'append_char' else 'append(data, 1) with data[0] >= 0x80', label,
                                          oth[0][2], 'Latin-1 text is not transcoded to UTF-8' if not utf8 else 'invalid UTF-8 is not rejected', hist))
                        else:
                            und.append('%s: result not of the form to_string of the stream (%d / %d)' % (label, len(ev), len(oth)))
            except Exception as e:
                und.append('not interpreted: %s' % (str(e)[:80],))
            if nret == 0 and not und:
                und.append('no returning path explored')
            run.ob('R17.7', label, False if probs else (None if und else True), probs[0] if probs else (und[0] if und else
                   'every path returns to_string(%s) of the stream (%d paths)' % (label.split('(', 1)[1].rstrip(')'), nret)), disc='after ' + hist, loc=fn_loc(tos))
    return n


def check(run):
    m = run.module()
    F = run.facts()
    E = run.effects()
    run.trust('clang 14 lowering (LLVM IR, -O0, mem2reg)', 'STIR interpreter', 'libc fwrite / fputc and libstdc++ ostream::write / put / operator<< / operator>> deliver what they are handed',
              'C10 / C11 for what the shared driver emits, C01-C03 for what the conversions produce, C16 for string_stream::append / append_char')
    run.assume('the driver reaches a sink only through the virtual append / append_char of ST::format_writer (the class has no other virtual member; C10 resolves the dispatch)',
               'only the writers instantiated in gen/driver.cpp (FILE*, string, char / wchar_t / char16_t / char32_t streams; 32-bit wchar_t) are analysed')
    run.floor('append overrides', appends(run, m, F, E), 6)
    run.floor('append_char overrides', append_chars(run, m, F, E), 6)
    run.floor('format entry points', entries(run, m, F, E), 20)
    run.floor('stream operators', stream_ops(run, m, F, E), 8)
    run.floor('string writer histories', writer_result(run, m, F, E), 4)
    run.floor('append overrides scanned for NUL-terminated hand-overs', counted_chunks(run, m, F), 6)
    for r in ('R17.1', 'R17.2', 'R17.3', 'R17.4'):
        for o in [o for o in run.obs if o['rule'] == r][:2]:
            run.sample(dict(rule=o['rule'], subject=o['subject'], verdict=o['verdict'], detail=o['detail'][:160]))
