#!/bin/sh
# usage: matrix.sh [-j N] [seed-dir ...]
# Applies each seeded patch (seeded/<id>/patch.diff or neutral/<id>/patch.diff) to a private scratch worktree of /repo's HEAD
# (never to /repo itself, so that it can run while other work reads /repo), runs the check of its property (and any extra listed in
# <dir>/also; for neutral/* every claimed check) with STV_REPO pointing at the scratch tree, and prints one line per seed.
# The scratch worktrees live under /tmp and are removed on exit.  MX_ONLY="C07 C09" restricts the checks run on neutral patches.
cd "$(dirname "$0")/.."
V=$(pwd)
J=4
if [ "$1" = "-j" ]; then J=$2; shift 2; fi
[ $# -gt 0 ] || set -- seeded/*
ALL=$(python3 -c "import json; print(' '.join(c['property_id'] for c in json.load(open('MANIFEST.json'))['checks']))")
one() {
  d=$1; id=$(basename "$d"); prop=${id%%-*}
  [ -f "$d/patch.diff" ] || return 0
  W=$(mktemp -d /tmp/stv_mx.XXXXXX)
  # (concurrent `git worktree add` calls contend for a lock: retry a few times)
  ok=0
  for try in 1 2 3 4 5; do
    if git -C /repo worktree add --detach -f "$W/r" HEAD >/dev/null 2>&1; then ok=1; break; fi
    sleep $try
  done
  [ $ok = 1 ] || { echo "$id WORKTREE-FAILS"; rm -rf "$W"; return 0; }
  if ! git -C "$W/r" apply "$V/$d/patch.diff" 2>/dev/null; then
    echo "$id PATCH-FAILS"
  else
    case "$d" in neutral/*|*/neutral/*) props="${MX_ONLY:-$ALL}";; *) props="$prop $(cat "$d/also" 2>/dev/null)";; esac
    res=""
    for p in $props; do
      if echo " $ALL " | grep -q " $p "; then
        out=$(STV_REPO="$W/r" STV_CACHE="$W/cache" STV_SHOW_UND=$MX_VERBOSE STV_NO_EVIDENCE=1 STV_REPLAY_DIR="$W/replays" ./bin/check $p 2>&1); rc=$?
        res="$res $p:exit=$rc($(echo "$out" | grep -c '^VIOLATION')v,$(echo "$out" | grep -m1 'tier=' | sed 's/.*discharged, \([0-9]*\) undecided.*/\1/')u)"
        if [ "$MX_VERBOSE" = 2 ]; then echo "$out" | grep '^undecided' | sed "s/^/    [$id $p] /"; fi
        if [ -n "$MX_VERBOSE" ] && [ $rc -ne 0 ]; then echo "$out" | grep -B7 '^VIOLATION\|ANALYSIS-BROKEN' | sed "s/^/    [$id $p] /"; fi
      else res="$res $p:unclaimed"; fi
    done
    echo "$id$res"
  fi
  git -C /repo worktree remove --force "$W/r" >/dev/null 2>&1
  rm -rf "$W"
}
if [ "$J" -le 1 ]; then
  for d in "$@"; do one "$d"; done
else
  # run J seeds at a time
  n=0
  for d in "$@"; do
    one "$d" &
    n=$((n+1))
    if [ $n -ge $J ]; then wait; n=0; fi
  done
  wait
fi
