"""clang-query-14 helpers (facts that exist only before lowering)."""
import os
import re
import subprocess
import tempfile

from . import frontend


def run_query(script, tu='driver.cpp', std='c++20', repo=None):
    repo = repo or frontend.REPO
    work = tempfile.mkdtemp(prefix='stv_cq_')
    try:
        with open(os.path.join(work, 'st_config.h'), 'w') as fp:
            fp.write(frontend.make_config_h(repo))
        q = os.path.join(work, 'q.cq')
        with open(q, 'w') as fp:
            fp.write(script)
        cmd = ['clang-query-14', '-f', q, os.path.join(frontend.VERIF, 'gen', tu), '--', '-std=' + std, '-DNDEBUG',
               '-Wno-everything', '-I' + os.path.join(repo, 'include'), '-I' + work]
        r = subprocess.run(cmd, stdout=subprocess.PIPE, stderr=subprocess.STDOUT)
        return r.returncode, r.stdout.decode(errors='replace')
    finally:
        for f in os.listdir(work):
            os.remove(os.path.join(work, f))
        os.rmdir(work)


def matches(out, name):
    """[(file, line)] of the nodes bound to `name`."""
    res = []
    for m in re.finditer(r'^(\S+?):(\d+):\d+: note: "%s" binds here' % re.escape(name), out, re.M):
        res.append((m.group(1), int(m.group(2))))
    return res
