"""Linear terms over atoms (mathematical integers), hash-consed non-linear atoms, concrete evaluation.

A Lin is  c + sum(coeff * atom).  Atoms are strings (free symbols) or tuples ('op', ...) for
non-linear / bit operations whose operands are Lins or ints.  Lins are immutable and hashable; two
computations that build the same term yield equal Lins (term identity).
"""


def _akey(a):
    return (0, a) if isinstance(a, str) else (1, repr(a))


class Lin(object):
    __slots__ = ('c', 't', '_h')

    def __init__(self, c=0, t=()):
        self.c = c
        self.t = t
        self._h = None

    @staticmethod
    def const(c):
        return Lin(c, ())

    @staticmethod
    def atom(a, k=1):
        return Lin(0, ((a, k),))

    def is_const(self):
        return not self.t

    def single_atom(self):
        """(atom, coeff, const) if the term is coeff*atom + const."""
        if len(self.t) == 1:
            return self.t[0][0], self.t[0][1], self.c
        return None

    def atoms(self):
        return [a for a, k in self.t]

    def __hash__(self):
        if self._h is None:
            self._h = hash((self.c, self.t))
        return self._h

    def __eq__(self, o):
        return isinstance(o, Lin) and self.c == o.c and self.t == o.t

    def __ne__(self, o):
        return not self.__eq__(o)

    def __add__(self, o):
        if isinstance(o, int):
            return Lin(self.c + o, self.t) if o else self
        if not o.t:
            return Lin(self.c + o.c, self.t) if o.c else self
        if not self.t:
            return Lin(self.c + o.c, o.t)
        d = dict(self.t)
        for a, k in o.t:
            v = d.get(a, 0) + k
            if v:
                d[a] = v
            else:
                d.pop(a, None)
        return Lin(self.c + o.c, tuple(sorted(d.items(), key=lambda x: _akey(x[0]))))

    def __neg__(self):
        return Lin(-self.c, tuple((a, -k) for a, k in self.t))

    def __sub__(self, o):
        if isinstance(o, int):
            return self + (-o)
        return self + (-o)

    def scale(self, k):
        if k == 0:
            return ZERO
        if k == 1:
            return self
        return Lin(self.c * k, tuple((a, c * k) for a, c in self.t))

    def __repr__(self):
        parts = []
        for a, k in self.t:
            an = a if isinstance(a, str) else atom_str(a)
            if k == 1:
                parts.append(an)
            elif k == -1:
                parts.append('-' + an)
            else:
                parts.append('%d*%s' % (k, an))
        if self.c or not parts:
            parts.append(str(self.c) if abs(self.c) < 1 << 20 else hex(self.c))
        return ' + '.join(parts).replace('+ -', '- ')


ZERO = Lin(0, ())
ONE = Lin(1, ())


def atom_str(a):
    if isinstance(a, str):
        return a
    return '%s(%s)' % (a[0], ', '.join(repr(x) if isinstance(x, Lin) else str(x) for x in a[1:]))


def L(x):
    if isinstance(x, Lin):
        return x
    if isinstance(x, int):
        return Lin(x, ())
    return Lin.atom(x)


# ------------------------------------------------------------------------------------------------
# concrete evaluation of terms under an assignment of base atoms (used to test candidate witnesses)

def eval_atom(a, env):
    if a in env:
        return env[a]
    if isinstance(a, str):
        raise KeyError(a)
    op = a[0]
    if op in ('load', 'strlen', 'ret', 'sym', 'opaque', 'tbl'):
        raise KeyError(a)
    args = [eval_lin(x, env) if isinstance(x, Lin) else x for x in a[1:]]
    if op == 'and':
        return (args[0] & args[1]) & ((1 << args[2]) - 1)
    if op == 'or':
        return (args[0] | args[1]) & ((1 << args[2]) - 1)
    if op == 'xor':
        return (args[0] ^ args[1]) & ((1 << args[2]) - 1)
    if op == 'mul':
        return args[0] * args[1]
    if op == 'udiv':
        return args[0] // args[1] if args[1] else 0
    if op == 'urem':
        return args[0] % args[1] if args[1] else 0
    if op == 'shl':
        return (args[0] << args[1]) & ((1 << args[2]) - 1)
    if op == 'lshr':
        return (args[0] & ((1 << args[2]) - 1)) >> args[1]
    if op == 'ashr':
        return args[0] >> args[1]
    if op == 'mod':       # value reduced modulo 2^bits (unsigned)
        return args[0] % (1 << args[1])
    if op == 'smod':      # value reduced to the signed range of bits
        v = args[0] % (1 << args[1])
        return v - (1 << args[1]) if v >= (1 << (args[1] - 1)) else v
    raise KeyError(a)


def eval_lin(l, env):
    v = l.c
    for a, k in l.t:
        v += k * eval_atom(a, env)
    return v


def base_atoms(l, out=None):
    """Free symbols a term ultimately depends on (opaque atoms count as free)."""
    if out is None:
        out = set()
    for a, k in l.t:
        _base_atom(a, out)
    return out


def _base_atom(a, out):
    if isinstance(a, str) or a[0] in ('load', 'strlen', 'ret', 'sym', 'opaque', 'tbl'):
        out.add(a)
        return
    for x in a[1:]:
        if isinstance(x, Lin):
            base_atoms(x, out)
