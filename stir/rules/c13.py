"""C13 - floating-point text equals the C library rendering for every value and precision.

Equality with printf's rendering holds by delegation: the library hands the value to snprintf of the same C library.  What is
decided here is everything around that call:

R13.1 destination / size coherence at every snprintf site (the size passed is the size of the destination object)
R13.2 the conversion assembled by ST::format for a floating-point argument is exactly  %[+][.<precision digits>]{e,E,f,g}
      NUL-terminated, for all 16 (always_signed, precision given?, float_class) combinations; format_double's is {'%', f, 0}
      with f in "efgEFG"
R13.3 no assertion is reachable from a floating-point rendering: in particular the result of snprintf being larger than the
      scratch buffer must be handled, not asserted
R13.4 padding: the pad count is minimum_length - rendered length under the guard that makes it positive, on the side the
      alignment asks for; to_float / to_double follow the ok / full_match table (C12 R12.4, re-run here for the two members)
"""
import re

from ..interp import Interp, Hooks, Budget
from ..state import State, Obj, IntV, PtrV, NULL, MAXLEN, TopV
from ..terms import Lin, ZERO
from . import own, c12
from .common import short, fn_loc

LEVEL = 'other'
EXPLANATION = ('abstract interpretation of the floating-point renderers with the printed length an unbounded symbol (snprintf model): '
               'assertion reachability, destination/size coherence, the assembled conversion string for all flag combinations and the '
               'pad arithmetic are decided on every path; the digits themselves are libc\'s by delegation')


class FloatHooks(Hooks):
    max_depth = 8
    max_paths = 4000

    def __init__(self, m):
        self.m = m

    def call(self, I, st, inst, name, args):
        if name is None:
            if 'format_writer' in inst.d['fty']:
                fty = inst.d['fty']
                if '(%"class.ST::format_writer"*, i8*, i64)' in fty:
                    st.ev('emit', inst, args[1], args[2])
                else:
                    st.ev('emit-char', inst, args[1], args[2])
                return [(st, args[0])]
            return None
        d = self.m.dem(name)
        if re.match(r'^ST::uint_formatter<unsigned int>::format\(', d):
            st.ev('prec-digits', inst, args[1], args[2])
            return [(st, None)]
        if re.match(r'^ST::uint_formatter<unsigned int>::text\(\) const', d):
            o = Obj('ext', Lin.const(33))
            o.lazy = True
            st.objs['DIGITS'] = o
            return [(st, PtrV('DIGITS'))]
        if re.match(r'^ST::uint_formatter<unsigned int>::size\(\) const', d):
            # decimal rendering of a 32-bit value: 1..10 digits (2^32 < 10^10)
            if 'ndig' not in st.rng:
                st.rng['ndig'] = (1, 10)
            return [(st, IntV(64, Lin.atom('ndig'), 'u'))]
        return None


def _may_fail(self, I, st, inst, args, snap):
    # a conversion string assembled in a buffer: it can ask for more than INT_MAX characters only through a precision / width
    items = reconstruct(st, snap) if snap is not None else None
    if items is None:
        return True
    return any(x[0] != 'c' and x[0] != 's' or (x[0] == 'c' and chr(x[1]) in '.*0123456789') for x in items)


FloatHooks.snprintf_may_fail = _may_fail


def find(m, F, dem):
    for name in F.lib:
        f = m.func(name)
        if f.dem == dem:
            return f
    return None


def reconstruct(st, snap):
    """Bytes of the conversion string as a list of ('c', byte) / ('digits', len term) items up to the NUL, or None."""
    cells, regions, p = snap[0], snap[1], snap[2]
    data = snap[3] if len(snap) > 3 else None
    if p.off.t:
        return None
    if data is not None:
        # a string literal: its bytes up to the NUL
        items = []
        for b in data[p.off.c:]:
            if b == 0:
                return items
            items.append(('c', b & 0xFF))
        return None
    items = []
    pos = Lin.const(p.off.c)
    for _ in range(40):
        got = None
        if not pos.t and pos.c in cells and cells[pos.c][0] == 1:
            v = cells[pos.c][1]
            if isinstance(v, IntV) and not v.lin.t:
                got = ('c', v.lin.c & 0xFF, 1)
            elif isinstance(v, IntV):
                got = ('s', v.lin, 1)
        if got is None:
            for (roff, rlen, tag, ver) in reversed(regions):
                if roff == pos:
                    if tag[0] == 'val' and isinstance(tag[1], IntV) and not tag[1].lin.t:
                        got = ('c', tag[1].lin.c & 0xFF, 1)
                    elif tag[0] == 'copy':
                        got = ('digits', rlen, tag[1])
                    break
        if got is None:
            return None
        if got[0] == 'c':
            if got[1] == 0:
                return items
            items.append(('c', got[1]))
            pos = pos + 1
        elif got[0] == 's':
            items.append(('s', got[1]))
            pos = pos + 1
        else:
            items.append(('digits', got[1], got[2]))
            pos = pos + got[1]
    return None


def renderer(run, m, F, E):
    f = find(m, F, 'ST::format_type(ST::format_spec const&, ST::format_writer&, double)')
    run.need(f is not None, 'format_type(double) not found')
    lay = m.structs.get('struct.ST::format_spec')
    run.need(lay is not None, 'struct ST::format_spec not found')
    fc = m.enums.get('ST::float_class_t')
    al = m.enums.get('ST::alignment_t')
    off = dict(minimum_length=lay['fields'][0][1], precision=lay['fields'][1][1], alignment=lay['fields'][3][1],
               float_class=lay['fields'][5][1], pad=lay['fields'][6][1], always_signed=lay['fields'][7][1])
    n = 0
    conv = {fc['float_default']: ord('g'), fc['float_fixed']: ord('f'), fc['float_exp']: ord('e'), fc['float_exp_upper']: ord('E')}
    for signed in (0, 1):
        for has_prec in (0, 1):
            for cls, cch in sorted(conv.items()):
                n += 1
                I = Interp(m, F, E, FloatHooks(m))
                st = State()
                spec = Obj('ext', Lin.const(lay['size']))
                spec.lazy = True
                st.objs['SPEC'] = spec
                spec.cells[off['always_signed']] = (1, IntV(8, Lin.const(signed), 'u'))
                spec.cells[off['float_class']] = (4, IntV(32, Lin.const(cls), 'u'))
                st.rng['prec'] = (0, (1 << 31) - 1) if has_prec else (-(1 << 31), -1)
                spec.cells[off['precision']] = (4, IntV(32, Lin.atom('prec'), 's'))
                st.rng['minlen'] = (-(1 << 31), (1 << 31) - 1)
                spec.cells[off['minimum_length']] = (4, IntV(32, Lin.atom('minlen'), 's'))
                w = I.fresh_ptr(st, 'writer')
                outs = I.run(I.start(f, [PtrV('SPEC'), w, TopV('value')], st))
                label = '%s%s%s' % ('+' if signed else '', '.N' if has_prec else '', chr(cch))
                problems, und = [], []
                for o in outs:
                    s2 = o.st
                    sn = [e for e in s2.events if e[0] == 'snprintf']
                    if o.kind == 'abort':
                        msg = o.info[1] if o.info and o.info[0] == 'assert' else str(o.info[0] if o.info else '?')
                        problems.append(('R13.3', 'assertion "%s" is reachable: the process aborts for renderings the scratch buffer cannot hold' % msg
                                         if 'too small' in msg else 'assertion "%s" is reachable' % msg, msg))
                        continue
                    for e in s2.events:
                        if e[0] in ('oob', 'oob?'):
                            env = e[6] if len(e) > 6 else None
                            if e[0] == 'oob' or env is not None:
                                problems.append(('R13.1', '%s of %r bytes at offset %r overruns a buffer of %r bytes (line %d)%s' %
                                                 (e[2], e[4], e[3].off, e[5], e[1].line, '; witness ' + own.fmt_env(env) if env else ''), 'oob'))
                            else:
                                und.append('bounds at line %d not decided' % e[1].line)
                    if o.kind == 'throw' and not [e for e in s2.events if e[0] == 'snprintf-fail']:
                        # "however long that rendering is": the renderer may give up (an exception) only where the C library did
                        # - on a path on which snprintf reported failure.  A throw on any other path is a refusal to render
                        # something printf renders; a finding with a model of the inputs of the path (precision, width, the digit
                        # count of the precision), allocation failure apart
                        exc = str(o.val if o.val is not None else (o.info or ''))
                        if 'bad_alloc' in exc or 'bad_array_new_length' in exc:
                            continue
                        env = s2.find_model([Lin.atom('prec'), Lin.atom('minlen')] + ([Lin.atom('ndig')] if 'ndig' in s2.rng else []), lambda v: True)
                        if env is not None and 'ndig' in env and has_prec:
                            # (the digit count of the precision is a symbol of its own in this model: name a precision that has it)
                            env = dict(env)
                            env['prec'] = 10 ** (env['ndig'] - 1)
                        if env is not None:
                            problems.append(('R13.2', 'throws %s on a path on which snprintf has not failed: a field printf renders is refused; witness %s' %
                                             (exc[:60] or 'an exception', own.fmt_env(env)), 'throw'))
                        else:
                            und.append('a throwing path without a snprintf failure, not confirmed by a model')
                        continue
                    if o.kind != 'ret':
                        continue
                    if not sn:
                        problems.append(('R13.2', 'no snprintf call on a returning path', 'nosnprintf'))
                        continue
                    # the first snprintf renders into the scratch buffer: size == size of that object
                    for e in sn:
                        _, inst, d, nl, snap, rest = e[:6]
                        if isinstance(d, PtrV) and d.obj in s2.objs and nl is not None:
                            osz = s2.objs[d.obj].size
                            if osz is not None and s2.is_ge0(osz - d.off - nl) is not True:
                                problems.append(('R13.1', 'snprintf is told the destination holds %r bytes but it holds %r' % (nl, osz - d.off), 'size'))
                        if snap is None:
                            und.append('conversion string not tracked')
                            continue
                        items = reconstruct(s2, snap)
                        if items is None:
                            und.append('conversion string could not be reconstructed')
                            continue
                        want = [('c', ord('%'))] + ([('c', ord('+'))] if signed else []) + ([('c', ord('.')), ('digits',)] if has_prec else []) + [('c', cch)]
                        shape = [(x[0], x[1]) if x[0] == 'c' else ('digits',) for x in items]
                        # the precision may also travel as an argument ("%.*f", precision, value): printf treats a negative one as omitted
                        want_star = [('c', ord('%'))] + ([('c', ord('+'))] if signed else []) + [('c', ord('.')), ('c', ord('*')), ('c', cch)]
                        if shape == want_star:
                            pa = rest[0] if rest else None
                            if not (isinstance(pa, IntV) and s2.is_eq0(I.as_s(s2, pa) - Lin.atom('prec')) is True):
                                problems.append(('R13.2', 'conversion %s takes its precision from %r, not from format.precision' % (show(items), pa), 'conv'))
                            continue
                        if shape != want:
                            problems.append(('R13.2', 'conversion string is %s, expected %s' % (show(items), show(want)), 'conv'))
                        for x in items:
                            if x[0] == 'digits':
                                if not (isinstance(x[2], PtrV) and x[2].obj == 'DIGITS' and s2.is_eq0(x[1] - Lin.atom('ndig')) is True):
                                    problems.append(('R13.2', 'precision digits are not the decimal rendering of format.precision', 'conv'))
                        pd = [e2 for e2 in s2.events if e2[0] == 'prec-digits']
                        if has_prec and not (len(pd) == 1 and isinstance(pd[0][2], IntV) and s2.is_eq0(I.as_s(s2, pd[0][2]) - Lin.atom('prec')) is True and
                                             isinstance(pd[0][3], IntV) and pd[0][3].lin == Lin.const(10)):
                            problems.append(('R13.2', 'precision is not rendered in base 10 from format.precision', 'conv'))
                    # padding
                    printed = sorted([a for a in s2.rng if isinstance(a, str) and a.startswith('printed#')], key=lambda a: -int(a.split('#')[1]))
                    emits = [e for e in s2.events if e[0] in ('emit', 'emit-char')]
                    text = [e for e in emits if e[0] == 'emit']
                    pads = [e for e in emits if e[0] == 'emit-char']
                    if printed and text:
                        pl = Lin.atom(printed[-1])
                        tl = I.as_u(s2, text[0][3]) if isinstance(text[0][3], IntV) else None
                        if tl is None or s2.is_eq0(tl - pl) is not True:
                            problems.append(('R13.4', 'emits %r bytes of the rendering, snprintf reported %r' % (tl, pl), 'emit'))
                        # the bytes handed to the writer lie inside the buffer they were rendered into: snprintf reports the *untruncated*
                        # length, which may exceed what a buffer sized in advance holds
                        tp = text[0][2]
                        to_ = s2.objs.get(tp.obj) if isinstance(tp, PtrV) and tp.obj is not None else None
                        if to_ is not None and to_.size is not None and tl is not None:
                            room = to_.size - tp.off - tl
                            if s2.is_ge0(room) is not True:
                                env = s2.find_model([room], lambda v: v[0] < 0)
                                if env is not None:
                                    problems.append(('R13.1', 'hands the writer %r bytes from a buffer that holds %r: the length snprintf reports is the '
                                                     'untruncated one; witness %s' % (tl, to_.size - tp.off, own.fmt_env(env)), 'emit-bounds'))
                                else:
                                    und.append('the emitted range is not decided to lie inside the buffer it was rendered into')
                        need = s2.is_ge0(Lin.atom('minlen') - pl - 1)
                        if need is True:
                            if len(pads) != 1 or not isinstance(pads[0][3], IntV) or s2.is_eq0(I.as_u(s2, pads[0][3]) - (Lin.atom('minlen') - pl)) is not True:
                                problems.append(('R13.4', 'width exceeds the rendering but the pad count is not width - length', 'pad'))
                        elif need is False and pads:
                            problems.append(('R13.4', 'pads although the rendering already fills the width', 'pad'))
                for key in sorted(set((p[0], p[2]) for p in problems)):
                    msg = [p[1] for p in problems if (p[0], p[2]) == key][0]
                    run.ob(key[0], 'format_type(double)', False, msg, disc='%s / %s' % (label, key[1]), loc=fn_loc(f))
                if not problems:
                    if und:
                        run.ob('R13.2', 'format_type(double)', None, und[0], disc=label, loc=fn_loc(f))
                    else:
                        run.ob('R13.2', 'format_type(double)', True, 'conversion %%%s, sizes coherent, padding as specified, no assertion reachable (%d paths)' % (label, len(outs)), disc=label)
    return n


def show(items):
    out = ''
    for x in items:
        out += chr(x[1]) if x[0] == 'c' else ('<f>' if x[0] == 's' else '<digits>')
    return '"' + out + '"'


def formatter_class(run, m, F, E):
    n = 0
    for name in F.lib:
        f = m.func(name)
        if not re.match(r'^ST::float_formatter<(float|double)>::format\((float|double), char(, [^()]*)?\)$', f.dem):
            continue
        extra_params = f.params[3:]
        n += 1
        I = Interp(m, F, E, FloatHooks(m))
        st = State()
        sn = re.match(r'%"?([^"*]+)"?\*', f.params[0]['ty']).group(1)
        lay = m.structs.get(sn)
        obj = Obj('ext', Lin.const(lay['size']))
        obj.lazy = True
        st.objs['FF'] = obj
        ch = I.fresh_int(st, 8, 'fmtchar')
        xargs = []
        for k2, p2 in enumerate(extra_params):
            t2 = p2['ty']
            xargs.append(I.fresh_int(st, int(t2[1:]), 'x%d' % k2) if t2[1:].isdigit() else TopV('x%d' % k2))
        outs = I.run(I.start(f, [PtrV('FF'), TopV('value'), ch] + xargs, st))
        problems, und = [], []
        accepted = []
        for o in outs:
            s2 = o.st
            if o.kind == 'abort':
                msg = o.info[1] if o.info and o.info[0] == 'assert' else str(o.info[0] if o.info else '?')
                problems.append(('R13.3', 'assertion "%s" is reachable: from_float / from_double abort for renderings the 64-byte buffer cannot hold' % msg
                                 if 'too small' in msg else 'assertion "%s" is reachable' % msg, msg))
                continue
            for e in s2.events:
                if e[0] in ('oob', 'oob?'):
                    env = e[6] if len(e) > 6 else None
                    if e[0] == 'oob' or env is not None:
                        problems.append(('R13.1', '%s of %r bytes overruns a buffer of %r bytes (line %d)' % (e[2], e[4], e[5], e[1].line), 'oob'))
            if o.kind == 'throw':
                continue
            if o.kind != 'ret':
                continue
            for e in [e for e in s2.events if e[0] == 'snprintf']:
                _, inst, d, nl, snap, rest = e[:6]
                if isinstance(d, PtrV) and d.obj in s2.objs and nl is not None and s2.objs[d.obj].size is not None:
                    if s2.is_ge0(s2.objs[d.obj].size - d.off - nl) is not True:
                        problems.append(('R13.1', 'snprintf is told the destination holds %r bytes but it holds %r' % (nl, s2.objs[d.obj].size - d.off), 'size'))
                items = reconstruct(s2, snap) if snap else None
                if items is None:
                    und.append('conversion string not reconstructed')
                elif not (len(items) == 2 and items[0] == ('c', ord('%')) and items[1][0] == 's' and items[1][1] == ch.lin):
                    if extra_params:
                        und.append('conversion string %s of a formatter with further parameters: not compared' % show(items))
                    else:
                        problems.append(('R13.2', 'conversion string is %s, expected {\'%%\', format, 0}' % show(items), 'conv'))
            accepted.append(s2.arange(ch.lin.t[0][0]))
        # accepted conversion characters: exactly efgEFG
        ok_chars = set()
        for (lo, hi) in accepted:
            if hi - lo < 8:
                ok_chars |= set(range(lo, hi + 1))
        for key in sorted(set((p[0], p[2]) for p in problems)):
            msg = [p[1] for p in problems if (p[0], p[2]) == key][0]
            run.ob(key[0], short(f.dem), False, msg, disc=key[1], loc=fn_loc(f))
        if not problems:
            run.ob('R13.2', short(f.dem), None if und else True, und[0] if und else 'renders with {\'%\', f, 0}; size coherent; no assertion reachable', disc='formatter')
    return n


def check(run):
    m = run.module()
    F = run.facts()
    E = run.effects()
    run.trust('clang 14 lowering (LLVM IR, -O0, mem2reg)', 'STIR interpreter',
              'snprintf model: writes at most `size` bytes to the destination and returns the untruncated length (>= 1 for e/f/g conversions, no upper bound)',
              'a 32-bit value has at most 10 decimal digits')
    run.assume('the digits are those of the C library the program is linked with (delegation), which is what the property compares against')
    run.floor('flag combinations of format_type(double)', renderer(run, m, F, E), 16)
    run.floor('float_formatter instantiations', formatter_class(run, m, F, E), 2)
    # to_float / to_double flags: same rule as C12 R12.4
    sub = type(run)(run.prop, run.tier)
    c12.parsers(sub, m, F, E, floats=True)
    c12.plain_parsers(sub, m, F, floats=True)
    k = 0
    for o in sub.obs:
        if 'to_float' in o['subject'] or 'to_double' in o['subject']:
            o['rule'] = 'R13.4'
            run.obs.append(o)
            k += 1
    run.floor('to_float / to_double members', k, 2)
    for o in run.obs[:3] + run.obs[-2:]:
        run.sample(dict(rule=o['rule'], subject=o['subject'], case=o['disc'], verdict=o['verdict'], detail=o['detail'][:160]))
