"""Abstract state of the STIR interpreter: values, memory objects, facts, frames."""
import math
from .terms import Lin, L, ZERO, eval_lin, eval_atom, base_atoms
import os as _os
import re as _re
STRICT_WITNESS = not _os.environ.get('STV_LOOSE_WITNESS')
_WIDE = _re.compile(r'\b(?:w|wo|ld|pun|ret|uninit|sw|inttoptr|gep|intr|ev|end|cpy|fill|n|len|trunc|shl|lshr|mul|xor|ov|sel|v)#\d+')


DERIVED = ('and', 'or', 'xor', 'lshr', 'ashr', 'shl', 'mul', 'udiv', 'urem', 'mod', 'smod')

INF = 1 << 200
ADDR_BITS = 47          # x86-64 user address space: no object is larger than 2^47 bytes
MAXLEN = (1 << ADDR_BITS) - 1


class IntV(object):
    """Integer: value (as unsigned if kind 'u', as signed if kind 's') equals the mathematical term lin."""
    __slots__ = ('bits', 'lin', 'kind')

    def __init__(self, bits, lin, kind='u'):
        self.bits = bits
        self.lin = lin
        self.kind = kind

    def __repr__(self):
        return 'i%d%s(%r)' % (self.bits, self.kind, self.lin)

    def is_const(self):
        return self.lin.is_const()


class PtrV(object):
    """Pointer into object obj at byte offset off; obj None = null.  nz: atom that is 0 iff the pointer
    is null (None = known non-null)."""
    __slots__ = ('obj', 'off', 'nz')

    def __init__(self, obj, off=ZERO, nz=None):
        self.obj = obj
        self.off = off
        self.nz = nz

    def __repr__(self):
        if self.obj is None:
            return 'null'
        return '&%s+%r%s' % (self.obj, self.off, '?' if self.nz else '')


class TopV(object):
    __slots__ = ('why',)

    def __init__(self, why=''):
        self.why = why

    def __repr__(self):
        return 'T(%s)' % self.why


class AggV(object):
    __slots__ = ('f',)

    def __init__(self, f):
        self.f = tuple(f)

    def __repr__(self):
        return 'agg%r' % (self.f,)


NULL = PtrV(None)


class Obj(object):
    __slots__ = ('kind', 'size', 'cells', 'regions', 'freed', 'version', 'attrs', 'lazy')

    def __init__(self, kind, size=None, lazy=False):
        self.kind = kind
        self.size = size          # Lin (bytes) or None when unknown
        self.cells = {}           # const offset -> (nbytes, value)
        self.regions = []         # (offLin, lenLin, tag, version) in program order; tag: ('val', v)|('fill', v)|('copy', srcPtr)|('havoc',)
        self.freed = False
        self.version = 0
        self.attrs = {}
        self.lazy = lazy          # unknown initial contents are materialised on first load

    def clone(self):
        o = Obj(self.kind, self.size, self.lazy)
        o.cells = dict(self.cells)
        o.regions = list(self.regions)
        o.freed = self.freed
        o.version = self.version
        o.attrs = dict(self.attrs)
        return o


class Frame(object):
    __slots__ = ('fn', 'regs', 'block', 'idx', 'prev', 'loops', 'callinst', 'allocas')

    def __init__(self, fn):
        self.fn = fn
        self.regs = {}
        self.block = 0
        self.idx = 0
        self.prev = None
        self.loops = {}           # header block -> [iterations, widened?]
        self.callinst = None      # call/invoke instruction in the caller that created this frame
        self.allocas = []

    def clone(self):
        f = Frame(self.fn)
        f.regs = dict(self.regs)
        f.block = self.block
        f.idx = self.idx
        f.prev = self.prev
        f.loops = dict((k, list(v)) for k, v in self.loops.items())
        f.callinst = self.callinst
        f.allocas = list(self.allocas)
        return f


def _cond_base_atoms(c, out=None, depth=0):
    if out is None:
        out = set()
    if depth > 6 or not isinstance(c, tuple):
        return out
    for x in c[1:]:
        if isinstance(x, IntV):
            base_atoms(x.lin, out)
        elif isinstance(x, PtrV):
            if x.off is not None:
                base_atoms(x.off, out)
        elif isinstance(x, Lin):
            base_atoms(x, out)
        elif isinstance(x, tuple):
            _cond_base_atoms(x, out, depth + 1)
        elif isinstance(x, str) and c[0] == 'nz':
            out.add(x)
    return out


def _eval_cond(c, env, depth=0):
    """Truth value of a recorded condition under a complete assignment, or None when it cannot be evaluated."""
    if depth > 6 or not isinstance(c, tuple):
        return None
    k = c[0]
    try:
        if k == 'const':
            return bool(c[1])
        if k == 'not':
            r = _eval_cond(c[1], env, depth + 1)
            return None if r is None else (not r)
        if k in ('and', 'or'):
            a, b = _eval_cond(c[1], env, depth + 1), _eval_cond(c[2], env, depth + 1)
            if a is None or b is None:
                return None
            return (a and b) if k == 'and' else (a or b)
        if k == 'nz':
            return eval_lin(Lin.atom(c[1]), env) != 0
        if k == 'icmp':
            pred, x, y = c[1], c[2], c[3]
            if isinstance(x, PtrV) or isinstance(y, PtrV):
                if not (isinstance(x, PtrV) and isinstance(y, PtrV) and x.obj == y.obj and x.obj is not None):
                    return None
                xv, yv, bits = eval_lin(x.off, env), eval_lin(y.off, env), 64
            elif isinstance(x, IntV) and isinstance(y, IntV):
                bits = x.bits
                xv, yv = eval_lin(x.lin, env), eval_lin(y.lin, env)
            else:
                return None
            M = 1 << bits
            xu, yu = xv % M, yv % M
            xs = xu - M if xu >= M // 2 else xu
            ys = yu - M if yu >= M // 2 else yu
            return {'eq': xu == yu, 'ne': xu != yu, 'ult': xu < yu, 'ule': xu <= yu, 'ugt': xu > yu, 'uge': xu >= yu,
                    'slt': xs < ys, 'sle': xs <= ys, 'sgt': xs > ys, 'sge': xs >= ys}.get(pred)
    except KeyError:
        return None
    return None


class State(object):
    def __init__(self):
        self.rng = {}
        self.facts = []
        self.nefacts = set()
        self.conds = {}
        self.objs = {}
        self.frames = []
        self.events = []
        self.trail = []
        self.exc = None           # in-flight exception: (type name, exception object id)
        self.flags = {}
        self.depth_hits = 0

    def clone(self):
        s = State()
        s.rng = dict(self.rng)
        s.facts = list(self.facts)
        s.nefacts = set(self.nefacts)
        s.conds = dict(self.conds)
        s.objs = dict((k, v.clone()) for k, v in self.objs.items())
        s.frames = [f.clone() for f in self.frames]
        s.events = list(self.events)
        s.trail = list(self.trail)
        s.exc = self.exc
        s.flags = dict(self.flags)
        s.depth_hits = self.depth_hits
        return s

    # ------------------------------------------------------------------ ranges and facts
    def arange(self, a):
        r = self.rng.get(a)
        if r is None:
            return (-INF, INF)
        return r

    def irange(self, l):
        """Interval of a term from atom ranges only."""
        lo = hi = l.c
        for a, k in l.t:
            alo, ahi = self.arange(a)
            if k > 0:
                lo += k * alo if alo > -INF else -INF
                hi += k * ahi if ahi < INF else INF
            else:
                lo += k * ahi if ahi < INF else -INF
                hi += k * alo if alo > -INF else INF
            if lo < -INF:
                lo = -INF
            if hi > INF:
                hi = INF
        return lo, hi

    def lower(self, d):
        lo = self.irange(d)[0]
        if d.t and lo < 0 and self.facts and len(d.t) <= 2:
            lo = max(lo, self.dbm_lower(d))
        if d.t:
            dmap = dict(d.t)
            for f in self.facts:
                e = d - f
                elo = e.c if not e.t else self.irange(e)[0]
                if elo > lo:
                    lo = elo
                if lo < 0:
                    # scaled use of the fact: k chosen so that one atom cancels
                    ks = set()
                    for (a, fc) in f.t:
                        dc = dmap.get(a)
                        if dc and dc * fc > 0 and dc % fc == 0 and dc // fc > 1:
                            ks.add(dc // fc)
                    for k in ks:
                        e = d - f.scale(k)
                        elo = e.c if not e.t else self.irange(e)[0]
                        if elo > lo:
                            lo = elo
            if lo < 0 and len(self.facts) <= 14:
                n = len(self.facts)
                for i in range(n):
                    e1 = d - self.facts[i]
                    if len(e1.t) > len(d.t) + 1:
                        continue
                    for j in range(i + 1, n):
                        e = e1 - self.facts[j]
                        elo = e.c if not e.t else self.irange(e)[0]
                        if elo > lo:
                            lo = elo
        return lo

    def upper(self, d):
        return -self.lower(-d)

    def dbm_lower(self, d):
        """Lower bound of  x - y + k  (or  x + k, -y + k) from chains of difference facts (Bellman-Ford)."""
        if not (1 <= len(d.t) <= 2) or any(abs(k) != 1 for a, k in d.t):
            return -INF
        pos = [a for a, k in d.t if k == 1]
        neg = [a for a, k in d.t if k == -1]
        if len(pos) > 1 or len(neg) > 1:
            return -INF
        x = pos[0] if pos else None          # None stands for the constant 0
        y = neg[0] if neg else None
        # edges u -> v with weight w meaning  v - u <= w
        edges = []
        nodes = set([x, y, None])
        for f in self.facts:
            if not (1 <= len(f.t) <= 2) or any(abs(k) != 1 for a, k in f.t):
                continue
            fp = [a for a, k in f.t if k == 1]
            fn = [a for a, k in f.t if k == -1]
            if len(fp) > 1 or len(fn) > 1:
                continue
            u = fp[0] if fp else None
            v = fn[0] if fn else None
            # u - v + c >= 0  =>  v - u <= c
            edges.append((u, v, f.c))
            nodes.add(u)
            nodes.add(v)
        if len(nodes) > 60:
            return -INF
        for a in nodes:
            if a is None:
                continue
            lo, hi = self.arange(a)
            if hi < INF:
                edges.append((None, a, hi))          # a - 0 <= hi
            if lo > -INF:
                edges.append((a, None, -lo))         # 0 - a <= -lo
        # want upper bound of y - x = dist(x -> y);  x - y >= -dist
        dist = {x: 0}
        for _ in range(len(nodes)):
            changed = False
            for (u, v, w) in edges:
                if u in dist and dist[u] + w < dist.get(v, INF):
                    dist[v] = dist[u] + w
                    changed = True
            if not changed:
                break
        if y not in dist:
            return -INF
        return d.c - dist[y]

    def range(self, d):
        return self.lower(d), self.upper(d)

    def is_ge0(self, d):
        if not d.t:
            return d.c >= 0
        if self.lower(d) >= 0:
            return True
        if self.upper(d) < 0:
            return False
        if self.facts and len(d.t) <= 6:
            if self.combine(d, 4, [1500], set()):
                return True
            if self.combine(-d - 1, 4, [1500], set()):
                return False
        return None

    def combine(self, d, depth, budget, seen):
        """d >= 0 as a non-negative combination of recorded facts plus interval bounds (elimination search)."""
        if self.irange(d)[0] >= 0:
            return True
        if depth == 0 or budget[0] <= 0 or d in seen:
            return False
        seen.add(d)
        # atoms whose interval contribution is what makes the bound fail, most harmful first
        bad = []
        for a, c in d.t:
            lo, hi = self.arange(a)
            contrib = c * lo if c > 0 else c * hi
            if (c > 0 and lo <= -INF) or (c < 0 and hi >= INF):
                contrib = -INF
            bad.append((contrib, a, c))
        bad.sort(key=lambda x: x[0])
        for contrib, a, c in bad[:3]:
            for f in self.facts:
                fc = dict(f.t).get(a)
                if not fc or fc * c <= 0:
                    continue
                budget[0] -= 1
                if budget[0] <= 0:
                    return False
                g = math.gcd(abs(fc), abs(c))
                d2 = d.scale(abs(fc) // g) - f.scale(abs(c) // g)
                if len(d2.t) > 7:
                    continue
                if self.combine(d2, depth - 1, budget, seen):
                    return True
        return False

    def is_eq0(self, d):
        if not d.t:
            return d.c == 0
        lo, hi = self.range(d)
        if lo == 0 and hi == 0:
            return True
        if lo > 0 or hi < 0:
            return False
        if d in self.nefacts or (-d) in self.nefacts:
            return False
        return None

    def assume_ge0(self, d):
        """Add d >= 0; returns False when that is infeasible on this path."""
        if not d.t:
            return d.c >= 0
        sa = d.single_atom()
        if sa is not None:
            a, k, c = sa
            lo, hi = self.arange(a)
            if k > 0:
                b = -(c // k)                                       # k*a + c >= 0  <=>  a >= ceil(-c/k)
                if b > lo:
                    lo = b
            else:
                kk = -k
                b = c // kk                                         # a <= floor(c/kk)
                if b < hi:
                    hi = b
            if lo > hi:
                return False
            if (lo, hi) != self.arange(a):
                self.rng[a] = (lo, hi)
                if self.nefacts and not self.trim(a):
                    return False
                return self.propagate()
            return True
        # integer tightening: g*(sum) + c >= 0  <=>  sum + floor(c/g) >= 0
        g = 0
        for a, k in d.t:
            g = math.gcd(g, abs(k))
        if g > 1:
            d = Lin(d.c // g, tuple((a, k // g) for a, k in d.t))
        if self.upper(d) < 0:
            return False
        if self.lower(d) >= 0:
            return True
        if d not in self.facts:
            self.facts.append(d)
            return self.propagate()
        return True

    def propagate(self, rounds=3):
        """Bounds propagation through the recorded facts; False when some fact became unsatisfiable."""
        for _ in range(rounds):
            changed = False
            for f in self.facts:
                lo, hi = self.irange(f)
                if hi < 0:
                    return False
                if lo >= 0 or len(f.t) > 4:
                    continue
                # f = k*a + rest >= 0  ->  k*a >= -max(rest)
                for (a, k) in f.t:
                    alo, ahi = self.arange(a)
                    # max of rest = hi - max(k*a)
                    ka_max = k * ahi if k > 0 else k * alo
                    if abs(ka_max) >= INF or hi >= INF:
                        continue
                    rest_max = hi - ka_max
                    # k*a >= -rest_max
                    if k > 0:
                        b = -((rest_max) // k)          # ceil(-rest_max / k)
                        if b > alo:
                            if b > ahi:
                                return False
                            self.rng[a] = (b, ahi)
                            changed = True
                    else:
                        kk = -k
                        b = rest_max // kk               # a <= floor(rest_max / kk)
                        if b < ahi:
                            if b < alo:
                                return False
                            self.rng[a] = (alo, b)
                            changed = True
            if not changed:
                break
        return True

    def assume_eq0(self, d):
        if d in self.nefacts or (-d) in self.nefacts:
            return False
        if not (self.assume_ge0(d) and self.assume_ge0(-d)):
            return False
        # a recorded disequality that the equality now contradicts makes the state infeasible
        for f in self.nefacts:
            if self.is_eq0(f) is True:
                return False
        return True

    def assume_ne0(self, d):
        if not d.t:
            return d.c != 0
        r = self.is_eq0(d)
        if r is True:
            return False
        if r is False:
            return True
        sa = d.single_atom()
        if sa is not None and abs(sa[1]) == 1:
            a, k, c = sa
            self.nefacts.add(d)
            return self.trim(a)
        self.nefacts.add(d)
        # integers: d >= 0 and d != 0 give d >= 1 (cursor != end under cursor <= end)
        if self.is_ge0(d) is True:
            return self.assume_ge0(d - 1)
        if self.is_ge0(-d) is True:
            return self.assume_ge0(-d - 1)
        return True

    def trim(self, a):
        """Shrink the range of atom a past excluded end values; False when nothing is left."""
        lo, hi = self.arange(a)
        if lo <= -INF or hi >= INF:
            return True
        excl = set()
        for f in self.nefacts:
            sa = f.single_atom()
            if sa is not None and sa[0] == a and abs(sa[1]) == 1:
                excl.add(-sa[2] * sa[1])
        changed = False
        while lo <= hi and lo in excl:
            lo += 1
            changed = True
        while lo <= hi and hi in excl:
            hi -= 1
            changed = True
        if lo > hi:
            return False
        if changed:
            self.rng[a] = (lo, hi)
            return self.propagate()
        return True

    # ------------------------------------------------------------------ witnesses
    def find_model(self, lins, want, extra_atoms=(), limit=4000):
        """Search a concrete assignment of the free atoms of `lins` and of the path facts that mention
        them, consistent with every recorded range/fact, for which want(values of lins) holds.
        Candidates are interval end points and near-threshold values only."""
        atoms = set()
        for l in lins:
            base_atoms(l, atoms)

        for a in extra_atoms:
            atoms.add(a)
        # a symbol that stands for the outcome of a comparison is not free: the terms it was computed from take part, and the
        # model must give it the value the comparison has (checked when the assignment is complete)
        grew_c = True
        while grew_c:
            grew_c = False
            for a in list(atoms):
                c = self.conds.get(a) if isinstance(a, str) else None
                if c is not None:
                    for b in _cond_base_atoms(c):
                        if b not in atoms:
                            atoms.add(b)
                            grew_c = True
        rel_facts = []
        grew = True
        rounds = 0
        while grew and rounds < 3:
            grew = False
            rounds += 1
            for f in self.facts:
                fa = base_atoms(f)
                if fa & atoms and f not in rel_facts:
                    rel_facts.append(f)
                    if not fa <= atoms:
                        atoms |= fa
                        grew = True
        # values read from memory at positions that the atoms in play determine take part as well
        # (two reads that coincide under the assignment must agree, and their recorded ranges must hold)
        for a2 in list(self.rng):
            if isinstance(a2, tuple) and a2[0] in ('load', 'tbl') and isinstance(a2[2], Lin) and a2 not in atoms:
                oa = base_atoms(a2[2])
                if oa and oa <= atoms and len(atoms) < 18:
                    atoms.add(a2)
        rel_ne = [f for f in self.nefacts if base_atoms(f) & atoms]
        for f in rel_ne:
            atoms |= base_atoms(f)
        allow = self.flags.get('allow-abstract-witness')     # a rule may exempt a class of symbols it has shown to be arbitrary (regex)

        def is_abs(a):
            if isinstance(a, tuple) and a[0] in ('load', 'tbl') and isinstance(a[2], Lin):
                # a unit read from memory at a position given by other symbols: as concrete as those symbols are
                return any(is_abs(b) and b not in pinned for b in base_atoms(a[2]))
            return bool(_WIDE.search(allow.sub('', repr(a)) if allow is not None else repr(a)))
        pinned = set()
        for a in list(atoms):
            if isinstance(a, tuple) and a[0] in ('load', 'tbl') and isinstance(a[2], Lin):
                for b in base_atoms(a[2]):
                    atoms.add(b)
        first_iter = []
        if STRICT_WITNESS and any(is_abs(a) for a in atoms):
            # A symbol that stands for a loop-carried value may still take part when it is pinned to the value the slot has on loop
            # entry and the loop was abstracted at its first arrival: the model then describes the first iteration, a real execution.
            ent = self.entry_terms()
            grew = True
            while grew:
                grew = False
                for a in list(atoms):
                    if is_abs(a) and a in ent and (a, ent[a]) not in first_iter:
                        first_iter.append((a, ent[a]))
                        for b in base_atoms(ent[a]):
                            if b not in atoms:
                                atoms.add(b)
                                grew = True
            pinned.update(a for a, e in first_iter)
            for a, e in first_iter:
                d = Lin.atom(a) - e
                rel_facts.append(d)
                rel_facts.append(-d)
        if STRICT_WITNESS and any(is_abs(a) and a not in set(x for x, e in first_iter) for a in atoms):
            if _os.environ.get('STV_DEBUG_WITNESS'):
                print('NOWITNESS', [repr(a)[:80] for a in atoms if _WIDE.search(allow.sub('', repr(a)) if allow is not None else repr(a))][:6])
            # a symbol that stands for lost precision (a widened loop value, a havoc'd read) takes part, directly or through a fact that
            # ties it to the queried symbols: an assignment to it is a model of the abstraction, not of an execution - no witness
            return None
        atoms = sorted(atoms, key=repr)
        if _os.environ.get('STV_DEBUG_WITNESS') and len(atoms) > 20:
            print('NOWITNESS too many atoms', len(atoms))
        if len(atoms) > 36:
            return None
        pool = set([0, 1, 2, 3])
        rngs = {}
        for a in atoms:
            lo, hi = self.arange(a)
            if lo <= -INF:
                lo = -(1 << 63)
            if hi >= INF:
                hi = (1 << 64) - 1
            rngs[a] = (lo, hi)
            for v in (lo, hi):
                for dlt in (-2, -1, 0, 1, 2):
                    pool.add(v + dlt)
        for f in rel_facts + list(rel_ne):
            for dlt in (-1, 0, 1):
                pool.add(-f.c + dlt)
                pool.add(f.c + dlt)
        for p in (7, 8, 15, 16, 31, 32, 63):
            for v in ((1 << p) - 1, 1 << p):
                pool.add(v)
        cands = {}
        lin_atoms0 = set()
        for l in lins:
            base_atoms(l, lin_atoms0)
        for a in atoms:
            lo, hi = rngs[a]
            if hi - lo <= 300 and (a in lin_atoms0 or isinstance(a, tuple)):
                cands[a] = list(range(lo, hi + 1))       # small domains (bytes) are enumerated completely
                continue
            c = sorted(v for v in pool if lo <= v <= hi)
            if len(c) > 14:
                # keep the extremes, the small values and the all-ones patterns in between (masks, digit tables)
                ones = [v for v in c if v > 0 and (v & (v + 1)) == 0 and v < (1 << 16)]
                c = sorted(set(c[:7] + c[-7:] + ones[:6]))
            cands[a] = c or [lo]
        # order atoms: those appearing in most facts first; check a fact as soon as all its atoms are assigned
        fact_atoms = [(f, base_atoms(f)) for f in rel_facts]
        ne_atoms = [(f, base_atoms(f)) for f in rel_ne]
        lin_atoms = set()
        for l in lins:
            base_atoms(l, lin_atoms)
        # goal-directed: the symbols of the queried terms first (the goal is tested as soon as they are all assigned), then
        # the others by how many facts they take part in
        order = sorted(atoms, key=lambda a: (0 if a in lin_atoms else 1, -sum(1 for f, fa in fact_atoms if a in fa)))
        n_goal = len([a for a in order if a in lin_atoms]) if all(a in atoms for a in lin_atoms) else None
        env = {}
        budget = [limit * 5]

        def consistent(last):
            for f, fa in fact_atoms:
                if last in fa and all(x in env for x in fa):
                    try:
                        if eval_lin(f, env) < 0:
                            return False
                    except KeyError:
                        pass
            for f, fa in ne_atoms:
                if last in fa and all(x in env for x in fa):
                    try:
                        if eval_lin(f, env) == 0:
                            return False
                    except KeyError:
                        pass
            return True

        def rec(k):
            if budget[0] <= 0:
                return None
            if n_goal is not None and k == n_goal and k < len(order):
                try:
                    if not want([eval_lin(l, env) for l in lins]):
                        return None
                except KeyError:
                    pass
            if k == len(order):
                try:
                    vals = [eval_lin(l, env) for l in lins]
                except KeyError:
                    return None
                if not want(vals):
                    return None
                # refined ranges of derived atoms (masks, shifts, quotients ...) over the assigned symbols must hold
                for a2, (rlo, rhi) in self.rng.items():
                    if isinstance(a2, tuple) and a2[0] in DERIVED and a2 not in env:
                        try:
                            if not (base_atoms(Lin.atom(a2)) <= set(env)):
                                continue
                            v2 = eval_atom(a2, env)
                        except KeyError:
                            continue
                        if v2 < rlo or v2 > rhi:
                            return None
                # outcomes of comparisons agree with the comparisons
                for a2, v2 in env.items():
                    c2 = self.conds.get(a2) if isinstance(a2, str) else None
                    if c2 is not None:
                        ev = _eval_cond(c2, env)
                        if ev is None or int(bool(ev)) != int(v2 != 0):
                            return None
                # two reads of the same location must have received the same value
                seen_loc = {}
                for a2, v2 in env.items():
                    if isinstance(a2, tuple) and a2[0] in ('load', 'tbl') and isinstance(a2[2], Lin):
                        try:
                            loc = (a2[0], a2[1], a2[3], a2[4], eval_lin(a2[2], env))
                        except KeyError:
                            continue
                        if seen_loc.setdefault(loc, v2) != v2:
                            return None
                return dict(env)
            a = order[k]
            for v in cands[a]:
                budget[0] -= 1
                env[a] = v
                if consistent(a):
                    r = rec(k + 1)
                    if r is not None:
                        return r
                del env[a]
                if budget[0] <= 0:
                    break
            return None
        return rec(0)

    def entry_terms(self):
        """{symbol of a loop-carried slot at the head of its (abstracted-at-first-arrival) loop -> term of the slot on loop entry}"""
        out = dict(self.flags.get('entry-terms') or {})
        for k, begin in self.flags.items():
            if not (isinstance(k, str) and k.startswith('hbegin:')):
                continue
            if not self.flags.get('hfirst:' + k[7:]):
                continue
            entry = self.flags.get('hentry:' + k[7:]) or {}
            for nm, bv in (begin or {}).items():
                ev = entry.get(nm)
                bt = bv.off if isinstance(bv, PtrV) and bv.obj is not None else (bv.lin if isinstance(bv, IntV) else None)
                et = ev.off if isinstance(ev, PtrV) and ev.obj is not None else (ev.lin if isinstance(ev, IntV) else None)
                if bt is None or et is None:
                    continue
                if isinstance(bv, PtrV) and isinstance(ev, PtrV) and bv.obj != ev.obj:
                    continue
                sa = bt.single_atom()
                if sa is not None and sa[1] == 1 and sa[2] == 0:
                    out[sa[0]] = et
        return out

    # ------------------------------------------------------------------ misc
    def ev(self, *e):
        self.events.append(e)

    @property
    def frame(self):
        return self.frames[-1]
