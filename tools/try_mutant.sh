#!/bin/sh
# usage: try_mutant.sh <patch.diff> <prop> [<prop>...]   applies the patch to /repo, runs the checks, reverts.
P="$1"; shift
cd /repo || exit 2
if ! git apply --check "$P" 2>/dev/null; then
  if git apply --check -3 "$P" 2>/dev/null; then :; else echo "PATCH DOES NOT APPLY: $P"; exit 3; fi
fi
git apply "$P" || exit 3
for prop in "$@"; do
  ( cd /verif && STV_NO_EVIDENCE=1 ./bin/check "$prop" 2>&1 | grep -E "^(VIOLATION|KNOWN-FINDING|ANALYSIS-BROKEN|construct|finding|rule|C[0-9]+ tier)" | cut -c1-260 | head -${MUT_LINES:-14} )
done
git checkout -- . 
