"""C16 - string_stream content equals the concatenation of everything appended.

R16.1 class invariant of string_stream (in-object buffer with m_alloc == 256, or exclusively owned heap block of
      m_alloc > 256 bytes; m_size <= m_alloc) preserved by every member, for target and moved-from source
R16.2 per-operation summaries equal the byte-string model: append writes [m_size, m_size+n) := data[0,n) and adds n;
      append_char n copies of ch; truncate/erase only change m_size as specified; growth preserves [0, m_size)
R16.3 every operator<< funnels into append / append_char (call-graph fact)
By induction over operations: content == concatenation, nothing leaked or freed twice.
"""
import re

from ..state import IntV, PtrV
from ..terms import Lin, ZERO
from . import own
from .c05 import owner_methods
from .common import short, fn_loc, class_of, is_ctor, is_dtor

LEVEL = 'proof'
EXPLANATION = ('abstract interpretation of every mutating member of ST::string_stream from every entry scenario allowed by '
               'the class invariant (in-object / heap storage, aliasing); invariant and per-operation byte-string-model '
               'clauses are checked at every exit; the growth loop is handled by widening with inductively verified bounds')


def method_kind(f):
    base = f.dem[len('ST::string_stream::'):]
    if base.startswith('~'):
        return 'dtor'
    if base == 'string_stream()':
        return 'ctor'
    if base in ('string_stream(ST::string_stream&&)', 'operator=(ST::string_stream&&)'):
        return 'move'
    if base == 'append(char const*, unsigned long)':
        return 'append'
    if base == 'append_char(char, unsigned long)':
        return 'append_char'
    if base == 'truncate(unsigned long)':
        return 'truncate'
    if base == 'erase(unsigned long)':
        return 'erase'
    if base == 'expand_buffer(unsigned long)':
        return 'expand'
    if base.startswith('operator<<('):
        return 'insert'
    return 'other'


def cur(st, oid, L):
    o = st.objs[oid]
    g = lambda off: o.cells[off][1] if off in o.cells else None
    return g(L.chars_off), g(L.alloc_off), g(L.size_off)


def new_regions(st, chars, entry):
    """Regions written to the current storage since entry (all of them for a fresh block)."""
    o = st.objs.get(chars.obj)
    if o is None:
        return []
    regs = [r for r in o.regions if r[3] > entry['storage_ver']] if chars.obj == entry['storage'].obj else list(o.regions)
    # the in-object buffer shares its object with the fields: ignore writes that end before the storage starts
    return [r for r in regs if st.is_ge0(chars.off - r[0] - r[1]) is not True]


def content_clause(I, st, L, entry, chars, size_after, append, problems, undecided):
    """append: None | ('copy', srcptr, len or None) | ('fill', value, len or None)."""
    s0 = entry['size']
    regs = [r for r in new_regions(st, chars, entry) if r[2][0] != 'val' or True]
    same = chars.obj == entry['storage'].obj
    k = 0
    if not same:
        # growth: the old bytes [0, s0) must be copied to the start of the new block first
        if st.is_eq0(s0) is True:
            pass
        if not regs:
            problems.append(('content', 'new storage block never receives the previous contents'))
            return
        r = regs[0]
        tag = r[2]
        ok = tag[0] == 'copy' and isinstance(tag[1], PtrV) and tag[1].obj == entry['storage'].obj and \
            st.is_eq0(tag[1].off - entry['storage'].off) is True and st.is_eq0(r[0] - chars.off) is True
        if not ok:
            problems.append(('content', 'first write into the new block is not a copy of the old contents to its start (%s at +%r)' % (tag[0], r[0] - chars.off)))
            return
        if st.is_ge0(r[1] - s0) is not True:
            problems.append(('content', 'growth copies %r bytes but %r were in use' % (r[1], s0)))
            return
        k = 1
    rest = regs[k:]
    if append is None:
        if rest:
            problems.append(('content', 'storage is written (%s) although the operation appends nothing' % rest[0][2][0]))
        return
    if len(rest) != 1:
        if not rest:
            problems.append(('content', 'appended bytes are never written'))
        else:
            problems.append(('content', '%d writes into the storage, expected exactly the appended range' % len(rest)))
        return
    r = rest[0]
    kind, src, n = append
    tag = r[2]
    if tag[0] != kind:
        problems.append(('content', 'appended range written by %s, expected %s' % (tag[0], kind)))
        return
    if st.is_eq0(r[0] - chars.off - s0) is not True:
        problems.append(('content', 'appended bytes land at offset %r, expected the previous size %r' % (r[0] - chars.off, s0)))
        return
    grow = size_after - s0
    if st.is_eq0(r[1] - grow) is not True:
        problems.append(('content', 'wrote %r bytes but m_size grew by %r' % (r[1], grow)))
        return
    if n is not None and st.is_eq0(r[1] - n) is not True:
        problems.append(('content', 'wrote %r bytes, expected the requested %r' % (r[1], n)))
        return
    if kind == 'copy':
        if not (isinstance(tag[1], PtrV) and isinstance(src, PtrV) and tag[1].obj == src.obj and st.is_eq0(tag[1].off - src.off) is True):
            problems.append(('content', 'appended bytes are read from %r, expected the data argument %r' % (tag[1], src)))
    else:
        if isinstance(tag[1], IntV) and isinstance(src, IntV) and tag[1].lin != src.lin:
            problems.append(('content', 'fill value %r is not the character argument %r' % (tag[1], src)))


def value_clauses(I, o, f, L, kind, info, scen, problems, undecided):
    st = o.st
    A, B = info['A'], info['B']
    entry = info['entry']
    chars, alloc, size = cur(st, A, L)
    if not (isinstance(chars, PtrV) and isinstance(alloc, IntV) and isinstance(size, IntV)):
        return
    sl, al = I.as_u(st, size), I.as_u(st, alloc)
    argv, roles = info['argv'], info['roles']
    ints = [argv[k] for k, r in enumerate(roles) if r == 'int']
    ptrs = [argv[k] for k, r in enumerate(roles) if r == 'ptr']
    e = entry.get('this')

    def eq(a, b, what):
        r = st.is_eq0(a - b)
        if r is True:
            return True
        if r is False:
            problems.append(('size', '%s: got %r, expected %r' % (what, a, b)))
            return False
        env = st.find_model([a - b], lambda v: v[0] != 0)
        if env is not None:
            problems.append(('size', '%s: got %r, expected %r; witness %s' % (what, a, b, own.fmt_env(env))))
        else:
            undecided.append('%s: %r vs %r not decided' % (what, a, b))
        return False

    def unchanged_storage():
        if chars.obj != e['storage'].obj or st.is_eq0(chars.off - e['storage'].off) is not True:
            problems.append(('content', 'storage replaced although the operation only changes m_size'))
        elif st.objs[chars.obj].version != e['storage_ver'] and new_regions(st, chars, e):
            problems.append(('content', 'storage written although the operation only changes m_size'))
        eq(al, e['alloc'], 'm_alloc')

    if kind == 'ctor':
        eq(sl, ZERO, 'size() of a new stream')
    elif kind == 'append':
        data, n = ptrs[0], I.as_u(st, ints[0])
        auto = (not n.t and n.c == (1 << 64) - 1)
        grew = st.is_eq0(sl - e['size'])
        if grew is True:
            # nothing appended: legal iff n == 0 (or AUTO with null / empty text)
            if not auto and st.is_eq0(n) is not True:
                # strlen could be 0 on the AUTO path only
                problems.append(('size', 'm_size unchanged although %r bytes were appended' % n))
            content_clause(I, st, L, e, chars, sl, None, problems, undecided)
        else:
            content_clause(I, st, L, e, chars, sl, ('copy', data, None if auto else n), problems, undecided)
    elif kind == 'append_char':
        ch, n = ints[0], I.as_u(st, ints[1])
        if st.is_eq0(n) is True:
            eq(sl, e['size'], 'm_size after appending nothing')
            content_clause(I, st, L, e, chars, sl, None, problems, undecided)
        else:
            content_clause(I, st, L, e, chars, sl, ('fill', ch, n), problems, undecided)
    elif kind == 'truncate':
        n = I.as_u(st, ints[0])
        lt = st.is_ge0(e['size'] - n - 1)
        if lt is True:
            eq(sl, n, 'm_size after truncate(n), n < size')
        elif lt is False:
            eq(sl, e['size'], 'm_size after truncate(n), n >= size')
        else:
            undecided.append('truncate: path does not order n and size')
        unchanged_storage()
    elif kind == 'erase':
        n = I.as_u(st, ints[0])
        lt = st.is_ge0(e['size'] - n - 1)
        if lt is True:
            eq(sl, e['size'] - n, 'm_size after erase(n), n < size')
        elif lt is False:
            eq(sl, ZERO, 'm_size after erase(n), n >= size')
        else:
            undecided.append('erase: path does not order n and size')
        unchanged_storage()
    elif kind == 'expand':
        n = I.as_u(st, ints[0])
        eq(sl, e['size'], 'm_size across expand_buffer')
        if st.is_ge0(al - sl - n) is not True:
            problems.append(('size', 'after expand_buffer(n) the capacity %r does not cover m_size + n = %r' % (al, sl + n)))
        content_clause(I, st, L, e, chars, sl, None, problems, undecided)
    elif kind == 'move':
        eb = entry.get('other')
        if eb is None or scen[2]:
            return
        eq(sl, eb['size'], 'm_size of the target after a move')
        eq(al, eb['alloc'], 'm_alloc of the target after a move')
        if eb['cls'] == 'heap':
            if chars.obj != eb['storage'].obj:
                problems.append(('content', 'heap-mode source: the target does not take over the source block'))
        else:
            bc, later = own.bulk_content(I, st, chars, eb['size'])
            ok = bc is not None and bc[0][0] == 'copy' and isinstance(bc[0][1], PtrV) and bc[0][1].obj == eb['storage'].obj and \
                st.is_eq0(bc[0][1].off - eb['storage'].off) is True and st.is_ge0(bc[2] - eb['size']) is True and \
                st.is_eq0(bc[1] - chars.off) is True
            if not ok and st.is_eq0(eb['size']) is not True:
                problems.append(('content', 'in-object source: its bytes are not copied into the target'))
        bchars, balloc, bsize = cur(st, B, L)
        if isinstance(bsize, IntV):
            if st.is_eq0(I.as_u(st, bsize)) is not True:
                problems.append(('movedfrom', 'moved-from stream reports size %r, not empty' % I.as_u(st, bsize)))


def truncated_rendering(I, o, info, L, problems, undecided):
    """A text rendered by snprintf straight into the stream's storage counts as stream content only if it fitted: snprintf(d, n, ...)
    returning r has stored r characters and the NUL only when r < n; with r == n the last character was replaced by the NUL."""
    from ..terms import base_atoms
    st = o.st
    A = info.get('A')
    if A is None or A not in st.objs:
        return
    size_now = st.objs[A].cells.get(L.size_off)
    e = (info.get('entry') or {}).get('this')
    if size_now is None or e is None or not isinstance(size_now[1], IntV):
        return
    grown = I.as_u(st, size_now[1]) - e['size'] if I.as_u(st, size_now[1]) is not None else None
    if grown is None:
        return
    for ev in st.events:
        if ev[0] != 'snprintf' or len(ev) < 7:
            continue
        d, nl, res = ev[2], ev[3], ev[6]
        if not (isinstance(d, PtrV) and nl is not None and isinstance(res, IntV)):
            continue
        sto_objs = set(x for x in (e['storage'].obj, A))
        if d.obj not in sto_objs:
            continue                    # rendered into a scratch buffer, copied later through append (its own clauses)
        ra = list(base_atoms(res.lin))
        if not ra or not (set(ra) & set(base_atoms(grown))):
            continue                    # the reported length does not become part of the stream's size on this path
        rl = I.as_s(st, res)
        if st.is_ge0(nl - rl - 1) is True:
            continue
        env = st.find_model([nl - rl], lambda v: v[0] <= 0)
        if env is not None:
            problems.append(('truncated', 'a rendering that snprintf reports as %r characters is accepted into a space of %r bytes: when they are equal its last '
                             'character was replaced by the terminator and a NUL becomes stream content; witness %s' % (rl, nl, own.fmt_env(env))))
        else:
            undecided.append('a rendering made directly into the stream is accepted without snprintf\'s result being known to be below the space given')


def analyse(run, m, F, E, L, f):
    kind = method_kind(f)
    roles = own.owner_param_roles(f, L)
    n = 0
    variants = [None]
    if kind == 'append':
        variants = [None, 'auto']
    for scen in own.scenarios_for(f, L, roles):
        for var in variants:
            a_cls, b_cls, alias = scen
            sname = 'this=%s' % a_cls + (', other=%s' % b_cls if b_cls else '') + (', this==other' if alias else '') + \
                (', size=ST_AUTO_SIZE' if var else '')
            hooks = own.OwnHooks()
            I, outs, info = own.run_method(m, F, E, L, f, scen, hooks=hooks, int_override=({1: (1 << 64) - 1} if var else None))
            n += 1
            subject = short(f.dem)
            for o in outs:
                if o.kind in ('backedge', 'unreachable'):
                    continue
                destroyed = info['A'] if (kind == 'dtor' and o.kind == 'ret') else None
                problems, undecided = own.judge_common(I, o, f, info, destroyed)
                if o.kind == 'abort':
                    problems.append(('terminate', 'path ends in %s' % (o.info[0],)))
                if o.kind == 'ret' and kind == 'dtor':
                    e = info['entry'].get('this')
                    if e and e['cls'] == 'heap' and not o.st.objs[e['storage'].obj].freed:
                        problems.append(('leak', 'destructor does not release the heap block it owns'))
                if o.kind == 'ret':
                    truncated_rendering(I, o, info, L, problems, undecided)
                vp, vu = [], []
                if o.kind == 'ret' and kind not in ('dtor', 'other', 'insert'):
                    value_clauses(I, o, f, L, kind, info, scen, vp, vu)
                disc = sname + ' / ' + o.kind
                own.report(run, 'R16.1', subject, f, disc, problems, undecided, 'stream invariant holds; heap blocks accounted for')
                if o.kind == 'ret' and kind not in ('dtor', 'other', 'insert'):
                    own.report(run, 'R16.2', subject, f, disc + ' / model', vp, vu, 'byte-string-model clause of "%s" holds' % kind)
                if len(run.samples) < 6:
                    run.sample(dict(method=f.dem, scenario=sname, exit=o.kind, problems=[p[1] for p in problems + vp][:3]))
    return n


def funnel(run, m, F, E, L):
    """R16.3: every operator<< writes the stream only through the verified members append / append_char - directly or through
    helper members / other insertion operators that themselves do.  An inserter that stores into the stream itself is not a
    finding: it is handed to the invariant analysis (R16.1) like any other mutating member, and its model clause stays undecided."""
    n = 0
    core = set()
    members = {}
    for name in F.lib:
        f = m.func(name)
        if class_of(f) != L.cls:
            continue
        members[name] = f
        if f.dem.startswith('ST::string_stream::append(') or f.dem.startswith('ST::string_stream::append_char('):
            core.add(name)
    run.need(len(core) >= 2, 'string_stream::append / append_char not found')
    own_writes = {}
    for name, f in members.items():
        if 'this' not in own.func_roles(f) and not f.dem.startswith('ST::string_stream::'):
            continue
        try:
            ex = E.explain(name, f.this_index())
        except Exception:
            ex = None
        own_writes[name] = ex
    clean = set(core)
    changed = True
    while changed:
        changed = False
        for name, ex in own_writes.items():
            if name in clean or ex is None:
                continue
            ok = True
            for (i, kind) in ex:
                if not kind.startswith('call '):
                    ok = False
                    break
                callee = i.callee if i.op in ('call', 'invoke') else None
                tg = m.resolve(callee) if callee and hasattr(m, 'resolve') else callee
                if tg not in clean:
                    ok = False
                    break
            if ok and ex:
                clean.add(name)
                changed = True
    direct = []
    for name, f in sorted(members.items(), key=lambda x: x[1].dem):
        if not f.dem.startswith('ST::string_stream::operator<<('):
            continue
        n += 1
        ex = own_writes.get(name)
        if name in clean:
            via = sorted(set(k[5:].split('(')[0] for (i, k) in ex))
            run.ob('R16.3', short(f.dem), True, 'writes the stream only through %s' % ', '.join(via))
        elif not ex:
            run.ob('R16.3', short(f.dem), None, 'no write to the stream found in this insertion operator: what it appends is not analysed', loc=fn_loc(f))
        else:
            st = [(i, k) for (i, k) in ex if not k.startswith('call ')]
            direct.append(f)
            run.ob('R16.3', short(f.dem), None, 'writes the stream outside append/append_char (%s): its class invariant is analysed by R16.1, its model clause is not established' %
                   '; '.join('%s %s' % (f.loc(i), k) for i, k in (st or ex)[:2]), loc=fn_loc(f))
    return n, direct, clean - core


def to_string_rule(run, m, F, E, L):
    """R16.4: to_string(utf8_encoded, validation) hands exactly the stream's bytes (raw_buffer(), size()) to the UTF-8 constructor when
    they are UTF-8 - with the requested validation mode, or marked valid when the mode is assume_valid - and to the Latin-1 transcoder
    when they are not, whatever the validation mode."""
    from ..interp import Interp, Hooks
    from ..state import State
    fs = [m.func(x) for x in F.lib if m.func(x).dem.startswith('ST::string_stream::to_string(bool, ST::utf_validation_t) const')]
    if not fs:
        run.ob('R16.4', 'string_stream::to_string', None, 'to_string(bool, utf_validation_t) not found: not analysed')
        return 0
    f = fs[0]
    modes = m.enums.get('ST::utf_validation_t') or {}
    av = [v for k, v in modes.items() if k.endswith('assume_valid')]

    class H(Hooks):
        max_depth = 6

        def call(self2, I, st, inst, name, args):
            if name is None:
                return None
            d = m.dem(name)
            mt = re.match(r'^ST::string::(from_utf8|from_latin_1|from_validated)\(char const\*, unsigned long', d)
            if mt:
                st.ev('make', inst, mt.group(1), list(args))
                return [(st, None)]
            return None
    I = Interp(m, F, E, H())
    st = State()
    this = own.make_stream(I, st, L, 'this', 'heap')
    BL = own.buffer_layout(m, 'char')
    ret = own.make_buffer(I, st, BL, 'ret', 'undef')
    utf8 = I.fresh_int(st, 8, 'utf8_encoded', hi=1)
    mode = I.fresh_int(st, 32, 'validation', lo=min(modes.values()) if modes else 0, hi=max(modes.values()) if modes else 2)
    probs, und = [], []
    try:
        outs = I.run(I.start(f, [PtrV(ret), PtrV(this), utf8, mode], st))
    except Exception as e:
        outs = []
        und.append('not interpreted: %s' % (str(e)[:80],))
    e0 = st.flags.get('entry:this') or {}
    nret = 0
    for o in outs:
        if o.kind != 'ret':
            continue
        nret += 1
        s2 = o.st
        mk = [e for e in s2.events if e[0] == 'make']
        if len(mk) != 1:
            und.append('%d string constructions on a returning path' % len(mk))
            continue
        kind, a = mk[0][2], mk[0][3]
        is_utf8 = s2.is_ge0(utf8.lin - 1)
        if is_utf8 is None:
            # the path did not look at the flag: it must be right for both values
            cases = []
            for val in (True, False):
                s3 = s2.clone()
                if s3.assume_ge0(utf8.lin - 1 if val else -utf8.lin):
                    cases.append(val)
            if cases == [True, False] or cases == [False]:
                is_utf8 = False if kind != 'from_latin_1' else True      # judge the value for which this constructor is the wrong one
            elif cases == [True]:
                is_utf8 = True
        # (sret, data, size[, validation])
        data, size = a[1], a[2]
        sto, sz = e0.get('storage'), e0.get('size')
        if sto is not None and not (isinstance(data, PtrV) and data.obj == sto.obj and s2.is_eq0(data.off - sto.off) is True):
            probs.append('the string is built from %r, not from raw_buffer()' % (data,))
        if sz is not None and isinstance(size, IntV) and s2.is_eq0(I.as_u(s2, size) - sz) is not True:
            probs.append('the string is built from %r bytes, not size()' % (size,))
        if is_utf8 is False:
            if kind != 'from_latin_1':
                wit = s2.find_model([mode.lin], lambda v: True)
                probs.append('the bytes are Latin-1 (utf8_encoded == false) but are handed to %s, not transcoded%s' % (
                    kind, '; e.g. validation=%s' % (wit or {}).get(mode.lin.single_atom()[0]) if wit else ''))
        elif is_utf8 is True:
            if kind == 'from_latin_1':
                probs.append('the bytes are UTF-8 but are transcoded as Latin-1')
            elif kind == 'from_utf8':
                if len(a) < 4 or not (isinstance(a[3], IntV) and s2.is_eq0(a[3].lin - mode.lin) is True):
                    probs.append('from_utf8 is not given the validation mode of the call')
            elif kind == 'from_validated':
                if not (av and s2.is_eq0(mode.lin - av[0]) is True):
                    probs.append('the bytes are marked valid although the requested mode may not be assume_valid')
        else:
            und.append('path does not decide utf8_encoded')
    if nret == 0 and not und:
        und.append('no returning path explored')
    run.ob('R16.4', short(f.dem), False if probs else (None if und else True), probs[0] if probs else (und[0] if und else
           'UTF-8 bytes -> from_utf8(raw_buffer(), size(), validation); Latin-1 bytes -> from_latin_1(raw_buffer(), size())'), loc=fn_loc(f))
    return 1


def counted_text(run, m, F):
    """R16.5: text that comes with a length (ST::string, ST::buffer, std::basic_string, std::basic_string_view) keeps it on the way into the
    stream: no member of string_stream hands the storage of such an argument to a parameter that the callee measures as a
    NUL-terminated string (an embedded NUL would end the inserted text early).  Expected count: zero."""
    from .common import counted_roots, cstring_params, measured_at_call
    cs = cstring_params(m, F)
    n = 0
    for name in F.lib:
        f = m.func(name)
        if class_of(f) != 'ST::string_stream':
            continue
        n += 1
        for (i, ts, k) in F.calls[name]:
            for t in ts:
                for ai in sorted(cs.get(t, ())):
                    if ai >= len(i.a) or not measured_at_call(m, t, ai, i):
                        continue
                    own_ = sorted(r[1] for r in counted_roots(m, f, i.a[ai]) if r[0] == 'own')
                    if own_:
                        run.ob('R16.5', short(f.dem), False, 'hands the result of %s() to %s, which measures it as a NUL-terminated string: text after an embedded '
                               'NUL is not inserted (e.g. the two units {x, 0, y})' % (own_[0], short(m.dem(t), 70)), loc=f.loc(i), disc='arg %d' % ai)
    run.ob('R16.5', 'counted text keeps its length on the way into the stream', True, '%d members scanned, %d functions measure a parameter as a C string' % (n, len(cs)))
    return n


def check(run):
    m = run.module()
    F = run.facts()
    E = run.effects()
    run.trust('clang 14 lowering (LLVM IR, -O0, mem2reg)', 'STIR interpreter and its models of char_traits / operator new[] / delete[]',
              'x86-64 LP64; no object exceeds 2^47 bytes')
    run.assume('append sizes describe existing caller memory (< 2^47 bytes)',
               'conversion results inserted by operator<< are those of C01/C03')
    L = own.stream_layout(m)
    run.need(L is not None, 'layout of ST::string_stream not recognised (expected {char*, size_t, size_t, char[N]})')
    nf, direct, derived = funnel(run, m, F, E, L)
    run.counts['to_string dispatch'] = to_string_rule(run, m, F, E, L)
    run.floor('members scanned for counted text handed on as a C string', counted_text(run, m, F), 30)
    run.floor('operator<< overloads', nf, 20)
    ms = [f for f in owner_methods(m, F, E, L)]
    # members that write the stream only through verified members inherit the invariant from them (induction over operations);
    # the ones with stores of their own are interpreted
    core = [f for f in ms if method_kind(f) != 'insert' and f.name not in derived]
    run.floor('mutating members of string_stream (excluding operator<<)', len(core), 9)
    total = 0
    for f in core:
        total += analyse(run, m, F, E, L, f)
    for f in direct:
        total += analyse(run, m, F, E, L, f)
    run.counts['abstract runs (method x scenario)'] = total
