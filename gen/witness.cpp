// Compile-fail witnesses: every line tagged WITNESS(id) must be rejected by the compiler.
// Compiled with -fsyntax-only -ferror-limit=0; an id whose line compiles is reported as a violation
// (the declaration it relies on has changed), an error on an untagged line is analysis-broken.
#include <string_theory/string>
#include <string_theory/string_stream>
#include <string_theory/format>
#include <utility>

#define WITNESS(id)

void witnesses(ST::string &s, const ST::string &cs, ST::char_buffer &b, ST::string_stream &ss,
               _ST_PRIVATE::string_format_writer &fw)
{
    WITNESS(R04.5-data-is-const)        char *p1 = s.data(); (void)p1;
    WITNESS(R04.5-c_str-is-const)       s.c_str()[0] = 'x';
    WITNESS(R04.5-index-is-const)       s[0] = 'x';
    WITNESS(R04.5-at-is-const)          s.at(0) = 'x';
    WITNESS(R04.5-front-is-const)       s.front() = 'x';
    WITNESS(R04.5-back-is-const)        s.back() = 'x';
    WITNESS(R04.5-begin-is-const)       *s.begin() = 'x';
    WITNESS(R04.5-rvalue-view-deleted)  auto v1 = std::move(s).view(); (void)v1;
    WITNESS(R04.5-buffer-rvalue-view-deleted) auto v2 = std::move(b).view(); (void)v2;
    WITNESS(R04.1-buffer-chars-private) b.m_chars = nullptr;
    WITNESS(R04.1-buffer-size-private)  b.m_size = 0;
    WITNESS(R04.1-buffer-data-private)  b.m_data[0] = 0;
    WITNESS(R04.1-string-buffer-private) s.m_buffer.clear();
    WITNESS(R04.1-to-utf8-returns-copy) ST::char_buffer &r1 = cs.to_utf8(); (void)r1;
    WITNESS(R16-stream-not-copyable)    ST::string_stream ss2(ss); (void)ss2;
    WITNESS(R16-stream-not-copy-assignable) ss = ss;
    WITNESS(R16-stream-fields-private)  ss.m_size = 0;
    WITNESS(R17-writer-not-copyable)    _ST_PRIVATE::string_format_writer fw2(fw); (void)fw2;
}
