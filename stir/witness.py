"""Compile-fail witnesses (one batched -fsyntax-only run)."""
import os
import re
import subprocess
import tempfile

from . import frontend


def run_witnesses(repo=None):
    """Returns (results: {id: (rejected?, first diagnostic)}, stray_errors: [text])."""
    repo = repo or frontend.REPO
    src = os.path.join(frontend.VERIF, 'gen', 'witness.cpp')
    ids = {}
    with open(src) as fp:
        for n, line in enumerate(fp, 1):
            m = re.search(r'WITNESS\(([^)]+)\)', line)
            if m and not line.lstrip().startswith('#') and not line.lstrip().startswith('//'):
                ids[n] = m.group(1)
    work = tempfile.mkdtemp(prefix='stv_wit_')
    try:
        with open(os.path.join(work, 'st_config.h'), 'w') as fp:
            fp.write(frontend.make_config_h(repo))
        cmd = ['clang++', '-std=c++20', '-fsyntax-only', '-ferror-limit=0', '-Wno-everything', '-fno-caret-diagnostics',
               '-I' + os.path.join(repo, 'include'), '-I' + work, src]
        r = subprocess.run(cmd, stdout=subprocess.PIPE, stderr=subprocess.STDOUT)
        out = r.stdout.decode(errors='replace')
    finally:
        for f in os.listdir(work):
            os.remove(os.path.join(work, f))
        os.rmdir(work)
    res = dict((i, (False, '')) for i in ids.values())
    stray = []
    for line in out.splitlines():
        m = re.match(r'^(.*?):(\d+):(\d+): (fatal error|error): (.*)$', line)
        if not m:
            continue
        path, ln, msg = m.group(1), int(m.group(2)), m.group(5)
        if os.path.abspath(path) == os.path.abspath(src) and ln in ids:
            if not res[ids[ln]][0]:
                res[ids[ln]] = (True, msg)
        else:
            stray.append(line)
    return res, stray
