"""Flow-sensitive ordering of effect events on a function's CFG (forward may-analysis).

Events per instruction come from the effect summaries (stores / calls that may write, move from or read memory
reachable from a parameter) and from the throw sets (calls that may raise a given exception type, after landing-pad
filtering).  A rule asks: can an event of kind B occur after an event of kind A on some CFG path?
"""


def call_user_throws(F, fname, i, ts, kind, types):
    if i.callee == '__cxa_throw':
        # a throw expression of the function itself: the type thrown is the typeinfo operand
        from .facts import strip_casts, typeinfo_name
        ti = strip_casts(i.a[1])
        s = set([typeinfo_name(F.m, ti[1]) if ti[0] == 'g' else 'UNKNOWN:throw'])
        if i.op == 'invoke':
            s = F.through_pad(fname, i.d['unwind'], s)
        return set(t for t in s if t in types)
    s = F.call_throws(i, ts, kind)
    if not s:
        return set()
    if i.op == 'invoke':
        s = F.through_pad(fname, i.d['unwind'], s)
    return set(t for t in s if t in types)


def after_pairs(F, E, f, first_pred, later_pred):
    """first_pred(inst, evs) -> label or None (arming event);  later_pred(inst, evs, throws_fn) -> label or None.
    Returns list of (first_inst, first_label, later_inst, later_label)."""
    evs = {}
    for (i, kind, p) in E.events(f.name):
        evs.setdefault(i.id, []).append((kind, p))
    calls = dict((i.id, (ts, kind)) for (i, ts, kind) in F.calls[f.name])
    nb = len(f.blocks)
    IN = [None] * nb
    IN[0] = {}
    work = [0]
    found = {}
    iters = 0
    while work:
        b = work.pop()
        iters += 1
        if iters > 20 * nb + 200:
            break
        flags = dict(IN[b])
        for i in f.blocks[b].insts:
            e = evs.get(i.id, ())
            tf = None
            if i.op in ('call', 'invoke'):
                ts, kind = calls.get(i.id, ([], 'direct'))
                tf = (lambda types, i=i, ts=ts, kind=kind: call_user_throws(F, f.name, i, ts, kind, types))
            if flags:
                lab = later_pred(i, e, tf)
                if lab is not None:
                    for fl, (fi, flab) in flags.items():
                        key = (fi.id, i.id, fl, lab)
                        if key not in found:
                            found[key] = (fi, flab, i, lab)
            a = first_pred(i, e)
            if a is not None:
                for (fl, flab) in a:
                    if fl not in flags:
                        flags[fl] = (i, flab)
        for s in f.blocks[b].succs():
            cur = IN[s]
            if cur is None:
                IN[s] = dict(flags)
                work.append(s)
            else:
                grew = False
                for k, v in flags.items():
                    if k not in cur:
                        cur[k] = v
                        grew = True
                if grew:
                    work.append(s)
    return list(found.values())
