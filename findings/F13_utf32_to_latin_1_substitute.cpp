#include <string_theory/utf_conversion>
#include <cstdio>
int main() {
    const char32_t in[] = { 'A', 0x110000, 'z', 0 };     // one invalid UTF-32 unit between two valid ones
    try {
        ST::char_buffer r = ST::utf32_to_latin_1(in, 3, ST::substitute_invalid, false);
        if (r.size() == 3 && r.data()[0] == 'A' && r.data()[1] == '?' && r.data()[2] == 'z') { puts("OK"); return 0; }
        printf("unexpected result of size %zu\n", r.size()); return 1;
    } catch (const ST::unicode_error &e) {
        printf("substitute_invalid threw: %s\n", e.what()); return 1;
    }
}
