"""Helpers shared by the rule modules."""
import re

LIB_TYPE_RE = re.compile(r'^(?:ST::string|ST::buffer<[^>]*>|ST::string_stream|ST::format_spec|ST::conversion_result)\b')


def short(dem, n=110):
    return dem if len(dem) <= n else dem[:n - 3] + '...'


def fn_loc(f):
    return '%s:%d' % (f.file, f.line)


def is_ctor(f):
    base = f.dem.split('(')[0]
    parts = base.split('::')
    if len(parts) < 2:
        return False
    cls = re.sub(r'<.*>$', '', parts[-2])
    return parts[-1] == cls


def is_dtor(f):
    base = f.dem.split('(')[0]
    return '::~' in base


def class_of(f):
    """Demangled qualified class name of a member function ('' for free functions)."""
    base = f.dem
    # strip parameter list
    depth = 0
    cut = len(base)
    for k, c in enumerate(base):
        if c == '<':
            depth += 1
        elif c == '>':
            depth -= 1
        elif c == '(' and depth == 0:
            cut = k
            break
    base = base[:cut]
    # a leading return type ("ST::string_stream& ST::string_stream::append_signed<unsigned int>"): keep what follows the last top-level space
    depth = 0
    sp = -1
    for k, c in enumerate(base):
        if c == '<':
            depth += 1
        elif c == '>':
            depth -= 1
        elif c == ' ' and depth == 0:
            sp = k
    if sp >= 0 and not base[sp + 1:].startswith('const') and 'operator' not in base[:sp + 1].split('::')[-1]:
        base = base[sp + 1:]
    # split on top-level '::'
    parts = []
    depth = 0
    cur = ''
    k = 0
    while k < len(base):
        c = base[k]
        if c == '<':
            depth += 1
        elif c == '>':
            depth -= 1
        if depth == 0 and base.startswith('::', k):
            parts.append(cur)
            cur = ''
            k += 2
            continue
        cur += c
        k += 1
    parts.append(cur)
    if len(parts) < 2:
        return ''
    # return type prefix of templates ("void ST::foo<...>") may sit in parts[0]
    parts[0] = parts[0].split(' ')[-1]
    return '::'.join(parts[:-1])


WIDE_RE = re.compile(r'\b(?:w|wo|ld|pun|ret|uninit|sw|inttoptr|gep|intr|ev|end|cpy|fill|n|len|trunc|shl|lshr|mul|xor|ov|sel|v)#\d+')


def abstract_atoms(x):
    """Names of symbols that stand for lost precision rather than for an input: widened loop values (constrained only by the
    verified invariants), results of havoc'd calls, reads of havoc'd memory, opaque operations."""
    return set(WIDE_RE.findall(repr(x)))


def robust(lins):
    """A mismatch between these terms does not depend on where in the abstraction of a loop the state lies."""
    return not abstract_atoms(lins)


def strip_mod(l, bits):
    """Replace mod(x, b) / smod(x, b) atoms with b >= bits by x: valid modulo 2^bits."""
    from ..terms import Lin
    out = Lin.const(l.c)
    for a, k in l.t:
        if isinstance(a, tuple) and a[0] in ('mod', 'smod') and a[2] >= bits and isinstance(a[1], Lin):
            out = out + strip_mod(a[1], bits).scale(k)
        else:
            out = out + Lin.atom(a, k)
    return out


def congruent(st, a, b, bits):
    """a == b modulo 2^bits (unsigned wrap-around arithmetic of the library is legitimate)."""
    d = strip_mod(a - b, bits)
    if not d.t:
        return d.c % (1 << bits) == 0
    return st.is_eq0(d) is True


# ------------------------------------------------------------------------------------------------
# loop-carried slots: where a term over the values at the head of an iteration lies in the next iteration / at loop entry

def _slot_term(v):
    from ..state import IntV, PtrV
    if isinstance(v, PtrV) and v.obj is not None:
        return v.off
    if isinstance(v, IntV):
        return v.lin
    return None


def slot_subst(begin, other):
    """Map {atom of a carried slot at the head of the iteration -> its term in `other` (end of the iteration, or loop entry)};
    None for slots whose head value is not a single fresh symbol."""
    out = {}
    for nm, bv in begin.items():
        bt = _slot_term(bv)
        ot = _slot_term(other.get(nm))
        if bt is None:
            continue
        sa = bt.single_atom()
        if sa is None or sa[1] != 1 or sa[2] != 0:
            continue
        out[sa[0]] = ot
    return out


def subst(lin, mp):
    """lin with every carried-slot atom replaced through mp; None if a needed replacement is unknown or the atom occurs inside a
    non-linear operator (where a linear substitution would not be the value of the next iteration)."""
    from ..terms import Lin, base_atoms
    out = Lin.const(lin.c)
    for a, k in lin.t:
        if a in mp:
            if mp[a] is None:
                return None
            out = out + mp[a].scale(k)
        else:
            if not isinstance(a, str):
                inner = set()
                base_atoms(Lin.atom(a), inner)
                if inner & set(mp):
                    return None
            out = out + Lin.atom(a, k)
    return out


# ------------------------------------------------------------------------------------------------
# finite case analysis over unit-sized symbols

def unit_models(st, atoms, limit=1 << 17):
    """All assignments of the given small-range atoms (units: at most 256 values each) that satisfy every fact of the path which
    mentions only those atoms (ranges, >= facts, != facts, refined ranges of masks / shifts / extensions of them).
    Returns (list of env dicts, mixed) - mixed: some fact ties one of the atoms to other symbols and was left out (the list is
    then an over-approximation) - or (None, reason) when the enumeration is not possible."""
    from ..terms import Lin, base_atoms, eval_lin, eval_atom
    from ..state import DERIVED
    atoms = list(atoms)
    rngs = []
    total = 1
    for a in atoms:
        lo, hi = st.arange(a)
        if hi - lo > 255:
            return None, 'a symbol wider than one unit'
        rngs.append((lo, hi))
        total *= (hi - lo + 1)
    if total > limit:
        return None, 'too many unit combinations'
    mine = set(atoms)
    mixed = False
    rel_ge, rel_ne = [], []
    for fct, dst in [(x, rel_ge) for x in st.facts] + [(x, rel_ne) for x in st.nefacts]:
        fa = base_atoms(fct)
        if fa & mine:
            if fa <= mine:
                dst.append(fct)
            else:
                mixed = True
    derived = [(a2, r2) for a2, r2 in st.rng.items() if isinstance(a2, tuple) and a2[0] in DERIVED and base_atoms(Lin.atom(a2)) <= mine]
    out = []
    env = {}

    def rec(i):
        if i == len(atoms):
            try:
                if any(eval_lin(x, env) < 0 for x in rel_ge) or any(eval_lin(x, env) == 0 for x in rel_ne):
                    return
                if any(not (r2[0] <= eval_atom(a2, env) <= r2[1]) for a2, r2 in derived):
                    return
            except KeyError:
                raise
            out.append(dict(env))
            return
        for v in range(rngs[i][0], rngs[i][1] + 1):
            env[atoms[i]] = v
            rec(i + 1)
    try:
        rec(0)
    except KeyError as e:
        return None, 'a fact that cannot be evaluated (%s)' % (e,)
    return out, mixed


# ------------------------------------------------------------------------------------------------
# where a pointer operand comes from (SSA, after mem2reg)

OWN_ACCESSOR_RE = re.compile(r'^(ST::string::(c_str|data|begin|cbegin|end|cend)\(|ST::buffer<[^>]*>::(data|c_str|begin|cbegin|end|cend)\(|'
                             r'ST::string_stream::raw_buffer\()')


def pointer_roots(m, f, op, depth=0, seen=None):
    """Roots of a pointer operand through casts, address arithmetic, phi and select: a set of
    ('own', callee)   result of a storage accessor (c_str(), data(), begin(), ...) of a string / buffer object
    ('param', k)      a pointer parameter of the function itself (k-th IR parameter)
    ('const',)        null / a constant global
    ('other', what)   anything else (a load, another call, ...): provenance not known"""
    if seen is None:
        seen = set()
    if op[0] in ('n', 'g', 'ce', 'z', 'u'):
        return set([('const',)])
    if op[0] != 'v':
        return set([('other', op[0])])
    if op[1] in seen or depth > 12:
        return set()
    seen.add(op[1])
    if op[1] < f.nargs:
        return set([('param', op[1])])
    i = f.inst(op[1])
    if i is None:
        return set([('other', 'unknown value')])
    if i.op in ('bitcast', 'addrspacecast'):
        return pointer_roots(m, f, i.a[0], depth + 1, seen)
    if i.op == 'getelementptr':
        return pointer_roots(m, f, i.d['base'], depth + 1, seen)
    if i.op == 'phi':
        out = set()
        for x in i.d.get('inc', []):
            out |= pointer_roots(m, f, x[0], depth + 1, seen)
        return out
    if i.op == 'select':
        return pointer_roots(m, f, i.a[1], depth + 1, seen) | pointer_roots(m, f, i.a[2], depth + 1, seen)
    if i.op in ('call', 'invoke') and i.callee:
        d = m.dem(i.callee)
        if OWN_ACCESSOR_RE.match(d):
            return set([('own', d.split('(')[0])])
        return set([('other', 'result of ' + d.split('(')[0][:60])])
    return set([('other', i.op)])


COUNTED_ACCESSOR_RE = re.compile(r'^(ST::string::(c_str|data)\(|ST::buffer<[^>]*>::(data|c_str)\(|'
                                 r'std::(__cxx11::)?basic_string<.*>::(c_str|data)\(\)|std::basic_string_view<.*>::data\(\))')
LENGTH_RE = re.compile(r'^(std::char_traits<[\w ]+>::length\(|ST::buffer<[^>]*>::strlen\()')
LENGTH_C = ('strlen', 'wcslen')


def counted_roots(m, f, op, depth=0, seen=None):
    """Like pointer_roots, with the accessors of every counted text type (ST::string, ST::buffer, std::basic_string,
    std::basic_string_view) as 'own' roots."""
    if seen is None:
        seen = set()
    if op[0] != 'v':
        return set([('const',)]) if op[0] in ('n', 'g', 'ce', 'z', 'u') else set([('other', op[0])])
    if op[1] in seen or depth > 12:
        return set()
    seen.add(op[1])
    if op[1] < f.nargs:
        return set([('param', op[1])])
    i = f.inst(op[1])
    if i is None:
        return set([('other', 'unknown value')])
    if i.op in ('bitcast', 'addrspacecast'):
        return counted_roots(m, f, i.a[0], depth + 1, seen)
    if i.op == 'getelementptr':
        return counted_roots(m, f, i.d['base'], depth + 1, seen)
    if i.op == 'phi':
        out = set()
        for x in i.d.get('inc', []):
            out |= counted_roots(m, f, x[0], depth + 1, seen)
        return out
    if i.op == 'select':
        return counted_roots(m, f, i.a[1], depth + 1, seen) | counted_roots(m, f, i.a[2], depth + 1, seen)
    if i.op in ('call', 'invoke') and i.callee:
        d = m.dem(i.callee)
        if COUNTED_ACCESSOR_RE.match(d):
            return set([('own', d.split('(')[0])])
        return set([('other', 'result of ' + d.split('(')[0][:60])])
    return set([('other', i.op)])


def cstring_params(m, F):
    """{function name: set of IR parameter indices that the function (or a function it forwards the parameter to) measures as a
    NUL-terminated string}: the parameter reaches char_traits<T>::length / strlen.  Least fixpoint over the library's call graph."""
    res = {}
    changed = True
    rounds = 0
    while changed and rounds < 8:
        changed = False
        rounds += 1
        for name in F.lib:
            f = m.func(name)
            for (i, ts, k) in F.calls[name]:
                for t in ts:
                    d = m.dem(t)
                    targets = None
                    if t in LENGTH_C or LENGTH_RE.match(d):
                        targets = [0] if not LENGTH_RE.match(d) or 'ST::buffer' not in d else [0]
                    elif t in res:
                        targets = sorted(res[t])
                    if not targets:
                        continue
                    for ai in targets:
                        if ai >= len(i.a):
                            continue
                        if t in res and not measured_at_call(m, t, ai, i):
                            continue
                        for r in pointer_roots(m, f, i.a[ai]):
                            if r[0] == 'param' and r[1] not in res.get(name, set()):
                                res.setdefault(name, set()).add(r[1])
                                changed = True
    return res


def measured_at_call(m, callee, ai, call):
    """The callee measures parameter ai as a C string at this call: the parameter stands alone, or the count that accompanies it is
    passed as the all-ones "measure it yourself" constant (ST_AUTO_SIZE)."""
    g = m.func(callee) if m.has(callee) else None
    if g is None:
        return True
    if ai + 1 < len(g.params) and g.params[ai + 1]['ty'] == 'i64':
        nxt = call.a[ai + 1] if ai + 1 < len(call.a) else None
        return isinstance(nxt, list) and len(nxt) >= 2 and nxt[0] == 'i' and nxt[1] == (1 << 64) - 1
    return True


def _operand_ids(a, out):
    if isinstance(a, (list, tuple)):
        if len(a) >= 2 and a[0] == 'v' and isinstance(a[1], int):
            out.add(a[1])
        else:
            for x in a:
                _operand_ids(x, out)
    return out


def tainted_insts(fn, param_index):
    """SSA forward closure of a parameter inside its function: ids of the instructions whose value is computed from it
    (the parameter's own id included)."""
    t = set([param_index])
    changed = True
    while changed:
        changed = False
        for i in fn.all_insts():
            if i.id in t:
                continue
            if _operand_ids(i.a, set()) & t:
                t.add(i.id)
                changed = True
    return t


def taint_uses(fn, param_index):
    """(blocks in which a value computed from the parameter decides a branch / switch / select, call instructions that are handed
    such a value)."""
    t = tainted_insts(fn, param_index)
    blocks, calls = set(), []
    for i in fn.all_insts():
        ops = _operand_ids(i.a, set())
        if not (ops & t):
            continue
        if i.op in ('br', 'switch', 'select'):
            blocks.add(i.block)
        elif i.op in ('call', 'invoke'):
            calls.append(i)
    return blocks, calls
