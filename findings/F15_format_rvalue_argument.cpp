#include <string_theory/format>
#include <cstdio>
int main() {
    ST::string s = ST_LITERAL("a value that is long enough to live on the heap");
    const ST::string before = s;
    try {
        (void)ST::format("{} {", std::move(s));        // unterminated specifier -> ST::bad_format
        puts("no exception?"); return 2;
    } catch (const ST::bad_format &) { }
    if (s != before) { printf("rvalue argument lost its value although format threw: size %zu -> %zu\n", before.size(), s.size()); return 1; }
    puts("OK"); return 0;
}
