#!/usr/bin/env python3
"""Validate MANIFEST.json and evidence/*.json against the schemas (run with python3-vt: needs jsonschema)."""
import glob, json, sys
import jsonschema
ok = True
man = json.load(open('/verif/MANIFEST.json'))
try:
    jsonschema.validate(man, json.load(open('/root/.vp/MANIFEST.schema.json')))
    print('MANIFEST ok: %d checks, %d not_applicable' % (len(man['checks']), len(man.get('not_applicable', []))))
except jsonschema.ValidationError as e:
    ok = False; print('MANIFEST INVALID', e.message)
sc = json.load(open('/root/.vp/EVIDENCE.schema.json'))
ids = set()
for c in man['checks']:
    ids.add(c['property_id'])
    try:
        ev = json.load(open(c['evidence_file']))
        jsonschema.validate(ev, sc)
        lv = c['level_claimed']['category']
        if ev['level'] != lv:
            ok = False; print('LEVEL MISMATCH', c['property_id'], ev['level'], lv)
        cov = ev['coverage']
        print('  %s %s ob=%s dis=%s und=%s wall=%ss' % (c['property_id'], ev['level'], cov.get('obligations'), cov.get('discharged'), cov.get('undecided'), ev['wall_s']))
    except Exception as e:
        ok = False; print('EVIDENCE PROBLEM', c['property_id'], str(e)[:300])
props = [json.loads(l)['id'] for l in open('/verif/properties.jsonl')]
na = set(x['property_id'] for x in man.get('not_applicable', []))
for p in props:
    if p not in ids and p not in na:
        ok = False; print('property neither claimed nor not_applicable:', p)
    if p in ids and p in na:
        ok = False; print('property both claimed and not_applicable:', p)
sys.exit(0 if ok else 1)
