"""STIR: a forward, path-sensitive abstract interpreter over the mem2reg'd LLVM IR dump.

Inputs are never concrete: integers are linear terms over symbols with interval ranges and a set of
ordering facts harvested from branch conditions; pointers are (object, byte offset term); memory is
a set of abstract objects.  Undecided branches fork; loops are unrolled abstractly a bounded number
of times and then widened (loop-carried values havoc'd, candidate invariants verified inductive);
calls are modelled, interpreted in the callee, or havoc'd according to effect summaries.
"""
import re

from .terms import Lin, L, ZERO, ONE, atom_str
from .state import (State, Frame, Obj, IntV, PtrV, TopV, AggV, NULL, INF, MAXLEN, ADDR_BITS)
from . import facts as factsmod
from .ir import is_ptr, int_bits


class Budget(Exception):
    pass


class Unmodelled(Exception):
    pass


class Outcome(object):
    __slots__ = ('kind', 'st', 'val', 'info')

    def __init__(self, kind, st, val=None, info=None):
        self.kind = kind      # ret | throw | abort | backedge | stuck | unreachable
        self.st = st
        self.val = val
        self.info = info

    def __repr__(self):
        return '<%s %r %r>' % (self.kind, self.val, self.info)


class Hooks(object):
    """Rule-specific policy; subclass and override."""
    max_depth = 12
    max_paths = 20000
    max_steps = 400000
    unroll = 1
    split_wrap = False
    fork_throw_types = ()         # exception type names on which modelled/havoc'd calls fork an unwind path
    fork_bad_alloc = False
    inline_std = True

    def call(self, I, st, inst, name, args):
        """Return None (default handling) or a list of (state, value) continuations
        (an empty list ends the path; use I.end_path for outcomes)."""
        return None

    def should_inline(self, I, name, fn):
        return True

    def on_cond(self, I, st, inst, c):
        """A value is about to decide a branch / switch / select (for rules that ask whether a path consulted some input)."""
        pass

    def snprintf_may_fail(self, I, st, inst, args, snap):
        """Can this snprintf call return a negative value?  POSIX: EOVERFLOW when the rendering would be longer than INT_MAX, which
        takes a precision or a field width in the conversion string (or a %s argument of that length).  Default: a string literal
        without '.', '*' or a digit cannot; any other conversion string (built at run time, or with a precision / width) can."""
        data = snap[3] if snap is not None and len(snap) > 3 else None
        p = snap[2] if snap is not None else None
        if data is not None and isinstance(p, PtrV) and not p.off.t and 0 <= p.off.c < len(data):
            for b in data[p.off.c:]:
                if b == 0:
                    return False
                if chr(b & 0xFF) in '.*0123456789s':
                    return True
        return True

    def unroll_for(self, I, fn, header, st=None):
        """Number of exactly interpreted iterations of the loop at `header` before it is abstracted (default: the same for all)."""
        return self.unroll

    def on_backedge(self, I, st, header):
        pass

    def loop_candidates(self, I, st, fn, header, phis):
        return []

    def on_access(self, I, st, inst, kind, ptr, nbytes):
        pass

    widen_on_entry = False
    widen_keep_same = True
    split_sign = True

    def on_store(self, I, st, inst, ptr, value, nbytes):
        pass

    def widen_value(self, I, st, fn, header, name, current):
        """Replacement for a loop-carried slot at widening (None = default havoc with candidate invariants)."""
        return None


TRAITS_RE = re.compile(r'^std::char_traits<([\w ]+)>::(\w+)\(')
ELT = {'char': 1, 'wchar_t': 4, 'char16_t': 2, 'char32_t': 4, 'char8_t': 1}


def loop_info(fn):
    """Back edges and natural loops of a function: {header: set(blocks)}, set of (src, header)."""
    cached = getattr(fn, '_loopinfo', None)
    if cached is not None:
        return cached
    succs = dict((b.id, b.succs()) for b in fn.blocks)
    color = {}
    back = set()
    stack = [(0, iter(succs[0]))]
    color[0] = 1
    while stack:
        n, it = stack[-1]
        adv = False
        for s in it:
            c = color.get(s, 0)
            if c == 0:
                color[s] = 1
                stack.append((s, iter(succs[s])))
                adv = True
                break
            elif c == 1:
                back.add((n, s))
        if not adv:
            color[n] = 2
            stack.pop()
    preds = fn.preds()
    loops = {}
    for (src, h) in back:
        body = loops.setdefault(h, set([h]))
        work = [src]
        while work:
            x = work.pop()
            if x in body:
                continue
            body.add(x)
            work.extend(preds[x])
    fn._loopinfo = (loops, back)
    return fn._loopinfo


class Interp(object):
    def __init__(self, module, F=None, E=None, hooks=None):
        self.m = module
        self.F = F
        self.E = E
        self.h = hooks or Hooks()
        self.n = 0
        self.paths = 0
        self.steps = 0
        self.inv_disabled = set()
        self.inv_failed = set()
        self.inv_used = {}
        self.typeids = {}
        self.log = []

    # ------------------------------------------------------------------ fresh names
    def fresh(self, prefix):
        self.n += 1
        return '%s#%d' % (prefix, self.n)

    def fresh_int(self, st, bits, prefix='v', signed=False, lo=None, hi=None):
        a = self.fresh(prefix)
        if signed:
            r = (-(1 << (bits - 1)), (1 << (bits - 1)) - 1)
        else:
            r = (0, (1 << bits) - 1)
        if lo is not None:
            r = (max(r[0], lo), r[1])
        if hi is not None:
            r = (r[0], min(r[1], hi))
        st.rng[a] = r
        return IntV(bits, Lin.atom(a), 's' if signed else 'u')

    def new_obj(self, st, kind, size=None, name=None, lazy=False):
        oid = self.fresh(name or kind)
        st.objs[oid] = Obj(kind, size, lazy)
        return oid

    def fresh_ptr(self, st, why='ext', maynull=False):
        oid = self.new_obj(st, 'ext', None, why, lazy=True)
        nz = None
        if maynull:
            nz = self.fresh('nz')
            st.rng[nz] = (0, 1)
        return PtrV(oid, ZERO, nz)

    def fresh_for_type(self, st, ty, why='v'):
        b = int_bits(ty)
        if b is not None:
            return self.fresh_int(st, b, why)
        if is_ptr(ty):
            return self.fresh_ptr(st, why, maynull=True)
        return TopV(why)

    # ------------------------------------------------------------------ integer views
    def ulin(self, st, v):
        """Term equal to the unsigned value of v, or None."""
        if v.kind == 'u':
            return v.lin
        lo, hi = st.range(v.lin)
        if lo >= 0:
            return v.lin
        if hi < 0:
            return v.lin + (1 << v.bits)
        return None

    def slin(self, st, v):
        if v.kind == 's':
            return v.lin
        lo, hi = st.range(v.lin)
        half = 1 << (v.bits - 1)
        if hi < half:
            return v.lin
        if lo >= half:
            return v.lin - (1 << v.bits)
        return None

    def as_u(self, st, v):
        l = self.ulin(st, v)
        if l is None:
            a = ('mod', v.lin, v.bits)
            if a not in st.rng:
                st.rng[a] = (0, (1 << v.bits) - 1)
            l = Lin.atom(a)
        return l

    def as_s(self, st, v):
        l = self.slin(st, v)
        if l is None:
            a = ('smod', v.lin, v.bits)
            if a not in st.rng:
                st.rng[a] = (-(1 << (v.bits - 1)), (1 << (v.bits - 1)) - 1)
            l = Lin.atom(a)
        return l

    def mk_u(self, st, bits, lin, inst=None, what=''):
        """Unsigned value lin reduced modulo 2^bits; may fork on wrap when hooks.split_wrap."""
        lo, hi = st.range(lin)
        M = 1 << bits
        if lo >= 0 and hi < M:
            return IntV(bits, lin, 'u')
        if lo >= M and hi < 2 * M:
            return IntV(bits, lin - M, 'u')
        if lo >= -M and hi < 0:
            return IntV(bits, lin + M, 'u')
        if not lin.t:
            return IntV(bits, Lin.const(lin.c % M), 'u')
        if lo >= -(M >> 1) and hi < (M >> 1):
            # the two's-complement pattern of a value in the signed range: exact in the signed view
            return IntV(bits, lin, 's')
        st.ev('maywrap', inst, what, lin, bits)
        a = ('mod', lin, bits)
        if a not in st.rng:
            st.rng[a] = (0, M - 1)
        return IntV(bits, Lin.atom(a), 'u')

    def mk_s(self, st, bits, lin, inst=None, what=''):
        lo, hi = st.range(lin)
        H = 1 << (bits - 1)
        if lo >= -H and hi < H:
            return IntV(bits, lin, 's')
        if not lin.t:
            v = lin.c % (1 << bits)
            return IntV(bits, Lin.const(v - (1 << bits) if v >= H else v), 's')
        if lo >= 0 and hi < (1 << bits):
            # outside the signed range but a valid unsigned pattern (e.g. 0 - x for x = INT_MIN)
            return IntV(bits, lin, 'u')
        a = ('smod', lin, bits)
        if a not in st.rng:
            st.rng[a] = (-H, H - 1)
        return IntV(bits, Lin.atom(a), 's')

    def const_int(self, bits, val):
        return IntV(bits, Lin.const(val), 'u')

    # ------------------------------------------------------------------ operand evaluation
    def val(self, st, op, ty=None):
        k = op[0]
        if k == 'v':
            v = st.frame.regs.get(op[1])
            if v is None:
                raise Unmodelled('use of undefined value %%%d in %s' % (op[1], st.frame.fn.dem))
            return v
        if k == 'i':
            return IntV(op[2], Lin.const(op[1]), 'u')
        if k == 'n':
            return NULL
        if k == 'u':
            return TopV('undef')
        if k == 'g':
            return PtrV(self.global_obj(st, op[1]), ZERO)
        if k == 'ce':
            return self.const_expr(st, op)
        if k == 'f':
            return TopV('fp')
        if k == 'z':
            return TopV('zeroinit')
        return TopV('const')

    def const_expr(self, st, op):
        name = op[1]
        if name in ('bitcast', 'addrspacecast'):
            return self.val(st, op[3][0])
        if name == 'getelementptr':
            base = self.val(st, op[3][0])
            extra = op[4] if len(op) > 4 else {}
            off = extra.get('off')
            if isinstance(base, PtrV) and off is not None:
                return PtrV(base.obj, base.off + off, base.nz)
            return TopV('cegep')
        if name == 'ptrtoint':
            p = self.val(st, op[3][0])
            return self.ptrtoint(st, p, 64)
        if name == 'inttoptr':
            return self.fresh_ptr(st, 'inttoptr')
        return TopV('ce:' + name)

    def global_obj(self, st, name):
        name = self.m.resolve(name)
        oid = 'G:' + name
        if oid not in st.objs:
            g = self.m.globals.get(name)
            size = None
            o = Obj('global', None, lazy=True)
            if g is not None:
                o.attrs['const'] = g.get('const', False)
                init = g.get('init')
                ty_ = g.get('ty', '')
                if isinstance(init, list) and init and all(isinstance(x, list) for x in init) and re.match(r'^<\{ (\[\d+ x i8\](, )?)+ \}>$', ty_):
                    # a character array with a zero tail is emitted as a packed struct of byte arrays: the same bytes, flattened
                    flat = [b_ for part in init for b_ in part]
                    if all(isinstance(x, int) for x in flat):
                        init = flat
                        ty_ = '[%d x i8]' % len(flat)
                        g = dict(g, ty=ty_)
                if isinstance(init, list) and init and re.match(r'^(\[\d+ x )+i8\*\]+$', ty_):
                    # a constant table of pointers (e.g. of string literals), possibly multi-dimensional: flattened operand encodings
                    def flat_ptrs(x):
                        if isinstance(x, list) and x and isinstance(x[0], str):
                            return [x]
                        out_ = []
                        for y in x:
                            out_ += flat_ptrs(y)
                        return out_
                    try:
                        o.attrs['ptrdata'] = flat_ptrs(init)
                    except Exception:
                        pass
                ms_ = re.match(r'^\[(\d+) x %"?(struct\.[^"\]]+)"?\]$', ty_)
                if ms_ and isinstance(init, list) and len(init) == int(ms_.group(1)) and all(isinstance(x, list) for x in init):
                    # a constant table of records with integer fields: one constant cell per field
                    sd = self.m.structs.get(ms_.group(2))
                    if sd and not sd.get('opaque') and all(re.match(r'^i\d+$', fl_[0]) for fl_ in sd['fields']) and \
                            all(len(x) == len(sd['fields']) and all(isinstance(y, int) for y in x) for x in init):
                        cm = {}
                        for k_, rec_ in enumerate(init):
                            for fl_, v_ in zip(sd['fields'], rec_):
                                cm[k_ * sd['size'] + fl_[1]] = (int(fl_[0][1:]) // 8, v_)
                        o.attrs['cellmap'] = cm
                        o.size = Lin.const(len(init) * sd['size'])
                if isinstance(init, list) and init and all(isinstance(x, int) for x in init):
                    o.attrs['data'] = init
                    m = re.match(r'\[(\d+) x i(\d+)\]', g.get('ty', ''))
                    if m:
                        o.attrs['eltbytes'] = int(m.group(2)) // 8
                        o.size = Lin.const(int(m.group(1)) * (int(m.group(2)) // 8))
            elif self.m.has(name) or name in self.m.decls:
                o.kind = 'function'
                o.attrs['fn'] = name
            st.objs[oid] = o
        return oid

    def ptrtoint(self, st, p, bits):
        if not isinstance(p, PtrV):
            return self.fresh_int(st, bits, 'p2i')
        if p.obj is None:
            return self.const_int(bits, 0)
        a = 'addr:' + p.obj
        if a not in st.rng:
            st.rng[a] = (4096, (1 << ADDR_BITS) - 1)
        return IntV(bits, Lin.atom(a) + p.off, 'u')

    # ------------------------------------------------------------------ conditions
    def mk_bool(self, st, cond):
        a = ('b',) + cond if False else None
        key = ('cond', cond)
        name = self.condnames.get(key) if hasattr(self, 'condnames') else None
        if not hasattr(self, 'condnames'):
            self.condnames = {}
        name = self.condnames.get(key)
        if name is None:
            name = self.fresh('c')
            self.condnames[key] = name
        st.conds[name] = cond
        if name not in st.rng:
            st.rng[name] = (0, 1)
        return IntV(1, Lin.atom(name), 'u')

    def cond_of(self, st, v):
        """Condition tuple of a boolean-like integer value, or None."""
        if isinstance(v, IntV):
            sa = v.lin.single_atom()
            if sa is not None and sa[1] == 1 and sa[2] == 0 and sa[0] in st.conds:
                return st.conds[sa[0]]
        return None

    def cond_atoms(self, st, c, out=None, depth=0):
        """Base atoms of the terms a boolean-like value was computed from (through comparisons and their combinations)."""
        from .terms import base_atoms
        if out is None:
            out = set()
        if isinstance(c, IntV):
            cond = self.cond_of(st, c)
            if cond is None:
                base_atoms(c.lin, out)
            else:
                self._cond_atoms(st, cond, out, depth)
        elif isinstance(c, PtrV) and c.off is not None:
            base_atoms(c.off, out)
        return out

    def _cond_atoms(self, st, cond, out, depth):
        from .terms import base_atoms
        if depth > 6 or not isinstance(cond, tuple):
            return
        for x in cond[1:]:
            if isinstance(x, (IntV, PtrV)):
                self.cond_atoms(st, x, out, depth + 1)
            elif isinstance(x, Lin):
                base_atoms(x, out)
            elif isinstance(x, tuple):
                self._cond_atoms(st, x, out, depth + 1)
            elif isinstance(x, str) and cond[0] == 'nz':
                out.add(x)

    def neg(self, cond):
        if cond[0] == 'not':
            return cond[1]
        return ('not', cond)

    def decide(self, st, cond):
        k = cond[0]
        if k == 'not':
            r = self.decide(st, cond[1])
            return None if r is None else (not r)
        if k == 'const':
            return cond[1]
        if k == 'icmp':
            return self.decide_icmp(st, cond[1], cond[2], cond[3])
        if k == 'nz':           # atom != 0
            lo, hi = st.arange(cond[1])
            if lo > 0 or hi < 0:
                return True
            if lo == 0 and hi == 0:
                return False
            return None
        if k == 'and':
            a = self.decide(st, cond[1])
            b = self.decide(st, cond[2])
            if a is False or b is False:
                return False
            if a is True and b is True:
                return True
            return None
        if k == 'or':
            a = self.decide(st, cond[1])
            b = self.decide(st, cond[2])
            if a is True or b is True:
                return True
            if a is False and b is False:
                return False
            return None
        return None

    def ptr_nullness(self, st, p):
        if p.obj is None:
            return True
        if p.nz is None:
            return False
        lo, hi = st.arange(p.nz)
        if lo >= 1:
            return False
        if hi <= 0:
            return True
        return None

    def decide_icmp(self, st, pred, a, b):
        if isinstance(a, PtrV) and isinstance(b, PtrV):
            an, bn = self.ptr_nullness(st, a), self.ptr_nullness(st, b)
            if pred in ('eq', 'ne'):
                r = None
                if an is True and bn is True:
                    r = True
                elif (an is True and bn is False) or (an is False and bn is True):
                    r = False
                elif an is False and bn is False:
                    if a.obj == b.obj:
                        r = st.is_eq0(a.off - b.off)
                    else:
                        oa, ob = st.objs.get(a.obj), st.objs.get(b.obj)
                        if oa is not None and ob is not None and oa.kind in ('alloca', 'heap', 'global', 'owner') and \
                                ob.kind in ('alloca', 'heap', 'global', 'owner'):
                            r = False
                if r is None:
                    return None
                return r if pred == 'eq' else (not r)
            if a.obj is not None and a.obj == b.obj and an is False and bn is False:
                d = b.off - a.off
                return self.decide_rel(st, pred[-2:] if len(pred) == 3 else pred, d)
            return None
        if isinstance(a, IntV) and isinstance(b, IntV):
            if pred in ('eq', 'ne'):
                la, lb = None, None
                if a.kind == b.kind:
                    la, lb = a.lin, b.lin
                else:
                    la, lb = self.ulin(st, a), self.ulin(st, b)
                    if la is None or lb is None:
                        la, lb = self.slin(st, a), self.slin(st, b)
                if la is None or lb is None:
                    return None
                r = st.is_eq0(la - lb)
                if r is None:
                    return None
                return r if pred == 'eq' else (not r)
            if pred[0] == 'u':
                la, lb = self.ulin(st, a), self.ulin(st, b)
            else:
                la, lb = self.slin(st, a), self.slin(st, b)
            if la is None or lb is None:
                return None
            return self.decide_rel(st, pred[1:], lb - la)
        return None

    def decide_rel(self, st, rel, d):
        """rel in lt/le/gt/ge applied as a REL b with d = b - a."""
        if rel == 'lt':
            return st.is_ge0(d - 1)
        if rel == 'le':
            return st.is_ge0(d)
        if rel == 'gt':
            return st.is_ge0(-d - 1)
        if rel == 'ge':
            return st.is_ge0(-d)
        return None

    def assume(self, st, cond, truth=True):
        """Refine st with cond == truth; returns False if infeasible."""
        if not self._assume(st, cond, truth):
            return False
        if st.flags.get('strlinks'):
            return self.apply_links(st)
        return True

    def _assume(self, st, cond, truth=True):
        k = cond[0]
        if k == 'not':
            return self._assume(st, cond[1], not truth)
        if k == 'const':
            return cond[1] == truth
        if k == 'nz':
            a = cond[1]
            if truth:
                return st.assume_ne0(Lin.atom(a))
            return st.assume_eq0(Lin.atom(a))
        if k == 'and':
            if truth:
                return self.assume(st, cond[1], True) and self.assume(st, cond[2], True)
            a = self.decide(st, cond[1])
            b = self.decide(st, cond[2])
            if a is True:
                return self.assume(st, cond[2], False)
            if b is True:
                return self.assume(st, cond[1], False)
            return not (a is True and b is True)
        if k == 'or':
            if not truth:
                return self.assume(st, cond[1], False) and self.assume(st, cond[2], False)
            a = self.decide(st, cond[1])
            b = self.decide(st, cond[2])
            if a is False:
                return self.assume(st, cond[2], True)
            if b is False:
                return self.assume(st, cond[1], True)
            return True
        if k == 'icmp':
            pred, a, b = cond[1], cond[2], cond[3]
            if not truth:
                pred = {'eq': 'ne', 'ne': 'eq', 'ult': 'uge', 'uge': 'ult', 'ugt': 'ule', 'ule': 'ugt',
                        'slt': 'sge', 'sge': 'slt', 'sgt': 'sle', 'sle': 'sgt'}[pred]
            return self.assume_icmp(st, pred, a, b)
        return True

    def assume_icmp(self, st, pred, a, b):
        if isinstance(a, PtrV) and isinstance(b, PtrV):
            if pred in ('eq', 'ne'):
                # nullness refinement
                for p, q in ((a, b), (b, a)):
                    if q.obj is None and p.obj is not None:
                        if p.nz is None:
                            return pred == 'ne'
                        if pred == 'eq':
                            return st.assume_eq0(Lin.atom(p.nz))
                        return st.assume_ne0(Lin.atom(p.nz))
                if a.obj is None and b.obj is None:
                    return pred == 'eq'
                if a.obj == b.obj:
                    d = a.off - b.off
                    return st.assume_eq0(d) if pred == 'eq' else st.assume_ne0(d)
                r = self.decide_icmp(st, pred, a, b)
                return r is not False
            if a.obj is not None and a.obj == b.obj:
                return self.assume_rel(st, pred[1:], b.off - a.off)
            return True
        if isinstance(a, IntV) and isinstance(b, IntV):
            if pred in ('eq', 'ne'):
                if a.kind == b.kind:
                    la, lb = a.lin, b.lin
                else:
                    la, lb = self.ulin(st, a), self.ulin(st, b)
                    if la is None or lb is None:
                        la, lb = self.slin(st, a), self.slin(st, b)
                if la is None or lb is None:
                    la, lb = self.as_u(st, a), self.as_u(st, b)
                # booleans compared with constants refine the underlying condition
                for x, y in ((a, lb), (b, la)):
                    c = self.cond_of(st, x)
                    if c is not None and not y.t and y.c in (0, 1):
                        want = (y.c == 1) if pred == 'eq' else (y.c != 1)
                        if not self.assume(st, c, want):
                            return False
                ok = st.assume_eq0(la - lb) if pred == 'eq' else st.assume_ne0(la - lb)
                if ok:
                    for x, y in ((la, lb), (lb, la)):
                        if not y.t:
                            if not self.refine_masked(st, x, y.c, pred == 'eq'):
                                return False
                return ok
            if pred[0] == 'u':
                la, lb = self.ulin(st, a), self.ulin(st, b)
            else:
                la, lb = self.slin(st, a), self.slin(st, b)
            if la is None or lb is None:
                # sign split of a single free atom: x <s 0 on an unsigned-kind symbol
                r = self.assume_mixed(st, pred, a, b)
                if r is not None:
                    return r
                # keep the condition in the other representation (mod / smod atoms) rather than dropping it:
                # witnesses are evaluated against it
                la = self.as_u(st, a) if pred[0] == 'u' else self.as_s(st, a)
                lb = self.as_u(st, b) if pred[0] == 'u' else self.as_s(st, b)
            return self.assume_rel(st, pred[1:], lb - la)
        return True

    def refine_masked(self, st, x, c, equal):
        """x is  op(base, const) (+0): narrow the range of base by enumeration when it is small."""
        sa = x.single_atom()
        if sa is None or sa[1] != 1 or sa[2] != 0 or not isinstance(sa[0], tuple):
            return True
        at = sa[0]
        if at[0] not in ('and', 'or', 'xor', 'lshr') or not isinstance(at[1], Lin) or not isinstance(at[2], int):
            return True
        b = at[1].single_atom()
        if b is None or b[1] != 1:
            return True
        base, _, off = b
        lo, hi = st.arange(base)
        if lo <= -INF or hi >= INF or hi - lo > 4096:
            return True
        k = at[2]
        f = {'and': lambda v: v & k, 'or': lambda v: v | k, 'xor': lambda v: v ^ k, 'lshr': lambda v: v >> k}[at[0]]
        good = [v for v in range(lo, hi + 1) if (f(v + off) == c) == equal and v + off >= 0]
        if not good:
            return False
        st.rng[base] = (good[0], good[-1])
        return st.propagate()

    def assume_mixed(self, st, pred, a, b):
        """Signed compare on a value only known in unsigned form (or vice versa) against a constant."""
        if pred[0] == 's' and b.is_const() and a.kind == 'u':
            c = b.lin.c
            if c >= (1 << (b.bits - 1)):
                c -= 1 << b.bits
            H = 1 << (a.bits - 1)
            if c == 0 and pred in ('slt', 'sge'):
                # a <s 0  <=>  a >=u 2^(bits-1)
                if pred == 'slt':
                    return st.assume_ge0(a.lin - H)
                return st.assume_ge0(Lin.const(H - 1) - a.lin)
        return None

    def assume_rel(self, st, rel, d):
        if rel == 'lt':
            return st.assume_ge0(d - 1)
        if rel == 'le':
            return st.assume_ge0(d)
        if rel == 'gt':
            return st.assume_ge0(-d - 1)
        if rel == 'ge':
            return st.assume_ge0(-d)
        return True

    # ------------------------------------------------------------------ memory
    def obj(self, st, oid):
        return st.objs[oid]

    def access_check(self, st, inst, kind, p, nbytes):
        """Classify an access of nbytes at p: 'ok' | 'oob' | 'undecided' | 'null' | 'freed'."""
        if not isinstance(p, PtrV):
            return 'undecided'
        nl = self.ptr_nullness(st, p)
        if nl is True:
            st.ev('null-deref', inst, kind)
            return 'null'
        o = st.objs.get(p.obj)
        if o is None:
            return 'undecided'
        if o.freed:
            st.ev('use-after-free', inst, kind, p.obj)
            return 'freed'
        if o.size is None:
            return 'undecided'
        n = nbytes if isinstance(nbytes, Lin) else Lin.const(nbytes)
        lo_ok = st.is_ge0(p.off)
        hi_ok = st.is_ge0(o.size - p.off - n)
        if lo_ok is True and hi_ok is True:
            return 'ok'
        if lo_ok is False or hi_ok is False:
            st.ev('oob', inst, kind, p, n, o.size)
            return 'oob'
        # the witness is searched in the state at the time of the access (later facts may depend on the value read)
        env = st.find_model([p.off + n - o.size, p.off], lambda v: v[0] > 0 or v[1] < 0)
        st.ev('oob?', inst, kind, p, n, o.size, env)
        return 'undecided'

    def load(self, st, inst, p, ty, nbytes):
        if not isinstance(p, PtrV):
            return self.fresh_for_type(st, ty, 'ld')
        self.h.on_access(self, st, inst, 'load', p, nbytes)
        chk = self.access_check(st, inst, 'load', p, nbytes)
        if chk in ('null',):
            return None
        o = st.objs.get(p.obj)
        if o is None:
            return self.fresh_for_type(st, ty, 'ld')
        off = p.off
        if not off.t:
            c = o.cells.get(off.c)
            if c is not None:
                if c[0] == nbytes:
                    return self.retype(st, c[1], ty)
                return self.fresh_for_type(st, ty, 'pun')
            # constant data of globals
            data = o.attrs.get('data')
            if data is not None:
                eb = o.attrs.get('eltbytes', 1)
                if nbytes == eb and off.c % eb == 0 and 0 <= off.c // eb < len(data):
                    return IntV(nbytes * 8, Lin.const(data[off.c // eb]), 'u')
        # search regions backwards
        for (roff, rlen, tag, ver) in reversed(o.regions):
            same = (roff == off)
            if tag[0] == 'val' and same and tag[2] == nbytes:
                return self.retype(st, tag[1], ty)
            # does the region cover / miss this access?
            before = st.is_ge0(roff - off - nbytes)          # access entirely before region
            after = st.is_ge0(off - roff - rlen)              # access entirely after region
            if before is True or after is True:
                continue
            inside = st.is_ge0(off - roff) is True and st.is_ge0(roff + rlen - off - nbytes) is True
            if inside and tag[0] == 'fill':
                fv = tag[1]
                if isinstance(fv, IntV) and fv.is_const() and (fv.lin.c == 0 or nbytes * 8 == fv.bits):
                    b = int_bits(ty)
                    if b is not None:
                        return IntV(b, Lin.const(fv.lin.c), 'u') if (fv.lin.c == 0 or b == fv.bits) else self.fresh_for_type(st, ty, 'fill')
                    if is_ptr(ty) and fv.lin.c == 0:
                        return NULL
                return self.fresh_for_type(st, ty, 'fill')
            if inside and tag[0] == 'copy':
                src = tag[1]
                if isinstance(src, PtrV):
                    sp = PtrV(src.obj, src.off + (off - roff), None)
                    so = st.objs.get(src.obj)
                    if so is not None and so.version == tag[2]:
                        return self.load(st, inst, sp, ty, nbytes)
                    if len(tag) > 3 and tag[3] and not (off - roff).t and int_bits(ty) is not None:
                        # the source changed since, but this byte of it was entry content when it was copied
                        rel = tag[3][2] + (off - roff).c
                        if not any(c0 < rel + nbytes and rel < c0 + cs for (c0, cs) in tag[3][3]):
                            return self.lazy_value(st, tag[3][1], rel, ty, nbytes)
                return self.fresh_for_type(st, ty, 'cpy')
            # may overlap an unknown write
            return self.fresh_for_type(st, ty, 'ld')
        if not off.t and o.attrs.get('cstr_len') is None:
            pd0 = o.attrs.get('ptrdata')
            if pd0 is not None and o.attrs.get('const') and nbytes == 8 and is_ptr(ty) and off.c % 8 == 0 and 0 <= off.c // 8 < len(pd0):
                # an entry of a constant pointer table read at a constant offset
                ent = pd0[off.c // 8]
                tgt, toff = None, 0
                if ent[0] == 'g':
                    tgt = ent[1]
                elif ent[0] == 'ce' and ent[1] == 'getelementptr' and len(ent) > 4 and isinstance(ent[4], dict) and ent[4].get('off') is not None and ent[3][0][0] == 'g':
                    tgt, toff = ent[3][0][1], ent[4]['off']
                elif ent[0] == 'n':
                    return NULL
                if tgt is not None:
                    return PtrV(self.global_obj(st, tgt), Lin.const(toff), True)
            cm0 = o.attrs.get('cellmap')
            if cm0 is not None and o.attrs.get('const') and off.c in cm0 and cm0[off.c][0] == nbytes and int_bits(ty) == 8 * nbytes:
                return IntV(8 * nbytes, Lin.const(cm0[off.c][1] % (1 << (8 * nbytes))), 'u')
            data0 = o.attrs.get('data')
            eb0 = o.attrs.get('eltbytes', 1)
            if data0 is not None and o.attrs.get('const') and nbytes == eb0 and int_bits(ty) == 8 * eb0 and off.c % eb0 == 0 and 0 <= off.c // eb0 < len(data0):
                # a constant global read at a constant offset: its initialiser
                return IntV(8 * eb0, Lin.const(data0[off.c // eb0]), 'u')
            if o.lazy or o.kind in ('param', 'ext', 'global'):
                v = self.lazy_value(st, p.obj, off.c, ty, nbytes)
                o.cells[off.c] = (nbytes, v)
                return v
            if o.kind in ('alloca', 'heap') and o.attrs.get('cstr_len') is None:
                st.ev('uninit-read', inst, p.obj, off)
                v = self.fresh_for_type(st, ty, 'uninit')
                return v
        # symbolic offset: term identity through (object, offset, version)
        b = int_bits(ty)
        if b is not None:
            a = ('load', p.obj, off, o.version, b)
            if a not in st.rng:
                st.rng[a] = (0, (1 << b) - 1)
            data = o.attrs.get('data')
            if data is not None and o.attrs.get('const') and nbytes == o.attrs.get('eltbytes', 1):
                # constant table read at a symbolic index: value range of the entries the index can reach
                eb_ = o.attrs.get('eltbytes', 1)
                lo_i, hi_i = st.range(off)
                lo_i = max(0, (lo_i + eb_ - 1) // eb_) if lo_i > -INF else 0
                hi_i = min(len(data) - 1, hi_i // eb_) if hi_i < INF else len(data) - 1
                if lo_i <= hi_i:
                    vals = data[lo_i:hi_i + 1]
                    half = 1 << (b - 1)
                    sv = [v - (1 << b) if v >= half else v for v in vals]
                    st.ev('table-load', inst, p.obj, off, a)
                    if min(sv) < 0:
                        sa_ = ('tbl', p.obj, off, o.version, b)
                        st.rng[sa_] = (min(sv), max(sv))
                        return IntV(b, Lin.atom(sa_), 's')
                    st.rng[a] = (min(vals), max(vals))
                    return IntV(b, Lin.atom(a), 'u')
            L = o.attrs.get('cstr_len')
            if L is not None and nbytes == o.attrs.get('cstr_eb', 1):
                links = st.flags.setdefault('strlinks', [])
                if not any(x[0] == a for x in links):
                    st.flags['strlinks'] = links + [(a, off, L)]
                    if o.attrs.get('cstr_weak'):
                        # terminated storage that may also hold NULs before the terminator
                        st.flags['weaklinks'] = tuple(st.flags.get('weaklinks', ())) + ((a, off, L),)
                self.apply_links(st)
            return IntV(b, Lin.atom(a), 'u')
        return self.fresh_for_type(st, ty, 'ld')

    def apply_links(self, st):
        """NUL-terminated text: unit at offset o is zero iff o == len (o <= len is the bounds obligation)."""
        links = st.flags.get('strlinks')
        if not links:
            return True
        for (a, off, L) in links:
            lo, hi = st.arange(a)
            d = L - off                       # >= 0 when in bounds
            if lo > 0 or (Lin.atom(a) in st.nefacts):
                if st.is_ge0(d - 1) is not True:
                    if not st.assume_ge0(d - 1):
                        return False
            elif hi == 0:
                if (a, off, L) in st.flags.get('weaklinks', ()):
                    pass            # a NUL inside the text is possible: nothing follows about the position
                elif st.is_eq0(d) is not True:
                    if not st.assume_eq0(d):
                        return False
            else:
                if st.is_ge0(d - 1) is True:
                    if (a, off, L) not in st.flags.get('weaklinks', ()):
                        st.rng[a] = (max(lo, 1), hi)
                elif st.is_eq0(d) is True:
                    st.rng[a] = (0, 0)
        return True

    def lazy_value(self, st, oid, off, ty, nbytes):
        b = int_bits(ty)
        if b is not None:
            a = '%s.%d' % (oid, off)
            if a not in st.rng:
                st.rng[a] = (0, (1 << b) - 1)
            return IntV(b, Lin.atom(a), 'u')
        if is_ptr(ty):
            return self.fresh_ptr(st, '%s.%d' % (oid.split('#')[0], off), maynull=True)
        return TopV('lazy')

    def retype(self, st, v, ty):
        b = int_bits(ty)
        if b is not None and isinstance(v, IntV) and v.bits != b:
            return self.fresh_int(st, b, 'pun')
        if b is not None and not isinstance(v, IntV):
            return self.fresh_int(st, b, 'pun')
        if is_ptr(ty) and not isinstance(v, PtrV):
            return self.fresh_ptr(st, 'pun', maynull=True)
        return v

    def invalidate(self, st, o, off, n):
        """Drop constant cells of o that may overlap [off, off+n)."""
        if not o.cells:
            return
        dead = []
        for coff, (csz, cv) in o.cells.items():
            before = st.is_ge0(off - coff - csz)
            after = st.is_ge0(Lin.const(coff) - off - n)
            if before is True or after is True:
                continue
            dead.append(coff)
        for c in dead:
            del o.cells[c]

    def store(self, st, inst, p, v, nbytes):
        if not isinstance(p, PtrV):
            return True
        self.h.on_access(self, st, inst, 'store', p, nbytes)
        self.h.on_store(self, st, inst, p, v, nbytes)
        chk = self.access_check(st, inst, 'store', p, nbytes)
        if chk == 'null':
            return False
        o = st.objs.get(p.obj)
        if o is None:
            return True
        o.version += 1
        off = p.off
        if not off.t:
            # strong update; drop overlapping cells of other sizes
            for coff in list(o.cells):
                csz = o.cells[coff][0]
                if coff != off.c and coff < off.c + nbytes and off.c < coff + csz:
                    del o.cells[coff]
            o.cells[off.c] = (nbytes, v)
            # a constant store also shadows symbolic regions: record it so later symbolic loads see a possible overlap
            if o.regions:
                o.regions.append((off, Lin.const(nbytes), ('val', v, nbytes), o.version))
            return True
        self.invalidate(st, o, off, Lin.const(nbytes))
        o.regions.append((off, Lin.const(nbytes), ('val', v, nbytes), o.version))
        return True

    def region_write(self, st, inst, p, n, tag, kind='copy'):
        """Write of n bytes (Lin) at p with content tag."""
        if not isinstance(p, PtrV):
            return 'undecided'
        z = st.is_eq0(n)
        if z is True:
            return 'ok'
        chk = self.access_check(st, inst, kind, p, n)
        if chk == 'null':
            return chk
        o = st.objs.get(p.obj)
        if o is None:
            return chk
        o.version += 1
        self.invalidate(st, o, p.off, n)
        o.regions.append((p.off, n, tag, o.version))
        return chk

    def region_read(self, st, inst, p, n, kind='read'):
        if not isinstance(p, PtrV):
            return 'undecided'
        if st.is_eq0(n) is True:
            return 'ok'
        return self.access_check(st, inst, kind, p, n)

    def havoc_obj(self, st, oid, why=''):
        o = st.objs.get(oid)
        if o is None:
            return
        o.version += 1
        o.cells = {}
        o.regions = [(ZERO, Lin.const(1 << ADDR_BITS), ('havoc', why), o.version)]
        o.lazy = True

    # ------------------------------------------------------------------ running
    def start(self, fn, args, st=None):
        st = st or State()
        fr = Frame(fn)
        for k, v in enumerate(args):
            fr.regs[k] = v
        st.frames.append(fr)
        return st

    def run(self, st):
        """Explore all paths from st; returns list of Outcome.  Restarts when a candidate loop
        invariant fails (Houdini), so every invariant assumed in the result has been verified."""
        base = st
        for attempt in range(48):
            self.inv_failed = set()
            outs = self._explore(base.clone())
            if not self.inv_failed:
                return outs
            # "this slot keeps its entry value" is not an assumption like the others: it fixes the slot to a concrete value, under
            # which relations between that slot and others are judged in a configuration that cannot occur.  When one of those
            # fails, only they are withdrawn in this round; the other candidates are judged again without them.
            # Likewise a wrong bound on a single slot (slot >= / <= its entry value, a guard) can contradict a true relation between
            # slots and make the incomplete prover fail the relation.  So candidates are withdrawn in tiers: per-slot constancy
            # first, then per-slot bounds, then relations between slots; a result is only returned from a round in which every
            # assumed candidate was verified, so the order affects precision, not soundness.
            def tier(k):
                last = k[-1]
                if last == 'same':
                    return 0
                if last == 'x' or (len(k) >= 2 and k[-2] in ('ord', 'aff')):
                    return 2
                return 1
            lowest = min(tier(k) for k in self.inv_failed)
            self.inv_disabled |= set(k for k in self.inv_failed if tier(k) == lowest)
        raise Budget('loop invariant inference did not stabilise')

    def _explore(self, st):
        self.work = [st]
        self.outs = []
        self.paths = 0
        while self.work:
            s = self.work.pop()
            self.paths += 1
            if self.paths > self.h.max_paths:
                raise Budget('more than %d paths' % self.h.max_paths)
            self.run_path(s)
        return self.outs

    def end_path(self, st, kind, val=None, info=None):
        self.outs.append(Outcome(kind, st, val, info))

    def fork(self, st):
        return st.clone()

    def run_path(self, st):
        while True:
            self.steps += 1
            if self.steps > self.h.max_steps:
                raise Budget('more than %d steps' % self.h.max_steps)
            fr = st.frames[-1]
            blk = fr.fn.blocks[fr.block]
            inst = blk.insts[fr.idx]
            fr.idx += 1
            r = self.step(st, fr, inst)
            if r == 'end':
                return

    # jump to block dst in the current frame (handles phis and loops); returns 'end' if the path stops
    def goto(self, st, dst):
        fr = st.frames[-1]
        src = fr.block
        fn = fr.fn
        loops, back = loop_info(fn)
        widen_now = False
        if (src, dst) in back:
            rec = fr.loops.setdefault(dst, [0, False, None])
            if rec[1]:
                # arbitrary iteration completed: verify candidate invariants, then stop
                self.check_invariants(st, fr, dst, src)
                self.record_iter_end(st, fr, dst, src)
                self.h.on_backedge(self, st, dst)
                self.end_path(st, 'backedge', info=(fn.name, dst))
                return 'end'
            if rec[0] >= self.h.unroll_for(self, fn, dst, st):
                widen_now = True
            rec[0] += 1
        elif dst in loops and (dst not in fr.loops or (fr.loops[dst][1] and getattr(self.h, 'reenter_loops', True))):
            # entered from outside (first time, or again from an enclosing loop's later iteration): a fresh instance of the loop
            fr.loops[dst] = [0, False, None]
        blk = fn.blocks[dst]
        # phis are evaluated simultaneously from the predecessor's values
        newvals = {}
        phis = []
        for i in blk.insts:
            if i.op != 'phi':
                break
            phis.append(i)
            for (v, b) in i.d['inc']:
                if b == src:
                    newvals[i.id] = self.val(st, v)
                    break
            else:
                raise Unmodelled('phi without incoming for block %d in %s' % (src, fn.dem))
        first_entry = dst in loops and not widen_now and fr.loops[dst][2] is None
        if first_entry:
            snap = dict((('phi', k), v) for k, v in newvals.items())
            fr.loops[dst][2] = snap                    # values on loop entry (+ '__guards__')
            if self.h.widen_on_entry and self.h.unroll_for(self, fn, dst, st) == self.h.unroll:
                widen_now = True
            else:
                slots, _c, _w, _s = self.carried_slots(st, fr, dst, phis, newvals)
                for (key, v, t) in slots:
                    snap[self.slot_name(key)] = v
        if widen_now and getattr(self.h, 'stop_at_widen', False):
            # exact-prefix exploration: the path ends where the abstraction of the loop would begin
            self.end_path(st, 'prefix', info=(fn.name, dst))
            return 'end'
        if widen_now:
            self.widen(st, fr, dst, src, phis, newvals)
        else:
            fr.regs.update(newvals)
        fr.prev = src
        fr.block = dst
        fr.idx = len(phis)
        st.trail.append((fn.name, dst))
        return None

    # ---- widening: loop-carried slots are header phis and memory cells written inside the loop
    def root_ptrs(self, st, fr, op, body, depth=0, seen=None):
        """Pointer values an address operand may be based on, resolving values defined inside the loop back to
        values available at the loop header.  Returns (list of (PtrV, exact?)) or None when unknown."""
        fn = fr.fn
        if depth > 12:
            return None
        if seen is None:
            seen = set()
        if op[0] == 'v':
            if op[1] in seen:
                return []           # cycle through a loop phi: no new roots
            seen = seen | {op[1]}
        if op[0] != 'v' or not self.defined_in(fn, op, body):
            try:
                v = self.val(st, op)
            except Unmodelled:
                return None
            return [(v, True)] if isinstance(v, PtrV) else ([] if not isinstance(v, TopV) else None)
        i = fn.inst(op[1])
        if i.op == 'getelementptr':
            r = self.root_ptrs(st, fr, i.d['base'], body, depth + 1, seen)
            if r is None:
                return None
            off = i.d.get('off')
            out = []
            for (p, ex) in r:
                if ex and off is not None and p.obj is not None:
                    out.append((PtrV(p.obj, p.off + off, p.nz), True))
                else:
                    out.append((p, False))
            return out
        if i.op in ('bitcast', 'addrspacecast'):
            return self.root_ptrs(st, fr, i.a[0], body, depth + 1, seen)
        if i.op == 'load':
            r = self.root_ptrs(st, fr, i.a[0], body, depth + 1, seen)
            if r is None:
                return None
            out = []
            for (p, ex) in r:
                o = st.objs.get(p.obj) if p.obj is not None else None
                if o is None:
                    return None
                got = False
                if ex and not p.off.t:
                    c = o.cells.get(p.off.c)
                    if c is not None and isinstance(c[1], PtrV):
                        out.append((c[1], False))
                        got = True
                if not got:
                    ptrs = [c[1] for c in o.cells.values() if isinstance(c[1], PtrV)]
                    if not ptrs and not o.lazy:
                        return None
                    if o.lazy and not ptrs:
                        return None
                    out += [(q, False) for q in ptrs]
            return out
        if i.op == 'phi':
            out = []
            for (v, b) in i.d['inc']:
                r = self.root_ptrs(st, fr, v, body, depth + 1, seen)
                if r is None:
                    return None
                out += r
            return out
        if i.op == 'select':
            out = []
            for v in i.a[1:]:
                r = self.root_ptrs(st, fr, v, body, depth + 1, seen)
                if r is None:
                    return None
                out += r
            return out
        if i.op in ('call', 'invoke'):
            # pointer-returning call inside the loop: based on one of its pointer arguments (or fresh memory)
            out = []
            for a in i.a:
                r = self.root_ptrs(st, fr, a, body, depth + 1, seen)
                if r:
                    out += [(p, False) for (p, ex) in r]
            return out
        return None

    def loop_written_cells(self, st, fr, body):
        """(cells, objects): constant cells / whole objects that stores or calls inside the loop may write.
        objects is None when some store address cannot be resolved (everything is then havoc'd)."""
        fn = fr.fn
        cells, objs = [], []
        unknown = False
        for b in body:
            for i in fn.blocks[b].insts:
                if i.op == 'store':
                    r = self.root_ptrs(st, fr, i.a[1], body)
                    if r is None:
                        unknown = True
                        continue
                    for (p, ex) in r:
                        if p.obj is None or p.obj not in st.objs:
                            continue
                        if ex and not p.off.t:
                            cells.append((p.obj, p.off.c, i.d.get('size', 8)))
                        else:
                            objs.append(p.obj)
                elif i.op in ('call', 'invoke'):
                    for j in self.call_write_args(i):
                        if j < len(i.a):
                            r = self.root_ptrs(st, fr, i.a[j], body)
                            if r is None:
                                if i.a[j][0] in ('v',) and is_ptr(self.operand_type(fn, i.a[j])):
                                    unknown = True
                                continue
                            for (p, ex) in r:
                                if p.obj is not None and p.obj in st.objs:
                                    objs.append(p.obj)
        if unknown:
            st.ev('widen-unknown-store', fn.name)
            for oid, o in st.objs.items():
                if o.kind in ('ext', 'param', 'owner', 'heap', 'alloca') and oid not in objs:
                    objs.append(oid)
        # an object the rule has shown to be read-only for the function under analysis (effect summary of its parameter) keeps its
        # contents across the loop
        ro = set(oid for oid in objs if st.objs[oid].attrs.get('readonly'))
        if ro:
            objs = [oid for oid in objs if oid not in ro]
            cells = [c for c in cells if c[0] not in ro]
        return cells, objs

    def operand_type(self, fn, op):
        if op[0] != 'v':
            return ''
        if op[1] < fn.nargs:
            return fn.params[op[1]]['ty']
        i = fn.inst(op[1])
        return i.ty if i is not None else ''

    def carried_slots(self, st, fr, header, phis, newvals):
        """List of (key, current value, setter) for every loop-carried scalar."""
        loops, back = loop_info(fr.fn)
        body = loops[header]
        slots = []
        for i in phis:
            slots.append((('phi', i.id), newvals[i.id], i.ty))
        cells, objs = self.loop_written_cells(st, fr, body)
        seen = set()
        for (oid, off, sz) in cells:
            if (oid, off) in seen:
                continue
            seen.add((oid, off))
            o = st.objs[oid]
            c = o.cells.get(off)
            if c is not None and isinstance(c[1], (IntV, PtrV)):
                slots.append((('cell', oid, off, c[0]), c[1], None))
        whole = []
        for oid in objs:
            if oid in whole:
                continue
            whole.append(oid)
            o = st.objs[oid]
            # small scalar objects (locals passed by reference) are carried cell by cell; anything else is havoc'd
            small = o.size is not None and not o.size.t and o.size.c <= 64
            if o.kind in ('alloca', 'ext', 'param', 'owner') and not o.regions and o.cells and len(o.cells) <= 8 and \
                    (small or o.kind != 'alloca'):
                for off, (sz, v) in sorted(o.cells.items()):
                    if (oid, off) not in seen and isinstance(v, (IntV, PtrV)):
                        seen.add((oid, off))
                        slots.append((('cell', oid, off, sz), v, None))
        return slots, cells, whole, seen

    def slot_name(self, key):
        if key[0] == 'phi':
            return key
        return ('cell', key[1].split('#')[0], key[2])

    def widen(self, st, fr, header, src, phis, newvals):
        fn = fr.fn
        rec = fr.loops[header]
        rec[1] = True
        entry = rec[2] or {}
        key0 = (fn.name, header)
        used = []
        slots, cells, whole, carried = self.carried_slots(st, fr, header, phis, newvals)
        # rule-supplied candidate invariants marked 'entry': their base case is decided here, on the values with which the loop
        # is entered (before the carried slots are replaced by fresh symbols); only those that hold are assumed at the head
        entry_ok = {}
        self.cur_slots = [self.slot_name(key) for (key, nv_, ty_) in slots]     # for rule hooks: names of the carried slots of this loop
        saved_regs = dict((k, fr.regs.get(k)) for k in newvals)
        fr.regs.update(newvals)
        try:
            for cand in self.h.loop_candidates(self, st, fn, header, phis):
                if len(cand) > 2 and cand[2] == 'entry':
                    try:
                        entry_ok[cand[0]] = st.is_ge0(cand[1](st, fr)) is True
                    except Exception:
                        entry_ok[cand[0]] = False
        finally:
            for k, v in saved_regs.items():
                if v is None:
                    fr.regs.pop(k, None)
                else:
                    fr.regs[k] = v
        # havoc everything else the loop may write
        for (oid, off, sz) in cells:
            if (oid, off) not in carried:
                o = st.objs[oid]
                o.cells.pop(off, None)
                o.version += 1
                o.regions.append((Lin.const(off), Lin.const(sz), ('havoc', 'loop'), o.version))
        for oid in whole:
            o = st.objs[oid]
            if any(k[0] == 'cell' and k[1] == oid for (k, v, t) in slots):
                continue
            self.havoc_obj(st, oid, 'loop')
        guards = entry.get('__guards__', ())
        begin = {}
        orig_vals = {}
        for (key, nv, ty) in slots:
            name = self.slot_name(key)
            ev = entry.get(name, nv if self.h.widen_on_entry else None)
            ov = self.h.widen_value(self, st, fn, header, name, nv)
            k_same = key0 + (name, 'same')
            if ov is not None:
                w = ov
            elif k_same not in self.inv_disabled and isinstance(nv, (IntV, PtrV)) and self.h.widen_keep_same:
                # candidate: the slot is loop-invariant (verified at every back edge)
                w = nv
                used.append((name, 'same', nv))
            elif isinstance(nv, IntV):
                w = self.fresh_int(st, nv.bits, 'w', signed=(nv.kind == 's'))
                if isinstance(ev, IntV) and ev.kind == nv.kind:
                    for rel in ('ge', 'le'):
                        k2 = key0 + (name, rel)
                        if k2 in self.inv_disabled:
                            continue
                        d = (nv.lin - ev.lin) if rel == 'ge' else (ev.lin - nv.lin)
                        if st.is_ge0(d) is True:
                            st.assume_ge0((w.lin - ev.lin) if rel == 'ge' else (ev.lin - w.lin))
                            used.append((name, rel, ev))
                        else:
                            self.inv_disabled.add(k2)
                if nv.kind == 'u' and nv.bits == 64:
                    # an index into NUL-terminated text (text[i] instead of *p): at or before the terminator / strictly before it,
                    # relative to each pointer into that text currently held in a register (verified like every other candidate)
                    for oid2, o2 in list(st.objs.items()):
                        Lc2 = o2.attrs.get('cstr_len')
                        if Lc2 is None or o2.attrs.get('cstr_eb', 1) != 1:
                            continue
                        bases = []
                        for v2 in list(fr.regs.values()):
                            if isinstance(v2, PtrV) and v2.obj == oid2 and v2.off not in bases and len(bases) < 3:
                                bases.append(v2.off)
                        for bo in bases:
                            for kk in (1, 0):
                                rel = 'ixcstr%d:%s:%s' % (kk, oid2.split('#')[0], re.sub(r'#\d+', '#', repr(bo)))
                                k2 = key0 + (name, rel)
                                if k2 in self.inv_disabled:
                                    continue
                                bound = Lc2 - bo - kk
                                if st.is_ge0(bound - nv.lin) is True:
                                    st.assume_ge0(bound - w.lin)
                                    used.append((name, rel, IntV(nv.bits, bound, 'u')))
                                else:
                                    self.inv_disabled.add(k2)
                if nv.kind == 'u':
                    for gi, T in enumerate(guards):
                        if not isinstance(T, Lin):
                            continue
                        for mult in (1, 2):
                            k2 = key0 + (name, 'g%d_%d' % (gi, mult))
                            if k2 in self.inv_disabled:
                                continue
                            bound = T.scale(mult)
                            if st.is_ge0(bound - nv.lin) is True:
                                st.assume_ge0(bound - w.lin)
                                used.append((name, 'g%d_%d' % (gi, mult), IntV(nv.bits, bound, 'u')))
                            else:
                                self.inv_disabled.add(k2)
            elif isinstance(nv, PtrV) and nv.obj is not None:
                a = self.fresh('wo')
                st.rng[a] = (-(1 << ADDR_BITS), (1 << ADDR_BITS))
                woff = Lin.atom(a)
                w = PtrV(nv.obj, woff, nv.nz)
                if isinstance(ev, PtrV) and ev.obj == nv.obj:
                    for rel in ('ge', 'le'):
                        k2 = key0 + (name, rel)
                        if k2 in self.inv_disabled:
                            continue
                        d = (nv.off - ev.off) if rel == 'ge' else (ev.off - nv.off)
                        if st.is_ge0(d) is True:
                            st.assume_ge0((woff - ev.off) if rel == 'ge' else (ev.off - woff))
                            used.append((name, rel, ev))
                        else:
                            self.inv_disabled.add(k2)
                tobj = st.objs.get(nv.obj)
                Lc = tobj.attrs.get('cstr_len') if tobj is not None else None
                if Lc is not None:
                    # NUL-terminated text: cursor at or before the terminator / strictly before it
                    for rel, kk in (('cstr_lt', 1), ('cstr_le', 0)):
                        k2 = key0 + (name, rel)
                        if k2 in self.inv_disabled:
                            continue
                        if st.is_ge0(Lc - nv.off - kk) is True:
                            st.assume_ge0(Lc - woff - kk)
                            used.append((name, rel, PtrV(nv.obj, Lc - kk)))
                        else:
                            self.inv_disabled.add(k2)
                pguards = [T for T in guards if isinstance(T, tuple) and T[0] == nv.obj]
                for v2 in list(fr.regs.values()):
                    if isinstance(v2, PtrV) and v2.obj == nv.obj and v2 is not nv and (v2.obj, v2.off) not in pguards and len(pguards) < 6:
                        if v2.off != nv.off:
                            pguards.append((v2.obj, v2.off))
                for gi, T in enumerate(pguards):
                    # lower bounds: cursor >= T, cursor >= T - 1 (downward walks may stop one before the start)
                    for dlt in (0, 1):
                        rel = 'pl%d' % dlt + re.sub(r'#\d+', '#', repr(T[1]))
                        k3 = key0 + (name, rel)
                        if k3 in self.inv_disabled:
                            continue
                        if st.is_ge0(nv.off - T[1] + dlt) is True:
                            st.assume_ge0(woff - T[1] + dlt)
                            used.append((name, rel, PtrV(nv.obj, T[1] - dlt)))
                        else:
                            self.inv_disabled.add(k3)
                for gi, T in enumerate(pguards):
                    k2 = key0 + (name, 'pg' + re.sub(r'#\d+', '#', repr(T[1])))
                    if k2 in self.inv_disabled:
                        continue
                    if st.is_ge0(T[1] - nv.off) is True:
                        st.assume_ge0(T[1] - woff)
                        used.append((name, 'pg' + re.sub(r'#\d+', '#', repr(T[1])), PtrV(nv.obj, T[1])))
                    else:
                        self.inv_disabled.add(k2)
            elif isinstance(nv, PtrV):
                w = self.fresh_ptr(st, 'w', maynull=True)
            else:
                w = self.fresh_for_type(st, ty or 'i64', 'w')
            if key[0] == 'phi':
                fr.regs[key[1]] = w
            else:
                o = st.objs[key[1]]
                o.cells[key[2]] = (key[3], w)
                o.version += 1
            begin[name] = w
            orig_vals[name] = nv
        # pairwise ordering of carried cursors into the same object
        pnames = [n2 for n2 in begin if isinstance(begin[n2], PtrV) and begin[n2].obj is not None and isinstance(orig_vals[n2], PtrV)
                  and not any(u[0] == n2 and u[1] == 'same' for u in used)]
        for a1 in pnames:
            for a2 in pnames:
                if a1 == a2 or begin[a1].obj != begin[a2].obj or orig_vals[a1].obj != orig_vals[a2].obj:
                    continue
                k2 = key0 + (a1, 'ord', a2)
                if k2 in self.inv_disabled:
                    continue
                if st.is_ge0(orig_vals[a2].off - orig_vals[a1].off) is True:
                    st.assume_ge0(begin[a2].off - begin[a1].off)
                    used.append((a1, ('ord', a2), None))
                else:
                    self.inv_disabled.add(k2)
        # affine relations between carried slots observed over the unrolled iteration(s): db*(a - a0) == da*(b - b0)
        def offs(v):
            if isinstance(v, PtrV) and v.obj is not None:
                return v.off
            if isinstance(v, IntV):
                return v.lin
            return None
        names = [n2 for n2 in begin if offs(begin[n2]) is not None and offs(orig_vals.get(n2)) is not None and
                 offs(entry.get(n2)) is not None and not any(u[0] == n2 and u[1] == 'same' for u in used)]
        deltas = {}
        for n2 in names:
            d0 = offs(orig_vals[n2]) - offs(entry[n2])
            if not d0.t and d0.c != 0 and type(orig_vals[n2]) is type(entry[n2]):
                deltas[n2] = d0.c
        dn = sorted(deltas, key=repr)
        for i1 in range(len(dn)):
            for i2 in range(i1 + 1, len(dn)):
                a1, a2 = dn[i1], dn[i2]
                k2 = key0 + (a1, 'aff', a2)
                if k2 in self.inv_disabled:
                    continue
                rel = (offs(begin[a1]) - offs(entry[a1])).scale(deltas[a2]) - (offs(begin[a2]) - offs(entry[a2])).scale(deltas[a1])
                st.assume_eq0(rel)
                used.append((a1, ('aff', a2, deltas[a1], deltas[a2], entry[a1], entry[a2]), None))
        st.flags['wbegin:' + fn.name] = begin
        st.flags['hbegin:%s:%s' % (fn.name, header)] = begin
        st.flags['hfirst:%s:%s' % (fn.name, header)] = (rec[0] == 0)      # abstracted at the first arrival: the head state includes iteration 0
        if rec[0] == 0:
            # cumulative map {symbol of a carried slot -> its term on loop entry}, for first-iteration witnesses (State.find_model);
            # kept across later instances of the same loop, which overwrite the per-header flags
            et = dict(st.flags.get('entry-terms') or {})
            for n2, bv in begin.items():
                ev0 = entry.get(n2, orig_vals.get(n2)) if self.h.widen_on_entry else entry.get(n2)
                bt = bv.off if isinstance(bv, PtrV) and bv.obj is not None else (bv.lin if isinstance(bv, IntV) else None)
                e0 = ev0.off if isinstance(ev0, PtrV) and ev0.obj is not None else (ev0.lin if isinstance(ev0, IntV) else None)
                if bt is None or e0 is None or (isinstance(bv, PtrV) and isinstance(ev0, PtrV) and bv.obj != ev0.obj):
                    continue
                sa = bt.single_atom()
                if sa is not None and sa[1] == 1 and sa[2] == 0 and sa[0] not in et:
                    et[sa[0]] = e0
            st.flags['entry-terms'] = et
        st.flags['hentry:%s:%s' % (fn.name, header)] = dict((n2, entry.get(n2, orig_vals.get(n2)) if self.h.widen_on_entry else entry.get(n2))
                                                             for n2 in begin)
        extra = self.h.loop_candidates(self, st, fn, header, phis)
        for cand in extra:
            name, lin = cand[0], cand[1]
            k2 = key0 + (name, 'x')
            if k2 in self.inv_disabled:
                continue
            if len(cand) > 2 and cand[2] == 'entry' and not entry_ok.get(name):
                continue
            st.assume_ge0(lin(st, fr))
            used.append((name, 'x', lin))
        while len(rec) < 4:
            rec.append(None)
        rec[3] = used
        st.ev('widen', fn.name, header)

    def slot_value(self, st, fr, name, newvals):
        if name[0] == 'phi':
            return newvals.get(name[1])
        for oid, o in st.objs.items():
            if oid.split('#')[0] == name[1] and oid in fr.allocas:
                c = o.cells.get(name[2])
                return c[1] if c else None
        for oid, o in st.objs.items():
            if oid.split('#')[0] == name[1]:
                c = o.cells.get(name[2])
                return c[1] if c else None
        return None

    def common_view(self, st, a, b):
        """Terms of two integers in one interpretation (unsigned if both have one, else signed), or None."""
        if a.kind == b.kind:
            return a.lin, b.lin
        ua, ub = self.ulin(st, a), self.ulin(st, b)
        if ua is not None and ub is not None:
            return ua, ub
        sa, sb = self.slin(st, a), self.slin(st, b)
        if sa is not None and sb is not None:
            return sa, sb
        return None

    def record_iter_end(self, st, fr, header, src):
        fn = fr.fn
        begin = st.flags.get('wbegin:' + fn.name)
        if not begin:
            return
        newvals = {}
        for i in fn.blocks[header].insts:
            if i.op != 'phi':
                break
            for (v, b) in i.d['inc']:
                if b == src:
                    newvals[i.id] = self.val(st, v)
        st.flags['wend:' + fn.name] = dict((name, self.slot_value(st, fr, name, newvals)) for name in begin)
        hb = st.flags.get('hbegin:%s:%s' % (fn.name, header))
        if hb:
            st.flags['hend:%s:%s' % (fn.name, header)] = dict((name, self.slot_value(st, fr, name, newvals)) for name in hb)

    def check_invariants(self, st, fr, header, src):
        rec = fr.loops[header]
        if len(rec) < 4 or rec[3] is None:
            return
        fn = fr.fn
        blk = fn.blocks[header]
        newvals = {}
        for i in blk.insts:
            if i.op != 'phi':
                break
            for (v, b) in i.d['inc']:
                if b == src:
                    newvals[i.id] = self.val(st, v)
        for (name, rel, ev) in rec[3]:
            key = (fn.name, header, name, rel)
            if isinstance(rel, tuple) and rel[0] == 'aff':
                key = (fn.name, header, name, 'aff', rel[1])
                v1 = self.slot_value(st, fr, name, newvals)
                v2 = self.slot_value(st, fr, rel[1], newvals)

                def offs2(v):
                    if isinstance(v, PtrV) and v.obj is not None:
                        return v.off
                    if isinstance(v, IntV):
                        return v.lin
                    return None
                o1, o2, e1, e2 = offs2(v1), offs2(v2), offs2(rel[4]), offs2(rel[5])
                ok = None not in (o1, o2, e1, e2) and st.is_eq0((o1 - e1).scale(rel[3]) - (o2 - e2).scale(rel[2])) is True
            elif isinstance(rel, tuple) and rel[0] == 'ord':
                key = (fn.name, header, name, 'ord', rel[1])
                v1 = self.slot_value(st, fr, name, newvals)
                v2 = self.slot_value(st, fr, rel[1], newvals)
                ok = isinstance(v1, PtrV) and isinstance(v2, PtrV) and v1.obj == v2.obj and st.is_ge0(v2.off - v1.off) is True
            elif rel == 'x':
                saved = dict((k, fr.regs.get(k)) for k in newvals)
                fr.regs.update(newvals)
                ok = st.is_ge0(ev(st, fr)) is True
                fr.regs.update(saved)
            elif rel == 'same':
                nv = self.slot_value(st, fr, name, newvals)
                if isinstance(nv, IntV) and isinstance(ev, IntV):
                    pr = self.common_view(st, nv, ev)
                    ok = pr is not None and st.is_eq0(pr[0] - pr[1]) is True
                elif isinstance(nv, PtrV) and isinstance(ev, PtrV):
                    ok = nv.obj == ev.obj and (nv.obj is None or st.is_eq0(nv.off - ev.off) is True)
                else:
                    ok = False
            else:
                nv = self.slot_value(st, fr, name, newvals)
                if isinstance(nv, IntV) and isinstance(ev, IntV):
                    pr = self.common_view(st, nv, ev)
                    if pr is None:
                        ok = False
                    else:
                        d = (pr[0] - pr[1]) if rel == 'ge' else (pr[1] - pr[0])
                        ok = st.is_ge0(d) is True
                elif isinstance(nv, PtrV) and isinstance(ev, PtrV) and nv.obj == ev.obj:
                    d = (nv.off - ev.off) if (rel == 'ge' or str(rel).startswith('pl')) else (ev.off - nv.off)
                    ok = st.is_ge0(d) is True
                else:
                    ok = False
            if not ok:
                self.inv_failed.add(key)

    def defined_in(self, fn, op, body):
        if op[0] != 'v':
            return False
        i = fn.inst(op[1])
        return i is not None and i.block in body

    def call_write_args(self, inst):
        if self.E is None or self.F is None:
            return range(len(inst.a))
        out = set()
        for (i, ts, kind) in self.F.calls.get(self.cur_fn_name(inst), ()):
            if i.id == inst.id:
                for t in ts:
                    out |= set(self.E.callee_summary(t)['writes'])
        return out

    def cur_fn_name(self, inst):
        return self._cur_fn.name

    # ------------------------------------------------------------------ one instruction
    def step(self, st, fr, inst):
        self._cur_fn = fr.fn
        op = inst.op
        regs = fr.regs
        if op == 'br':
            if not inst.a:
                return self.goto(st, inst.d['succ'][0])
            c = self.val(st, inst.a[0])
            self.h.on_cond(self, st, inst, c)
            cond = self.cond_of(st, c)
            if cond is None:
                if isinstance(c, IntV):
                    sa = c.lin.single_atom()
                    if not c.lin.t:
                        cond = ('const', c.lin.c != 0)
                    elif sa is not None and sa[1] == 1 and sa[2] == 0:
                        cond = ('nz', sa[0])
                if cond is None:
                    cond = ('opaque', self.fresh('br'))
            r = self.decide(st, cond)
            t, f = inst.d['succ']
            if cond[0] == 'icmp' and fr.loops and isinstance(cond[2], PtrV) and isinstance(cond[3], PtrV) and \
                    cond[2].obj is not None and cond[2].obj == cond[3].obj:
                loops_, back_ = loop_info(fr.fn)
                for hdr, rec in fr.loops.items():
                    if not rec[1] and fr.block in loops_.get(hdr, ()) and isinstance(rec[2], dict):
                        g = rec[2].setdefault('__guards__', [])
                        for x in (cond[2], cond[3]):
                            if len(g) < 8 and (x.obj, x.off) not in g:
                                g.append((x.obj, x.off))
            if cond[0] == 'icmp' and fr.loops and isinstance(cond[2], IntV) and isinstance(cond[3], IntV):
                loops_, back_ = loop_info(fr.fn)
                for hdr, rec in fr.loops.items():
                    if not rec[1] and fr.block in loops_.get(hdr, ()):
                        g = rec[2].setdefault('__guards__', []) if isinstance(rec[2], dict) else None
                        if g is not None and len(g) < 8:
                            for x in (cond[2], cond[3]):
                                lx = self.ulin(st, x)
                                if lx is not None and lx.t and lx not in g:
                                    g.append(lx)
            if r is True:
                return self.goto(st, t)
            if r is False:
                return self.goto(st, f)
            s2 = self.fork(st)
            if self.assume(s2, cond, False):
                if self.goto(s2, f) != 'end':
                    self.work.append(s2)
            if self.assume(st, cond, True):
                return self.goto(st, t)
            return 'end'
        if op == 'switch':
            v = self.val(st, inst.a[0])
            self.h.on_cond(self, st, inst, v)
            if not isinstance(v, IntV):
                v = self.fresh_int(st, 32, 'sw')
            cases = inst.d['cases']
            alive = []
            for (cv, blk) in cases:
                cond = ('icmp', 'eq', v, IntV(v.bits, Lin.const(cv), 'u'))
                r = self.decide(st, cond)
                if r is True:
                    return self.goto(st, blk)
                if r is None:
                    alive.append((cv, blk, cond))
            # default first (with all case values excluded), then each live case
            for (cv, blk, cond) in alive:
                s2 = self.fork(st)
                if self.assume(s2, cond, True):
                    if self.goto(s2, blk) != 'end':
                        self.work.append(s2)
            ok = True
            for (cv, blk, cond) in alive:
                if not self.assume(st, cond, False):
                    ok = False
                    break
            if ok:
                return self.goto(st, inst.d['default'])
            return 'end'
        if op == 'ret':
            rv = self.val(st, inst.a[0]) if inst.a else None
            return self.do_return(st, rv)
        if op == 'unreachable':
            self.end_path(st, 'unreachable')
            return 'end'
        if op == 'resume':
            return self.unwind(st, pop_current=True)
        if op in ('call', 'invoke'):
            return self.do_call(st, fr, inst)
        if op == 'load':
            p = self.val(st, inst.a[0])
            v = self.load(st, inst, p, inst.ty, inst.d.get('size', 8))
            if v is None:
                self.end_path(st, 'abort', info=('null-deref', inst))
                return 'end'
            regs[inst.id] = v
            return None
        if op == 'store':
            v = self.val(st, inst.a[0])
            p = self.val(st, inst.a[1])
            if not self.store(st, inst, p, v, inst.d.get('size', 8)):
                self.end_path(st, 'abort', info=('null-deref', inst))
                return 'end'
            return None
        if op == 'alloca':
            oid = self.new_obj(st, 'alloca', Lin.const(inst.d['size']), 'a.' + (inst.name or str(inst.id)))
            st.objs[oid].attrs['ty'] = inst.d['aty']
            fr.allocas.append(oid)
            regs[inst.id] = PtrV(oid, ZERO)
            return None
        if op == 'getelementptr':
            regs[inst.id] = self.gep(st, inst)
            return None
        if op in ('bitcast', 'addrspacecast'):
            regs[inst.id] = self.val(st, inst.a[0])
            return None
        if op == 'icmp':
            a = self.val(st, inst.a[0])
            b = self.val(st, inst.a[1])
            pred = inst.d['pred']
            if pred[0] == 'u' and self.h.split_sign and isinstance(a, IntV) and isinstance(b, IntV):
                # unsigned comparison of a value only known in signed form whose range straddles zero: split on its sign
                for x, which in ((a, 0), (b, 1)):
                    if x.kind == 's' and x.lin.t and self.ulin(st, x) is None:
                        s2 = self.fork(st)
                        if s2.assume_ge0(-x.lin - 1):
                            nx = IntV(x.bits, x.lin + (1 << x.bits), 'u')
                            aa, bb = (nx, b) if which == 0 else (a, nx)
                            s2.frames[-1].regs[inst.id] = self.icmp(s2, pred, aa, bb)
                            self.work.append(s2)
                        if not st.assume_ge0(x.lin):
                            return 'end'
                        nx = IntV(x.bits, x.lin, 'u')
                        if which == 0:
                            a = nx
                        else:
                            b = nx
            regs[inst.id] = self.icmp(st, pred, a, b)
            return None
        if op == 'phi':
            raise Unmodelled('phi in the middle of a block')
        if op == 'select':
            c = self.val(st, inst.a[0])
            self.h.on_cond(self, st, inst, c)
            cond = self.cond_of(st, c)
            if cond is None and isinstance(c, IntV):
                # a flag that is not the result of a comparison (a bool loaded from memory, truncated): constant or "non-zero"
                sa_ = c.lin.single_atom()
                if not c.lin.t:
                    cond = ('const', c.lin.c != 0)
                elif sa_ is not None and sa_[1] == 1 and sa_[2] == 0:
                    cond = ('nz', sa_[0])
            a = self.val(st, inst.a[1])
            b = self.val(st, inst.a[2])
            r = self.decide(st, cond) if cond is not None else None
            if r is True:
                regs[inst.id] = a
                return None
            if r is False:
                regs[inst.id] = b
                return None
            if cond is None:
                regs[inst.id] = self.fresh_for_type(st, inst.ty, 'sel')
                return None
            s2 = self.fork(st)
            if self.assume(s2, cond, False):
                s2.frames[-1].regs[inst.id] = b
                self.work.append(s2)
            if self.assume(st, cond, True):
                regs[inst.id] = a
                return None
            return 'end'
        if op in ('add', 'sub', 'mul', 'udiv', 'urem', 'sdiv', 'srem', 'and', 'or', 'xor', 'shl', 'lshr', 'ashr'):
            a = self.val(st, inst.a[0])
            b = self.val(st, inst.a[1])
            regs[inst.id] = self.binop(st, inst, op, a, b)
            return None
        if op in ('zext', 'sext', 'trunc'):
            a = self.val(st, inst.a[0])
            if op == 'sext' and isinstance(a, IntV) and a.kind == 'u' and a.bits <= 16 and a.lin.t and \
                    self.slin(st, a) is None and self.cond_of(st, a) is None and self.h.split_sign:
                # sign split: keeps the linear relation between the unit and its sign-extended value
                half = 1 << (a.bits - 1)
                bits = int_bits(inst.ty) or 32
                s2 = self.fork(st)
                if s2.assume_ge0(a.lin - half) and self.apply_links(s2):
                    s2.frames[-1].regs[inst.id] = IntV(bits, a.lin - (1 << a.bits), 's')
                    self.work.append(s2)
                if st.assume_ge0(Lin.const(half - 1) - a.lin) and self.apply_links(st):
                    regs[inst.id] = IntV(bits, a.lin, 's')
                    return None
                return 'end'
            regs[inst.id] = self.cast(st, inst, op, a)
            return None
        if op == 'ptrtoint':
            regs[inst.id] = self.ptrtoint(st, self.val(st, inst.a[0]), int_bits(inst.ty) or 64)
            return None
        if op == 'inttoptr':
            v = self.val(st, inst.a[0])
            regs[inst.id] = self.inttoptr(st, v)
            return None
        if op == 'extractvalue':
            a = self.val(st, inst.a[0])
            idx = inst.d['idx']
            if isinstance(a, AggV) and len(idx) == 1 and idx[0] < len(a.f):
                regs[inst.id] = a.f[idx[0]]
            else:
                regs[inst.id] = self.fresh_for_type(st, inst.ty, 'ev')
            return None
        if op == 'insertvalue':
            a = self.val(st, inst.a[0])
            v = self.val(st, inst.a[1])
            idx = inst.d['idx']
            if isinstance(a, AggV) and len(idx) == 1:
                f = list(a.f)
                while len(f) <= idx[0]:
                    f.append(TopV('agg'))
                f[idx[0]] = v
                regs[inst.id] = AggV(f)
            elif len(idx) == 1:
                f = [TopV('agg')] * (idx[0] + 1)
                f[idx[0]] = v
                regs[inst.id] = AggV(f)
            else:
                regs[inst.id] = TopV('agg')
            return None
        if op == 'landingpad':
            # value installed by unwind(); reaching it by fallthrough cannot happen
            if inst.id not in regs:
                regs[inst.id] = AggV([TopV('exc'), self.fresh_int(st, 32, 'sel')])
            return None
        if op in ('fadd', 'fsub', 'fmul', 'fdiv', 'frem', 'fneg', 'fpext', 'fptrunc', 'sitofp', 'uitofp', 'fcmp'):
            if op == 'fcmp':
                regs[inst.id] = self.mk_bool(st, ('opaque', self.fresh('fcmp')))
            else:
                regs[inst.id] = TopV('fp')
            return None
        if op in ('fptosi', 'fptoui'):
            regs[inst.id] = self.fresh_int(st, int_bits(inst.ty) or 32, 'fp2i')
            return None
        if op == 'freeze':
            regs[inst.id] = self.val(st, inst.a[0])
            return None
        if op in ('va_arg', 'atomicrmw', 'cmpxchg', 'fence', 'extractelement', 'insertelement', 'shufflevector'):
            regs[inst.id] = self.fresh_for_type(st, inst.ty, op)
            return None
        raise Unmodelled('instruction %s in %s' % (op, fr.fn.dem))

    # ------------------------------------------------------------------ pieces
    def gep(self, st, inst):
        base = self.val(st, inst.d['base'])
        if not isinstance(base, PtrV):
            return self.fresh_ptr(st, 'gep')
        if base.obj is None:
            return base if all(s[0] == 's' or (s[1][0] == 'i' and s[1][1] == 0) for s in inst.d['steps']) and \
                inst.d.get('off') == 0 else PtrV(None)
        off = base.off
        for s in inst.d['steps']:
            if s[0] == 's':
                off = off + s[2]
            else:
                idx = self.val(st, s[1])
                if isinstance(idx, IntV):
                    l = self.slin(st, idx)
                    if l is None:
                        l = self.as_s(st, idx)
                    off = off + l.scale(s[2])
                else:
                    a = self.fresh('idx')
                    st.rng[a] = (-(1 << 62), 1 << 62)
                    off = off + Lin.atom(a).scale(s[2])
        return PtrV(base.obj, off, base.nz)

    def icmp(self, st, pred, a, b):
        # (x & 1) / bool round trips
        if isinstance(a, IntV) and isinstance(b, IntV) and not b.lin.t and b.lin.c == 0 and pred in ('ne', 'eq'):
            c = self.cond_of(st, a)
            if c is not None:
                return self.mk_bool(st, c if pred == 'ne' else self.neg(c))
        if isinstance(a, TopV) or isinstance(b, TopV) or isinstance(a, AggV) or isinstance(b, AggV):
            return self.mk_bool(st, ('opaque', self.fresh('cmp')))
        return self.mk_bool(st, ('icmp', pred, a, b))

    def cast(self, st, inst, op, a):
        bits = int_bits(inst.ty) or 64
        if not isinstance(a, IntV):
            return self.fresh_int(st, bits, op)
        if op == 'zext':
            c = self.cond_of(st, a)
            if c is not None:
                return IntV(bits, a.lin, 'u')
            return IntV(bits, self.as_u(st, a), 'u')
        if op == 'sext':
            c = self.cond_of(st, a)
            if c is not None and a.bits == 1:
                return IntV(bits, -a.lin, 's')
            return IntV(bits, self.as_s(st, a), 's')
        # trunc
        c = self.cond_of(st, a)
        if bits == 1:
            if c is not None:
                return IntV(1, a.lin, 'u')
            if not a.lin.t:
                return IntV(1, Lin.const(a.lin.c & 1), 'u')
            lo, hi = st.range(a.lin)
            if lo >= 0 and hi <= 1:
                name = self.fresh('c')
                sa = a.lin.single_atom()
                if sa is not None and sa[1] == 1 and sa[2] == 0:
                    return self.mk_bool(st, ('nz', sa[0]))
            return self.mk_bool(st, ('opaque', self.fresh('trunc')))
        M = 1 << bits
        lin = a.lin
        lo, hi = st.range(lin)
        if a.kind == 'u':
            if lo >= 0 and hi < M:
                return IntV(bits, lin, 'u')
        else:
            H = M >> 1
            if lo >= -H and hi < H:
                return IntV(bits, lin, 's')
        if lo > -INF and hi < INF and (lo // M) == (hi // M):
            # the whole range lies in one 2^bits page: truncation subtracts a known multiple
            return IntV(bits, lin - (lo // M) * M, 'u')
        st.ev('narrow', inst, a, (lo, hi), bits)
        src = self.as_u(st, a) if a.kind == 'u' else a.lin
        at = ('mod', src, bits)
        if at not in st.rng:
            st.rng[at] = (0, M - 1)
        return IntV(bits, Lin.atom(at), 'u')

    def inttoptr(self, st, v):
        if isinstance(v, IntV):
            for a, k in v.lin.t:
                if isinstance(a, str) and a.startswith('addr:') and k == 1:
                    oid = a[5:]
                    return PtrV(oid, v.lin - Lin.atom(a))
            if not v.lin.t and v.lin.c == 0:
                return NULL
        return self.fresh_ptr(st, 'i2p', maynull=True)

    def divmod_facts(self, st, x, k, bits):
        """x = k*q + r with 0 <= r < k for q = udiv(x,k), r = urem(x,k) (both atoms are created)."""
        qa = ('udiv', x, Lin.const(k), bits)
        ra = ('urem', x, Lin.const(k), bits)
        lo, hi = st.range(x)
        if qa not in st.rng:
            st.rng[qa] = (max(lo, 0) // k, hi // k if hi < INF else (1 << bits) - 1)
        if ra not in st.rng:
            st.rng[ra] = (0, k - 1)
        d = x - Lin.atom(qa).scale(k) - Lin.atom(ra)
        key = ('divmod', repr(x), k)
        if key not in st.flags:
            st.flags[key] = True
            st.assume_eq0(d)

    def opaque_op(self, st, name, bits, a, b, rng):
        at = (name, a, b, bits)
        old = st.rng.get(at)
        if old is None:
            st.rng[at] = rng
        else:
            st.rng[at] = (max(old[0], rng[0]), min(old[1], rng[1]))
        return IntV(bits, Lin.atom(at), 'u')

    def binop(self, st, inst, op, a, b):
        bits = int_bits(inst.ty) or 64
        if isinstance(a, PtrV) or isinstance(b, PtrV):
            return self.fresh_int(st, bits, op)
        if not isinstance(a, IntV) or not isinstance(b, IntV):
            return self.fresh_int(st, bits, op)
        M = 1 << bits
        if bits == 1 and op in ('and', 'or', 'xor'):
            ca, cb = self.cond_of(st, a), self.cond_of(st, b)
            if ca is None and not a.lin.t:
                ca = ('const', a.lin.c != 0)
            if cb is None and not b.lin.t:
                cb = ('const', b.lin.c != 0)
            if ca is not None and cb is not None:
                if op == 'xor':
                    if cb == ('const', True):
                        return self.mk_bool(st, self.neg(ca))
                    if ca == ('const', True):
                        return self.mk_bool(st, self.neg(cb))
                    return self.mk_bool(st, ('opaque', self.fresh('xor')))
                return self.mk_bool(st, (op, ca, cb))
        if op in ('add', 'sub'):
            # choose a common view
            if a.kind == 's' or b.kind == 's':
                la, lb = self.slin(st, a), self.slin(st, b)
                if la is not None and lb is not None:
                    r = la + lb if op == 'add' else la - lb
                    if inst.d.get('nsw'):
                        lo, hi = st.range(r)
                        H = M >> 1
                        if lo >= -H and hi < H:
                            return IntV(bits, r, 's')
                        st.ev('nsw-overflow?', inst, r, bits)
                    return self.mk_s(st, bits, r, inst, op)
            la, lb = self.as_u(st, a), self.as_u(st, b)
            if op == 'add':
                # adding a constant with the top bit set is a subtraction of its two's complement
                if not lb.t and lb.c >= (M >> 1) and la.t:
                    lb = Lin.const(lb.c - M)
                elif not la.t and la.c >= (M >> 1) and lb.t:
                    la = Lin.const(la.c - M)
            r = la + lb if op == 'add' else la - lb
            if op == 'sub' and inst.d.get('nsw'):
                # signed subtraction flagged no-wrap: keep the signed view when the unsigned one would wrap
                sa, sb = self.slin(st, a), self.slin(st, b)
                if sa is not None and sb is not None:
                    lo, hi = st.range(sa - sb)
                    H = M >> 1
                    if lo < 0 and lo >= -H and hi < H:
                        return IntV(bits, sa - sb, 's')
            if self.h.split_wrap:
                lo, hi = st.range(r)
                if (lo < 0 <= hi) or (lo < M <= hi):
                    return ('split', r, bits)
            return self.mk_u(st, bits, r, inst, op)
        if op == 'mul':
            if not a.lin.t or not b.lin.t:
                k, x = (a, b) if not a.lin.t else (b, a)
                kc = k.lin.c
                if x.kind == 's':
                    if kc >= M >> 1:
                        kc -= M
                    return self.mk_s(st, bits, x.lin.scale(kc), inst, op)
                return self.mk_u(st, bits, x.lin.scale(kc), inst, op)
            la, lb = self.as_u(st, a), self.as_u(st, b)
            (alo, ahi), (blo, bhi) = st.range(la), st.range(lb)
            at = ('mul', la, lb)
            if at not in st.rng:
                st.rng[at] = (max(alo, 0) * max(blo, 0), ahi * bhi if ahi < INF and bhi < INF else INF)
            return self.mk_u(st, bits, Lin.atom(at), inst, op)
        if op in ('udiv', 'urem'):
            la, lb = self.as_u(st, a), self.as_u(st, b)
            if not la.t and not lb.t and lb.c:
                return self.const_int(bits, la.c // lb.c if op == 'udiv' else la.c % lb.c)
            (alo, ahi), (blo, bhi) = st.range(la), st.range(lb)
            if op == 'udiv':
                if not lb.t and lb.c > 0 and all(k % lb.c == 0 for _, k in la.t) and la.c % lb.c == 0 and inst.d.get('exact'):
                    return IntV(bits, Lin(la.c // lb.c, tuple((x, k // lb.c) for x, k in la.t)), 'u')
                rng = (max(alo, 0) // max(bhi, 1) if bhi < INF else 0, ahi // max(blo, 1) if ahi < INF else M - 1)
                q = self.opaque_op(st, 'udiv', bits, la, lb, rng)
                if not lb.t and lb.c > 0:
                    self.divmod_facts(st, la, lb.c, bits)
                elif lb.t and isinstance(q, IntV) and q.lin.t:
                    st.assume_ge0(la - q.lin)       # a / b <= a for every divisor the division is defined for (b >= 1)
                return q
            rng = (0, min(ahi, (bhi - 1) if bhi < INF else M - 1, M - 1))
            if rng[1] < 0:
                rng = (0, M - 1)
            r_ = self.opaque_op(st, 'urem', bits, la, lb, rng)
            if not lb.t and lb.c > 0:
                self.divmod_facts(st, la, lb.c, bits)
            return r_
        if op in ('sdiv', 'srem'):
            la, lb = self.slin(st, a), self.slin(st, b)
            if la is not None and lb is not None and lb.t:
                (alo, ahi), (blo, bhi) = st.range(la), st.range(lb)
                if alo >= 0 and blo >= 1:
                    # both operands non-negative: same as the unsigned operation
                    if op == 'sdiv':
                        return self.opaque_op(st, 'udiv', bits, la, lb, (alo // max(bhi, 1) if bhi < INF else 0, ahi // blo if ahi < INF else M - 1))
                    return self.opaque_op(st, 'urem', bits, la, lb, (0, min(ahi, bhi - 1 if bhi < INF else M - 1)))
            if la is not None and lb is not None and not lb.t and lb.c > 0:
                if not la.t:
                    q = abs(la.c) // lb.c
                    q = q if la.c >= 0 else -q
                    r = la.c - q * lb.c
                    return self.mk_s(st, bits, Lin.const(q if op == 'sdiv' else r))
                if op == 'sdiv' and all(k % lb.c == 0 for _, k in la.t) and la.c % lb.c == 0 and inst.d.get('exact'):
                    return self.mk_s(st, bits, Lin(la.c // lb.c, tuple((x, k // lb.c) for x, k in la.t)))
                lo, hi = st.range(la)
                if lo >= 0:
                    if op == 'sdiv':
                        return self.opaque_op(st, 'udiv', bits, la, lb, (lo // lb.c, hi // lb.c if hi < INF else M - 1))
                    return self.opaque_op(st, 'urem', bits, la, lb, (0, min(hi, lb.c - 1)))
            return self.fresh_int(st, bits, op, signed=True)
        if op in ('and', 'or', 'xor'):
            la, lb = self.as_u(st, a), self.as_u(st, b)
            if not la.t and not lb.t:
                v = (la.c & lb.c) if op == 'and' else (la.c | lb.c) if op == 'or' else (la.c ^ lb.c)
                return self.const_int(bits, v % M)
            if la.t and not lb.t:
                pass
            elif lb.t and not la.t:
                la, lb = lb, la
            (alo, ahi), (blo, bhi) = st.range(la), st.range(lb)
            ahi = min(ahi, M - 1)
            bhi = min(bhi, M - 1)
            if op == 'and':
                if not lb.t and lb.c == M - 1:
                    return IntV(bits, la, 'u')
                if not lb.t and lb.c == 0:
                    return self.const_int(bits, 0)
                # x & (2^k - 1) when x already fits
                if not lb.t and (lb.c & (lb.c + 1)) == 0 and ahi <= lb.c and alo >= 0:
                    return IntV(bits, la, 'u')
                rng = (0, min(ahi, bhi))
                if not lb.t and alo >= 0:
                    reach = lb.c & ((1 << max(ahi, 0).bit_length()) - 1)
                    if reach == 0:
                        return self.const_int(bits, 0)
                    rng = (0, min(ahi, reach))
            else:
                if not lb.t and lb.c == 0:
                    return IntV(bits, la, 'u')
                top = max(ahi, bhi)
                rng = (max(alo, blo) if op == 'or' else 0, (1 << max(top, 0).bit_length()) - 1)
            if not lb.t and alo >= 0 and ahi - alo <= 4096:
                k = lb.c
                vals = [(v & k) if op == 'and' else (v | k) if op == 'or' else (v ^ k) for v in range(alo, ahi + 1)]
                rng = (min(vals), max(vals))
                if rng[0] == rng[1]:
                    return self.const_int(bits, rng[0])
            if lb.t and repr(lb) < repr(la):
                la, lb = lb, la
            return self.opaque_op(st, op, bits, la, lb.c if not lb.t else lb, rng)
        if op == 'shl':
            if not b.lin.t:
                c = b.lin.c
                if c >= bits:
                    return self.const_int(bits, 0)
                if a.kind == 's':
                    return self.mk_s(st, bits, a.lin.scale(1 << c), inst, op)
                return self.mk_u(st, bits, a.lin.scale(1 << c), inst, op)
            la, lb = self.as_u(st, a), self.as_u(st, b)
            if la is not None and lb is not None and not la.t and 0 <= la.c < M:
                # a constant shifted by a variable amount (a bit selected by a value): kept as a term of that amount
                blo, bhi = st.range(lb)
                if 0 <= blo and bhi < bits:
                    return self.opaque_op(st, 'shl', bits, la, lb, (la.c << blo if la.c << blo < M else 0, min(la.c << bhi, M - 1)))
            return self.fresh_int(st, bits, 'shl')
        if op == 'lshr':
            la = self.as_u(st, a)
            if not b.lin.t:
                c = b.lin.c
                if not la.t:
                    return self.const_int(bits, la.c >> c)
                lo, hi = st.range(la)
                if lo >= 0 and (lo >> c) == (min(hi, M - 1) >> c):
                    return self.const_int(bits, lo >> c)
                return self.opaque_op(st, 'lshr', bits, la, c, (max(lo, 0) >> c, min(hi, M - 1) >> c))
            lb = self.as_u(st, b)
            if la is not None and lb is not None:
                blo, bhi = st.range(lb)
                lo, hi = st.range(la)
                if 0 <= blo and bhi < bits and lo >= 0:
                    return self.opaque_op(st, 'lshr', bits, la, lb, (0, min(hi, M - 1) >> blo))
            return self.fresh_int(st, bits, 'lshr')
        if op == 'ashr':
            la = self.slin(st, a)
            if la is not None and not b.lin.t:
                lo, hi = st.range(la)
                c = b.lin.c
                if lo >= 0:
                    return self.opaque_op(st, 'lshr', bits, la, c, (lo >> c, min(hi, M - 1) >> c))
                if lo > -INF and hi < INF:
                    at = ('ashr', la, c, bits)
                    st.rng[at] = (lo >> c, hi >> c)
                    return IntV(bits, Lin.atom(at), 's')
            return self.fresh_int(st, bits, 'ashr', signed=True)
        return self.fresh_int(st, bits, op)

    # ------------------------------------------------------------------ calls / returns / unwinding
    def do_return(self, st, rv):
        fr = st.frames.pop()
        for oid in fr.allocas:
            o = st.objs.get(oid)
            if o is not None:
                o.attrs['dead'] = True
        if not st.frames:
            st.frames.append(fr)        # keep for inspection
            self.end_path(st, 'ret', rv)
            return 'end'
        caller = st.frames[-1]
        ci = fr.callinst
        if rv is not None:
            caller.regs[ci.id] = rv
        if ci.op == 'invoke':
            return self.goto(st, ci.d['normal'])
        return None


    def unwind(self, st, pop_current):
        """Propagate st.exc: the instruction that raised is the last one executed in the top frame
        (or the call instruction of a popped frame)."""
        first = True
        while st.frames:
            fr = st.frames[-1]
            if first and pop_current:
                # 'resume' in this frame: leave it
                st.frames.pop()
                ci = fr.callinst
                first = False
                if not st.frames:
                    st.frames.append(fr)
                    self.end_path(st, 'throw', st.exc)
                    return 'end'
                fr = st.frames[-1]
                inst = ci
            else:
                blk = fr.fn.blocks[fr.block]
                inst = blk.insts[fr.idx - 1]
                first = False
            if inst.op == 'invoke':
                pad = inst.d['unwind']
                r = self.goto(st, pad)
                if r == 'end':
                    return 'end'
                lp = fr.fn.blocks[pad].insts[fr.idx] if fr.fn.blocks[pad].insts[fr.idx].op == 'landingpad' else None
                if lp is not None:
                    fr.regs[lp.id] = AggV([PtrV(st.exc[1]) if st.exc[1] else TopV('exc'), self.selector(st, lp)])
                    fr.idx += 1
                return None
            # plain call: the frame is left
            st.frames.pop()
            if not st.frames:
                st.frames.append(fr)
                self.end_path(st, 'throw', st.exc)
                return 'end'
            ci = fr.callinst
            # continue the loop with the caller; its current instruction is ci
        return 'end'

    def typeid(self, gname):
        if gname not in self.typeids:
            self.typeids[gname] = len(self.typeids) + 1
        return self.typeids[gname]

    def selector(self, st, lp):
        tname = st.exc[0] if st.exc else None
        for kind, op in lp.d['clauses']:
            if kind != 'catch':
                continue
            o = factsmod.strip_casts(op)
            if o[0] == 'n':
                return self.const_int(32, 1 << 20)
            if o[0] == 'g' and self.F is not None and tname is not None:
                cn = factsmod.typeinfo_name(self.m, o[1])
                types = tname if isinstance(tname, (tuple, list, set, frozenset)) else [tname]
                if all(self.F.is_a(t, cn) for t in types):
                    return self.const_int(32, self.typeid(o[1]))
        return self.const_int(32, 0)

    def do_call(self, st, fr, inst):
        c = inst.d['callee']
        c2 = factsmod.strip_casts(c)
        name = None
        if c2[0] == 'g':
            name = self.m.resolve(c2[1])
        elif c2[0] == 'v':
            cv = self.val(st, c2)
            if isinstance(cv, PtrV) and cv.obj and cv.obj.startswith('G:') and st.objs[cv.obj].kind == 'function':
                name = st.objs[cv.obj].attrs['fn']
        elif c2[0] == 'asm':
            return self.finish_call(st, inst, None)
        args = [self.val(st, a) for a in inst.a]
        # 1. rule override
        if name is not None or True:
            r = self.h.call(self, st, inst, name, args)
            if r is not None:
                return self.continuations(st, inst, r)
        if name is None:
            return self.havoc_call(st, inst, None, args)
        # 2. models
        r = self.model(st, inst, name, args)
        if r is not None:
            return self.continuations(st, inst, r)
        # 3. interpret the callee
        if self.m.has(name):
            fn = self.m.func(name)
            depth = len(st.frames)
            rec = any(f.fn.name == name for f in st.frames)
            opaque = factsmod.is_iostream_fn(fn.dem) and not self.m.is_lib(fn)
            if not rec and not opaque and depth < self.h.max_depth and self.h.should_inline(self, name, fn):
                nf = Frame(fn)
                for k, v in enumerate(args):
                    nf.regs[k] = v
                nf.callinst = inst
                st.frames.append(nf)
                st.trail.append((fn.name, 0))
                return None
            if depth >= self.h.max_depth:
                st.depth_hits += 1
        # 4. havoc
        return self.havoc_call(st, inst, name, args)

    def continuations(self, st, inst, conts):
        """conts: list of (state, value); the first continues in place when it is st itself."""
        if conts == 'end':
            return 'end'
        if conts == 'cont':
            return None
        mine = None
        for (s, v) in conts:
            if s is st:
                mine = v
                continue
            r = self.finish_call(s, inst, v)
            if r != 'end':
                self.work.append(s)
        if mine is None and not any(s is st for (s, v) in conts):
            return 'end'
        return self.finish_call(st, inst, mine)

    def finish_call(self, st, inst, v):
        fr = st.frames[-1]
        if v is not None:
            fr.regs[inst.id] = v
        elif inst.ty != 'void':
            fr.regs[inst.id] = self.fresh_for_type(st, inst.ty, 'ret')
        if inst.op == 'invoke':
            return self.goto(st, inst.d['normal'])
        return None

    def havoc_call(self, st, inst, name, args):
        writes = None
        throws = set()
        if name is not None and self.E is not None:
            s = self.E.callee_summary(name)
            writes = s['writes']
        if name is not None and self.F is not None:
            throws = self.F.throws.get(name)
            if throws is None:
                throws = self.F.ext_throws(name)
        for j, a in enumerate(args):
            if isinstance(a, PtrV) and a.obj is not None and (writes is None or j in writes):
                self.havoc_obj(st, a.obj, 'call ' + (name or '?'))
        st.ev('havoc-call', inst, name)
        forked = [t for t in throws if t in self.h.fork_throw_types]
        if forked and not inst.d.get('nounwind'):
            s2 = self.fork(st)
            s2.frames[-1].regs[inst.id] = TopV('unwound')
            r = self.throw(s2, tuple(sorted(forked)) if len(forked) > 1 else forked[0])
            if r != 'end':
                self.work.append(s2)
        return self.finish_call(st, inst, None)

    # models of externals and of a few libstdc++ helpers; return list of (state, value) or None
    def model(self, st, inst, name, args):
        if name.startswith('llvm.'):
            return self.model_intrinsic(st, inst, name, args)
        if name in ('_Znam', '_Znwm'):
            n = args[0]
            size = self.as_u(st, n) if isinstance(n, IntV) else None
            conts = []
            if self.h.fork_bad_alloc:
                s2 = self.fork(st)
                s2.ev('alloc-fails', inst)
                s2.frames[-1].regs[inst.id] = TopV('unwound')
                r = self.throw(s2, 'std::bad_alloc')
                if r != 'end':
                    self.work.append(s2)
            oid = self.new_obj(st, 'heap', size, 'heap')
            st.objs[oid].attrs['site'] = inst
            st.objs[oid].attrs['array'] = (name == '_Znam')
            st.ev('new', inst, oid, size)
            return [(st, PtrV(oid, ZERO))]
        if name in ('_ZdaPv', '_ZdlPv'):
            p = args[0]
            if isinstance(p, PtrV):
                nl = self.ptr_nullness(st, p)
                if nl is True:
                    return [(st, None)]
                o = st.objs.get(p.obj)
                if o is not None:
                    if o.kind != 'heap':
                        st.ev('free-nonheap', inst, p)
                    elif o.freed:
                        st.ev('double-free', inst, p.obj)
                    elif st.is_eq0(p.off) is not True:
                        st.ev('free-interior', inst, p)
                    o.freed = True
                    st.ev('free', inst, p.obj)
            return [(st, None)]
        if name == 'abort' or name == '__clang_call_terminate' or name == '_ZSt9terminatev' or name == '__cxa_pure_virtual':
            self.end_path(st, 'abort', info=(name, inst))
            return 'end'
        if name == '_ZN11_ST_PRIVATE14assert_handlerEPKciS1_':
            msg = self.cstring(st, args[2]) if len(args) > 2 else None
            st.ev('assert', inst, msg)
            self.end_path(st, 'abort', info=('assert', msg, inst))
            return 'end'
        if name == '__cxa_allocate_exception':
            oid = self.new_obj(st, 'exc', None, 'exc')
            return [(st, PtrV(oid, ZERO))]
        if name == '__cxa_free_exception':
            return [(st, None)]
        if name == '__cxa_throw':
            ti = factsmod.strip_casts(inst.a[1])
            tname = factsmod.typeinfo_name(self.m, ti[1]) if ti[0] == 'g' else 'unknown'
            exc = args[0].obj if isinstance(args[0], PtrV) else None
            return self.throw(st, tname, exc)
        if name == '__cxa_begin_catch':
            return [(st, args[0])]
        if name == '__cxa_end_catch':
            return [(st, None)]
        if name == '__cxa_rethrow':
            return self.throw(st, st.exc[0] if st.exc else 'unknown', st.exc[1] if st.exc else None)
        m = TRAITS_RE.match(self.m.dem(name))
        if m:
            return self.model_traits(st, inst, name, m.group(1), m.group(2), args)
        if name in ('strlen', 'wcslen'):
            return [(st, self.strlen(st, inst, args[0], 1 if name == 'strlen' else 4))]
        if name in ('memcpy', 'memmove', 'wmemcpy', 'wmemmove'):
            k = 4 if name[0] == 'w' else 1
            n = self.as_u(st, args[2]).scale(k) if isinstance(args[2], IntV) else None
            self.copy(st, inst, args[0], args[1], n)
            return [(st, args[0])]
        if name in ('memset', 'wmemset'):
            k = 4 if name[0] == 'w' else 1
            n = self.as_u(st, args[2]).scale(k) if isinstance(args[2], IntV) else None
            self.fill(st, inst, args[0], args[1], n)
            return [(st, args[0])]
        if name in ('strtol', 'strtoul', 'strtoll', 'strtoull', 'strtod', 'strtof', 'strtold'):
            return self.model_strto(st, inst, name, args)
        if name in ('snprintf', 'vsnprintf'):
            d, n = args[0], args[1]
            nl = self.as_u(st, n) if isinstance(n, IntV) else None
            snap = None
            if isinstance(args[2], PtrV) and args[2].obj in st.objs:
                fo = st.objs[args[2].obj]
                snap = (dict(fo.cells), list(fo.regions), args[2], fo.attrs.get('data') if fo.attrs.get('const') else None)
            # returns the untruncated length; conversions of a floating-point value always produce at least one character
            conts = []
            if self.h.snprintf_may_fail(self, st, inst, args, snap):
                # the failure return: nothing usable was rendered, the result is negative
                sf = self.fork(st)
                sf.ev('snprintf-fail', inst, d, nl, snap, list(args[3:]))
                if isinstance(d, PtrV) and nl is not None:
                    self.region_write(sf, inst, d, nl, ('havoc', 'snprintf'), 'snprintf')
                # (C: a negative value; glibc 2.36 also returns 0 for "%.2147483647f")
                conts.append((sf, self.fresh_int(sf, 32, 'printfail', signed=True, lo=-(1 << 31), hi=0)))
            res = self.fresh_int(st, 32, 'printed', signed=True, lo=1, hi=(1 << 31) - 1)
            st.ev('snprintf', inst, d, nl, snap, list(args[3:]), res)
            if isinstance(d, PtrV) and nl is not None:
                self.region_write(st, inst, d, nl, ('havoc', 'snprintf'), 'snprintf')
            return [(st, res)] + conts
        if name in ('strcat', 'strncat', 'strcpy', 'strncpy') and len(args) >= 2 and isinstance(args[0], PtrV) and args[0].obj is not None:
            # C string writers: the bytes written are bounded by the lengths of the strings involved, not by the destination -
            # the destination's capacity is an obligation (checked like any other store range)
            d, src = args[0], args[1]
            ls = self.strlen(st, inst, src, 1)
            lsl = self.as_u(st, ls) if isinstance(ls, IntV) else None
            nl = self.as_u(st, args[2]) if len(args) > 2 and isinstance(args[2], IntV) else None
            start = ZERO
            if name in ('strcat', 'strncat'):
                # current length of the destination text: read off its known content, else a symbol below its capacity
                cap = st.objs[d.obj].size if d.obj in st.objs else None
                known = None
                if cap is not None and not cap.t and not d.off.t and cap.c - d.off.c <= 4096:
                    for k in range(cap.c - d.off.c):
                        v = self.load(st, None, PtrV(d.obj, d.off + k), 'i8', 1)
                        if not (isinstance(v, IntV) and not v.lin.t):
                            break
                        if v.lin.c == 0:
                            known = k
                            break
                if known is not None:
                    start = Lin.const(known)
                else:
                    a = self.fresh('dstlen')
                    st.rng[a] = (0, MAXLEN)
                    start = Lin.atom(a)
            cl = self.fresh('catlen')
            st.rng[cl] = (0, MAXLEN)
            if lsl is not None:
                st.assume_ge0(lsl - Lin.atom(cl))
            if name in ('strncat', 'strncpy') and nl is not None:
                st.assume_ge0(nl - Lin.atom(cl))
            if name == 'strncpy' and nl is not None:
                wlen = nl                                   # strncpy always writes exactly n bytes
            else:
                wlen = Lin.atom(cl) + 1                     # the characters and the terminator
            st.ev(name, inst, d, src, nl, start)
            self.region_write(st, inst, PtrV(d.obj, d.off + start), wlen, ('havoc', name), name)
            return [(st, d)]
        if name == 'abs' or name == 'labs' or name == 'llabs':
            st.ev('abs', inst, args[0])
            return [(st, self.fresh_int(st, int_bits(inst.ty) or 32, 'abs', signed=True))]
        return None

    def throw(self, st, tname, exc=None):
        """Raise in st: returns 'end' (left the outermost frame) or 'cont' (positioned at a landing pad)."""
        st.exc = (tname, exc)
        st.ev('throw', tname)
        r = self.unwind(st, pop_current=False)
        return 'end' if r == 'end' else 'cont'

    def model_strto(self, st, inst, name, args):
        """strto*(s, &end[, base]): reads the C string at s up to (at most) its NUL; *end = s + j, j >= 0."""
        s_, endp = args[0], args[1]
        st.ev('strto', inst, name, s_)
        j = self.fresh('j')
        st.rng[j] = (0, MAXLEN)
        if isinstance(s_, PtrV) and s_.obj is not None:
            if self.ptr_nullness(st, s_) is not False:
                st.ev('maybe-null', inst, name, s_)
            o = st.objs.get(s_.obj)
            L = o.attrs.get('cstr_len') if o is not None else None
            if L is not None:
                # the start must lie inside the text (reading begins at s)
                chk = self.access_check(st, inst, 'strto', s_, o.attrs.get('cstr_eb', 1))
                # the scan stops at or before the terminator
                st.assume_ge0(L - s_.off - Lin.atom(j))
                # a leading unit known to be a decimal digit is always consumed
                a = ('load', s_.obj, s_.off, o.version, 8)
                lo, hi = st.arange(a)
                if a in st.rng and lo >= 0x30 and hi <= 0x39:
                    st.assume_ge0(Lin.atom(j) - 1)
            else:
                st.ev('strto-unterminated?', inst, name, s_)
            endv = PtrV(s_.obj, s_.off + Lin.atom(j), None)
        else:
            endv = self.fresh_ptr(st, 'end')
        if isinstance(endp, PtrV) and self.ptr_nullness(st, endp) is not True:
            self.store(st, inst, endp, endv, 8)
        if name in ('strtod', 'strtof', 'strtold'):
            return [(st, TopV('fp'))]
        bits = int_bits(inst.ty) or 64
        return [(st, self.fresh_int(st, bits, 'strto', signed=name in ('strtol', 'strtoll')))]

    def cstring(self, st, p):
        if isinstance(p, PtrV) and p.obj and p.obj.startswith('G:') and not p.off.t:
            o = st.objs[p.obj]
            data = o.attrs.get('data')
            if data is not None and o.attrs.get('eltbytes', 1) == 1:
                s = data[p.off.c:]
                if 0 in s:
                    s = s[:s.index(0)]
                try:
                    return bytes(s).decode('utf-8', 'replace')
                except ValueError:
                    return None
        return None

    def strlen(self, st, inst, p, eb):
        if isinstance(p, PtrV):
            if self.ptr_nullness(st, p) is True:
                st.ev('null-deref', inst, 'strlen')
            elif self.ptr_nullness(st, p) is None:
                st.ev('maybe-null', inst, 'strlen', p)
            s = self.cstring(st, p)
            if s is not None and eb == 1:
                return self.const_int(64, len(s.encode('utf-8')))
            oo = st.objs.get(p.obj)
            if oo is not None and oo.attrs.get('cstr_len') is not None and not oo.attrs.get('cstr_weak') and oo.attrs.get('cstr_eb', 1) == eb:
                self.access_check(st, inst, 'strlen', p, eb)
                return IntV(64, (oo.attrs['cstr_len'] - p.off) if eb == 1 else self.fresh_int(st, 64, 'len').lin, 'u')
            a = ('strlen', p.obj, p.off, st.objs[p.obj].version if p.obj in st.objs else 0)
            if a not in st.rng:
                st.rng[a] = (0, MAXLEN)
            o = st.objs.get(p.obj)
            if o is not None and o.size is None and o.kind in ('ext', 'param'):
                o.attrs.setdefault('strlen', []).append((p.off, Lin.atom(a), eb))
            return IntV(64, Lin.atom(a), 'u')
        return self.fresh_int(st, 64, 'strlen', hi=MAXLEN)

    def copy(self, st, inst, d, s, nbytes):
        if nbytes is None:
            nbytes = self.as_u(st, self.fresh_int(st, 64, 'n'))
        st.ev('copy', inst, d, s, nbytes)
        if isinstance(d, PtrV) and isinstance(s, PtrV) and d.obj is not None and d.obj == s.obj and \
                st.is_eq0(d.off - s.off) is True:
            # exact self-copy: contents unchanged
            self.region_read(st, inst, s, nbytes, 'copy-src')
            st.ev('self-copy', inst, d)
            return 'ok'
        self.region_read(st, inst, s, nbytes, 'copy-src')
        so = st.objs.get(s.obj) if isinstance(s, PtrV) and s.obj is not None else None
        sver = so.version if so is not None else 0
        # what is known about the source range is carried over (snapshot semantics)
        carry_cells, carry_vals = [], []
        if so is not None and isinstance(d, PtrV) and d.obj is not None:
            if not s.off.t:
                for coff, (csz, cv) in so.cells.items():
                    inside = coff >= s.off.c and st.is_ge0(s.off + nbytes - (coff + csz)) is True
                    if inside:
                        carry_cells.append((coff - s.off.c, csz, cv))
            for (roff, rlen, tag, ver) in so.regions:
                if tag[0] in ('val', 'fill') and st.is_ge0(roff - s.off) is True and st.is_ge0(s.off + nbytes - roff - rlen) is True:
                    carry_vals.append((roff - s.off, rlen, tag))
                elif tag[0] in ('copy', 'havoc'):
                    # an older bulk write hides what came before it unless provably disjoint from later entries;
                    # keep it simple: forget carried scalar facts recorded before it that it may overlap
                    keep = []
                    for (co, cl, ct) in carry_vals:
                        before = st.is_ge0(roff - s.off - co - cl) is True
                        after = st.is_ge0(s.off + co - roff - rlen) is True
                        if before or after:
                            keep.append((co, cl, ct))
                    carry_vals = keep
        # bytes of the source that nothing is known about yet: when the source is an object of the scene whose range was never
        # written (its contents are what the operation found on entry) and the copy is a small one at constant offsets, the tag
        # remembers that - a later read through the copy then names the entry value of the source byte, even if the source has
        # been overwritten in the meantime (snapshot semantics for the part that carries no cell)
        entry_src = None
        if so is not None and (so.lazy or so.kind in ('param', 'ext', 'global')) and not s.off.t and not nbytes.t and nbytes.c <= 256 and \
                not so.attrs.get('cstr_len') and not so.attrs.get('data'):
            pristine = True
            for (roff, rlen, tag, ver) in so.regions:
                rl = rlen if isinstance(rlen, Lin) else Lin.const(rlen)
                if not (st.is_ge0(roff - s.off - nbytes) is True or st.is_ge0(s.off - roff - rl) is True):
                    pristine = False
                    break
            if pristine:
                entry_src = ('entry', s.obj, s.off.c, tuple(sorted((coff, csz) for coff, (csz, cv) in so.cells.items())))
        r = self.region_write(st, inst, d, nbytes, ('copy', s, sver) + ((entry_src,) if entry_src else ()), 'copy')
        if isinstance(d, PtrV) and d.obj in st.objs and (carry_cells or carry_vals):
            do = st.objs[d.obj]
            for (rel, csz, cv) in carry_cells:
                off = d.off + rel
                if not off.t:
                    do.cells[off.c] = (csz, cv)
                else:
                    do.regions.append((off, Lin.const(csz), ('val', cv, csz), do.version))
            for (rel, rlen, tag) in carry_vals:
                do.regions.append((d.off + rel, rlen, tag, do.version))
        return r

    def fill(self, st, inst, d, v, nbytes):
        if nbytes is None:
            nbytes = self.as_u(st, self.fresh_int(st, 64, 'n'))
        st.ev('fill', inst, d, v, nbytes)
        return self.region_write(st, inst, d, nbytes, ('fill', v), 'fill')

    def model_intrinsic(self, st, inst, name, args):
        if name.startswith('llvm.memcpy') or name.startswith('llvm.memmove'):
            n = self.as_u(st, args[2]) if isinstance(args[2], IntV) else None
            self.copy(st, inst, args[0], args[1], n)
            return [(st, None)]
        if name.startswith('llvm.memset'):
            n = self.as_u(st, args[2]) if isinstance(args[2], IntV) else None
            self.fill(st, inst, args[0], args[1], n)
            return [(st, None)]
        if name.startswith('llvm.umul.with.overflow'):
            a, b = args
            bits = a.bits if isinstance(a, IntV) else 64
            if isinstance(a, IntV) and isinstance(b, IntV):
                la, lb = self.as_u(st, a), self.as_u(st, b)
                if not lb.t or not la.t:
                    k, x = (lb.c, la) if not lb.t else (la.c, lb)
                    prod = x.scale(k)
                else:
                    at = ('mul', la, lb)
                    st.rng.setdefault(at, (0, INF))
                    prod = Lin.atom(at)
                lo, hi = st.range(prod)
                M = 1 << bits
                if hi < M:
                    return [(st, AggV([IntV(bits, prod, 'u'), self.mk_bool(st, ('const', False))]))]
                ov = self.mk_bool(st, ('icmp', 'uge', IntV(bits + 8, prod, 'u'), IntV(bits + 8, Lin.const(M), 'u')))
                return [(st, AggV([self.mk_u(st, bits, prod, inst, 'umul'), ov]))]
            return [(st, AggV([self.fresh_int(st, bits, 'mul'), self.mk_bool(st, ('opaque', self.fresh('ov')))]))]
        if name == 'llvm.trap':
            self.end_path(st, 'abort', info=('trap', inst))
            return 'end'
        if name.startswith('llvm.eh.typeid.for'):
            o = factsmod.strip_casts(inst.a[0])
            return [(st, self.const_int(32, self.typeid(o[1]) if o[0] == 'g' else 0))]
        if name.startswith('llvm.lifetime') or name.startswith('llvm.dbg') or name.startswith('llvm.va_') or \
                name.startswith('llvm.stack') or name.startswith('llvm.assume') or name.startswith('llvm.experimental'):
            return [(st, None)]
        return [(st, self.fresh_for_type(st, inst.ty, 'intr') if inst.ty != 'void' else None)]

    def model_traits(self, st, inst, name, elt, fnname, args):
        eb = ELT.get(elt)
        if eb is None:
            return None
        if fnname in ('copy', 'move') and len(args) == 3:
            n = self.as_u(st, args[2]).scale(eb) if isinstance(args[2], IntV) else None
            self.copy(st, inst, args[0], args[1], n)
            return [(st, args[0])]
        if fnname == 'assign' and len(args) == 3:
            n = self.as_u(st, args[1]).scale(eb) if isinstance(args[1], IntV) else None
            self.fill(st, inst, args[0], args[2], n)
            return [(st, args[0])]
        if fnname == 'length' and len(args) == 1:
            r = self.strlen(st, inst, args[0], eb)
            return [(st, r)]
        if fnname == 'compare' and len(args) == 3:
            n = self.as_u(st, args[2]).scale(eb) if isinstance(args[2], IntV) else ZERO
            self.region_read(st, inst, args[0], n, 'compare')
            self.region_read(st, inst, args[1], n, 'compare')
            st.ev('compare', inst, args[0], args[1], n)
            key = ('cmp', repr(args[0]), repr(args[1]), repr(n))
            a = ('opaque', key)
            st.rng.setdefault(a, (-(1 << 31), (1 << 31) - 1))
            return [(st, IntV(32, Lin.atom(a), 's'))]
        if fnname == 'find' and len(args) == 3:
            n = self.as_u(st, args[1]).scale(eb) if isinstance(args[1], IntV) else ZERO
            self.region_read(st, inst, args[0], n, 'find')
            st.ev('find', inst, args[0], n, args[2])
            p = args[0]
            if not isinstance(p, PtrV) or p.obj is None:
                return [(st, self.fresh_ptr(st, 'find', maynull=True))]
            s2 = self.fork(st)
            # found: p + k*eb with 0 <= k < n
            k = self.fresh('k')
            cnt = self.as_u(st, args[1]) if isinstance(args[1], IntV) else None
            conts = []
            st.rng[k] = (0, MAXLEN)
            ok = True
            if cnt is not None:
                ok = st.assume_ge0(cnt - Lin.atom(k) - 1)
            if ok:
                conts.append((st, PtrV(p.obj, p.off + Lin.atom(k).scale(eb), None)))
            conts.append((s2, NULL))
            return conts
        return None
