#!/bin/sh
# usage: confirm_seed.sh <dir-with-patch.diff-and-demo.cpp> ...
# Independently confirms a seeded change in a private scratch worktree (removed afterwards): the patch applies to /repo's HEAD, the
# library's own test suite still passes with it, demo.cpp fails with it and passes without it.  Writes <dir>/confirm.json.
for d in "$@"; do
  d=$(cd "$d" && pwd)
  W=$(mktemp -d /tmp/stv_cf.XXXXXX)
  git -C /repo worktree add --detach -f "$W/r" HEAD >/dev/null 2>&1
  applies=false; suite=""; mut_rc=""; orig_rc=""; cc_mut=""; cc_orig=""
  if git -C "$W/r" apply "$d/patch.diff" 2>/dev/null; then
    applies=true
    if cmake -S "$W/r" -B "$W/b" -G Ninja -DFETCHCONTENT_SOURCE_DIR_GTEST=/usr/src/googletest -DFETCHCONTENT_FULLY_DISCONNECTED=ON >"$W/cfg.log" 2>&1 \
       && cmake --build "$W/b" -j${CF_JOBS:-8} >"$W/build.log" 2>&1; then
      suite=$("$W/b/test/st_gtests" --gtest_brief=1 2>&1 | grep -E 'PASSED|FAILED' | head -3 | tr '\n' ' ')
    else
      suite="BUILD-FAILED: $(tail -3 "$W/build.log" | tr '\n' ' ')"
    fi
    if [ -f "$d/demo.cpp" ]; then
      FL="-std=c++20 -g -fsanitize=address,undefined -pthread"
      # the demonstration's own build line decides the sanitizer where it names one (thread sanitizer, non-recovering UBSan)
      if grep -q -- '-fsanitize=thread' "$d/build.txt" 2>/dev/null; then FL="-std=c++20 -g -O1 -fsanitize=thread -pthread"; fi
      if grep -q -- '-fno-sanitize-recover' "$d/build.txt" 2>/dev/null; then FL="$FL -fno-sanitize-recover=all"; fi
      if clang++ $FL -I"$W/r/include" -I"$W/b/include" "$d/demo.cpp" -o "$W/demo_mut" >"$W/cc_mut.log" 2>&1; then
        ( cd "$W" && timeout 300 ./demo_mut >"$W/mut.out" 2>&1 ); mut_rc=$?
      else cc_mut="compile failed: $(head -3 "$W/cc_mut.log" | tr '\n' ' ')"; fi
      if clang++ $FL -I/repo/include -I"$W/b/include" "$d/demo.cpp" -o "$W/demo_orig" >"$W/cc_orig.log" 2>&1; then
        ( cd "$W" && timeout 300 ./demo_orig >"$W/orig.out" 2>&1 ); orig_rc=$?
      else cc_orig="compile failed: $(head -3 "$W/cc_orig.log" | tr '\n' ' ')"; fi
    fi
  fi
  python3 - "$d" "$applies" "$suite" "$mut_rc" "$orig_rc" "$cc_mut$cc_orig" "$W" <<'PY'
import json, sys, os
d, applies, suite, mut, orig, cc, W = sys.argv[1:8]
def tail(p):
    try:
        return open(p, errors='replace').read()[-600:]
    except OSError:
        return ''
ok = applies == 'true' and 'PASSED  ] 112' in suite and 'FAILED' not in suite
res = dict(patch_applies=applies == 'true', suite_with_change=suite.strip(),
           demo_exit_with_change=int(mut) if mut else None, demo_exit_without_change=int(orig) if orig else None,
           compile_note=cc, demo_output_with_change_tail=tail(os.path.join(W, 'mut.out')),
           confirmed=bool(ok and mut not in ('', '0') and orig == '0') if os.path.exists(os.path.join(d, 'demo.cpp')) else ok,
           how='tools/confirm_seed.sh: scratch worktree of /repo HEAD, cmake+ninja build of the suite, clang++ -std=c++20 -fsanitize=address,undefined demo against changed and unchanged headers')
json.dump(res, open(os.path.join(d, 'confirm.json'), 'w'), indent=1)
print(os.path.basename(os.path.dirname(d)) + '/' + os.path.basename(d), 'CONFIRMED' if res['confirmed'] else 'NOT-CONFIRMED', suite.strip()[:40], 'mut=%s orig=%s %s' % (mut, orig, cc[:80]))
PY
  git -C /repo worktree remove --force "$W/r" >/dev/null 2>&1
  rm -rf "$W"
done
