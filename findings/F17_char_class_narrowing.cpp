// F17: {c} of an integer wider than int whose value does not fit an int: format_type(long / unsigned long / long long / unsigned long long)
// narrows the value with static_cast<int> before the character renderer sees it, so 2^32 renders as U+0000, 2^32 + 'A' as "A" and
// -2^32 + 'B' as "B" - the property (C11) says a value outside 0..10FFFF renders as U+FFFD.
#include <string_theory/format>
#include <cstdio>
int main()
{
    int rc = 0;
    const ST::string fffd = ST::string::from_utf8("\xEF\xBF\xBD");
    struct { ST::string got; const char *what; } cases[] = {
        { ST::format("{c}", 4294967296L), "{c} of 4294967296L" },
        { ST::format("{c}", 4294967296UL + 'A'), "{c} of 2^32 + 'A' (unsigned long)" },
        { ST::format("{c}", -4294967296LL + 'B'), "{c} of -2^32 + 'B' (long long)" },
        { ST::format("{c}", 0xFFFFFFFF00000041ULL), "{c} of 0xFFFFFFFF00000041ULL" },
    };
    for (auto &c : cases) {
        if (c.got != fffd) {
            std::printf("FAIL %s: got %zu byte(s), first 0x%02X, expected U+FFFD\n", c.what, c.got.size(), (unsigned char)c.got.c_str()[0]);
            rc = 1;
        }
    }
    // in-range and ordinary out-of-range values are unchanged
    if (ST::format("{c}", 0x41L) != "A" || ST::format("{c}", 0x20ACUL) != ST::string::from_utf8("\xE2\x82\xAC")) rc = 1;
    if (ST::format("{c}", -1L) != fffd || ST::format("{c}", 0x110000LL) != fffd) rc = 1;
    std::puts(rc ? "property violated" : "ok");
    return rc;
}
