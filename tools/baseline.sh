#!/bin/sh
# Runs the repository's own test suite (no hooks exist; guard off == default build) in a scratch build directory.
set -e
B=$(mktemp -d /tmp/st_baseline.XXXXXX)
trap 'rm -rf "$B"' EXIT
cmake -S /repo -B "$B" -G Ninja -DFETCHCONTENT_SOURCE_DIR_GTEST=/usr/src/googletest -DFETCHCONTENT_FULLY_DISCONNECTED=ON >"$B/configure.log" 2>&1 || { cat "$B/configure.log"; exit 1; }
cmake --build "$B" -j16 >"$B/build.log" 2>&1 || { tail -50 "$B/build.log"; exit 1; }
"$B/test/st_gtests" --gtest_brief=1 2>&1 | tail -8
