#include <string_theory/utf_conversion>
#include <cstdio>
int main() {
    // F4 90 80 80 is the 4-byte form of 0x110000: structurally well-formed UTF-8, not representable in UTF-16
    const char in[] = "\xF4\x90\x80\x80";
    int bad = 0;
    ST::utf16_buffer r = ST::utf8_to_utf16(in, 4, ST::substitute_invalid);     // aborts: "Input character out of range"
    if (r.size() != 1 || r.data()[0] != 0xFFFD) { printf("substitute_invalid: expected one U+FFFD unit, got %zu units\n", r.size()); bad++; }
    try { (void)ST::utf8_to_utf16(in, 4, ST::check_validity); printf("check_validity: no exception\n"); bad++; }
    catch (const ST::unicode_error &) { }
    puts(bad ? "FAIL" : "OK");
    return bad ? 1 : 0;
}
