#include <string_theory/string>
#include <string_theory/string_stream>
#include <string_theory/format>
#include <cstdio>
#include <cstdlib>
#include <climits>
#include <csignal>
#include <unistd.h>
static void on_alarm(int) { const char m[] = "HANG (no result after 5 s)\n"; (void)!write(1, m, sizeof(m) - 1); _exit(3); }
#define CHECK(c, ...) do { if (!(c)) { printf(__VA_ARGS__); printf("\n"); bad++; } } while (0)
int main(int argc, char **argv) {
    int which = argc > 1 ? atoi(argv[1]) : 0, bad = 0;
    signal(SIGALRM, on_alarm); alarm(5);
    if (which == 3) {   // F3: size difference narrowed to int (static pointer+length compare, nothing is read when the common prefix is empty)
        const char *p = "";
        int r = ST::char_buffer::compare(p, 0, p, size_t(1) << 32);
        CHECK(r < 0, "compare(len 0, len 2^32) = %d, expected negative", r);
        r = ST::char_buffer::compare(p, size_t(1) << 32, p, 0);
        CHECK(r > 0, "compare(len 2^32, len 0) = %d, expected positive", r);
        r = ST::char_buffer::compare(p, size_t(3) << 31, p, 0, 0);
        CHECK(r == 0, "compare_n(.., maxlen 0) = %d, expected 0", r);
    } else if (which == 4) { // F4: right(n) with size < n < 2*size
        ST::string s("abcdef");
        CHECK(s.right(8) == "abcdef", "right(8) of \"abcdef\" = \"%s\"", s.right(8).c_str());
        CHECK(s.right(7) == "abcdef", "right(7) of \"abcdef\" = \"%s\"", s.right(7).c_str());
    } else if (which == 5) { // F5: substr clamp overflows for counts within start of SIZE_MAX
        ST::string s("abcdef");
        try { ST::string r = s.substr(2, SIZE_MAX - 1); CHECK(r == "cdef", "substr(2, SIZE_MAX-1) = \"%s\"", r.c_str()); }
        catch (const std::exception &e) { printf("substr(2, SIZE_MAX-1) attempted an oversized allocation: %s\n", e.what()); bad++; }
    } else if (which == 6) { // F6: after_first/after_last(const ST::string &) skip one unit instead of the separator
        ST::string s("a::b::c"), sep("::");
        CHECK(s.after_first(sep) == "b::c", "after_first(\"::\") = \"%s\"", s.after_first(sep).c_str());
        CHECK(s.after_last(sep) == "c", "after_last(\"::\") = \"%s\"", s.after_last(sep).c_str());
        CHECK(s.after_first(sep) == s.after_first("::"), "ST::string and const char* separators disagree");
    } else if (which == 7) { // F7: empty separator on text containing NUL
        ST::string s("a\0b", 3);
        auto v = s.split("", 1000);
        CHECK(v.size() == 1 && v[0] == s, "split(\"\") gave %zu pieces", v.size());
        auto w = s.split(ST::string(), 1000);
        CHECK(w.size() == 1 && w[0] == s, "split(ST::string()) gave %zu pieces", w.size());
    } else if (which == 10) { // F10: null const char8_t* argument
        const char8_t *p = nullptr;
        ST::string r = ST::format("[{}]", p);
        CHECK(r == "[]", "format of null char8_t* = \"%s\"", r.c_str());
    }
    puts(bad ? "FAIL" : "OK");
    return bad ? 1 : 0;
}
