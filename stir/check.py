"""Check driver:  bin/check <Cnn> [--tier quick|thorough] [--replay FILE]

Exit codes: 0 all obligations discharged (known findings printed), 1 violation(s) not listed in
known_findings.json, 2 the analysis could not be carried out (anchor vanished, floor missed, ...).
"""
import argparse
import re
import importlib
import json
import os
import sys
import time
import traceback

from . import frontend

VERIF = frontend.VERIF

PROPS = ['C%02d' % k for k in range(1, 21)]


class AnalysisBroken(Exception):
    pass


# configurations of the front end: the reference one (always) and the ones the thorough tier adds
REFERENCE = ('c++20', ())
THOROUGH = [('c++17', ()), ('c++11', ()), ('c++20', ('-funsigned-char',)), ('c++20', ('-DST_DEFAULT_VALIDATION=ST::substitute_invalid',))]


def config_label(cfg):
    return cfg[0] + (' ' + ' '.join(cfg[1]) if cfg[1] else '')


class Run(object):
    def __init__(self, prop, tier, seed=0, replay=None, config=REFERENCE):
        self.prop = prop
        self.tier = tier
        self.seed = seed
        self.replay = replay
        self.config = config
        self.obs = []
        self.notes = {}
        self.samples = []
        self.trusted = []
        self.assumptions = []
        self.counts = {}
        self.t0 = time.time()
        self._module = {}
        self._facts = {}
        self._effects = {}

    # ---------------------------------------------------------------- shared artefacts
    def module(self, std=None, extra_flags=None, tu='driver.cpp'):
        std = std or self.config[0]
        extra_flags = self.config[1] if extra_flags is None else extra_flags
        key = (std, tuple(extra_flags), tu)
        if key not in self._module:
            try:
                self._module[key] = frontend.load(std=std, extra_flags=extra_flags, tu=tu)
            except frontend.FrontendError as e:
                raise AnalysisBroken('front end failed (%s %s):\n%s' % (std, ' '.join(extra_flags), e))
        return self._module[key]

    def facts(self, **kw):
        m = self.module(**kw)
        if id(m) not in self._facts:
            from . import facts
            self._facts[id(m)] = facts.Facts(m)
        return self._facts[id(m)]

    def effects(self, **kw):
        F = self.facts(**kw)
        if id(F) not in self._effects:
            from . import effects
            self._effects[id(F)] = effects.Effects(F)
        return self._effects[id(F)]

    # ---------------------------------------------------------------- obligations
    def ob(self, rule, subject, verdict, detail='', disc='', loc='', witness=None):
        """verdict: True/'discharged', False/'violated', None/'undecided'."""
        if verdict is True:
            verdict = 'discharged'
        elif verdict is False:
            verdict = 'violated'
        elif verdict is None:
            verdict = 'undecided'
        o = dict(rule=rule, subject=subject, verdict=verdict, detail=detail, disc=disc, loc=loc)
        if witness is not None:
            o['witness'] = witness
        self.obs.append(o)
        return verdict == 'discharged'

    def floor(self, what, found, minimum):
        self.counts[what] = found
        if found < minimum and self.config != REFERENCE:
            # older language levels define fewer overloads (no char8_t, no string_view ...): the floors are those of the reference
            # configuration and are enforced there only
            return
        if found < minimum:
            raise AnalysisBroken('instance floor missed: %s: found %d, need at least %d '
                                 '(an anchor vanished or the rule no longer matches the code)' % (what, found, minimum))

    def need(self, cond, msg):
        if not cond:
            raise AnalysisBroken(msg)

    def sample(self, s):
        if len(self.samples) < 12:
            self.samples.append(s)

    def trust(self, *items):
        for i in items:
            if i not in self.trusted:
                self.trusted.append(i)

    def assume(self, *items):
        for i in items:
            if i not in self.assumptions:
                self.assumptions.append(i)


def load_known():
    p = os.path.join(VERIF, 'known_findings.json')
    if not os.path.exists(p):
        return []
    with open(p) as fp:
        d = json.load(fp)
    return d.get('findings', [])


def matches_known(o, prop, known):
    for k in known:
        if k.get('status', 'open') != 'open':
            continue
        if k['property'] != prop or k['rule'] != o['rule']:
            continue
        if k.get('subject') and k['subject'] != o['subject']:
            continue
        if k.get('subject_re') and not re.search(k['subject_re'], o['subject']):
            continue
        if k.get('detail_re') and not re.search(k['detail_re'], o['detail']):
            continue
        if k.get('disc') and k['disc'] != o['disc']:
            continue
        return k
    return None


def write_evidence(run, level, violations, extra=None, explanation=''):
    obs = run.obs
    n = len(obs)
    dis = sum(1 for o in obs if o['verdict'] == 'discharged')
    und = sum(1 for o in obs if o['verdict'] == 'undecided')
    rules = {}
    for o in obs:
        r = rules.setdefault(o['rule'], dict(obligations=0, discharged=0, undecided=0, violated=0))
        r['obligations'] += 1
        r[o['verdict']] += 1
    samples = list(run.samples)
    if not samples:
        for o in obs[:8]:
            samples.append(dict(rule=o['rule'], subject=o['subject'], verdict=o['verdict'], detail=o['detail'][:200]))
    distinct = len(set((o['rule'], o['subject'], o['disc']) for o in obs))
    cov = dict(
        obligations=n, discharged=dis, undecided=und,
        evaluations=max(n, 1), distinct_nontrivial=max(distinct, 0),
        rule='one obligation per (rule, analysed construct, abstract case); distinct = distinct (rule, subject, case) triples',
        checker_cmd='./bin/check %s --tier %s' % (run.prop, run.tier),
        trusted_base=run.trusted,
        samples=samples,
        per_rule=rules,
        instances=run.counts,
        explanation=explanation,
        exhaustive=True,
    )
    if extra:
        cov.update(extra)
    cov.update(run.notes)
    ev = dict(property_id=run.prop, tier=run.tier, seed=run.seed, level=level, coverage=cov,
              assumptions=run.assumptions, wall_s=round(time.time() - run.t0, 2), violations=violations)
    os.makedirs(os.path.join(VERIF, 'evidence'), exist_ok=True)
    p = os.path.join(VERIF, 'evidence', run.prop + '.json')
    tmp = p + '.tmp.%d' % os.getpid()
    with open(tmp, 'w') as fp:
        json.dump(ev, fp, indent=1, sort_keys=True)
        fp.write('\n')
    os.replace(tmp, p)


def main(argv=None):
    ap = argparse.ArgumentParser()
    ap.add_argument('prop')
    ap.add_argument('--tier', default=os.environ.get('VERIF_TIER', 'quick'), choices=['quick', 'thorough'])
    ap.add_argument('--replay')
    ap.add_argument('--verbose', '-v', action='store_true')
    a = ap.parse_args(argv)
    prop = a.prop.upper()
    try:
        seed = int(os.environ.get('VERIF_SEED', '0'))
    except ValueError:
        seed = 0
    run = Run(prop, a.tier, seed)
    replay = None
    if a.replay:
        with open(a.replay) as fp:
            replay = json.load(fp)
        a.verbose = True
    try:
        mod = importlib.import_module('stir.rules.' + prop.lower())
    except ImportError as e:
        print('no rules for %s: %s' % (prop, e))
        return 2
    broken = None
    try:
        mod.check(run)
    except AnalysisBroken as e:
        broken = 'ANALYSIS-BROKEN property=%s: %s' % (prop, e)
    except Exception:
        traceback.print_exc()
        broken = 'ANALYSIS-BROKEN property=%s: internal error in the checker (see traceback)' % prop
    if broken is not None and not any(o['verdict'] == 'violated' for o in run.obs):
        print(broken)
        return 2
    # (an analysis that stopped half-way still reports the violations it had established - each stands on its own witness -
    # and says that it is incomplete; without any it is analysis-broken, exit 2)
    configs = [config_label(REFERENCE)]
    if a.tier == 'thorough' and replay is None and broken is None:
        # the same rules under the other language levels / char signedness / default validation mode the headers are written for;
        # obligations are merged (the configuration becomes part of the case), instance floors are those of the reference run
        for cfg in THOROUGH:
            sub = Run(prop, a.tier, seed, config=cfg)
            lab = config_label(cfg)
            try:
                mod.check(sub)
            except AnalysisBroken as e:
                # fewer instances under an older language level (no char8_t, no string_view) trip the reference floors: the rules
                # that ran before the floor are kept, the rest is reported as not analysed in this configuration
                sub.obs.append(dict(rule='config', subject=lab, verdict='undecided', detail='stopped in this configuration: %s' % (str(e)[:200],), disc='', loc=''))
            except Exception:
                traceback.print_exc()
                print('ANALYSIS-BROKEN property=%s: internal error in the checker under configuration %s (see traceback)' % (prop, lab))
                return 2
            for o in sub.obs:
                o['disc'] = ('[%s] ' % lab) + (o['disc'] or '')
                run.obs.append(o)
            for k, v in sub.counts.items():
                run.counts['%s [%s]' % (k, lab)] = v
            configs.append(lab)
    run.notes['configurations'] = configs
    known = load_known()
    viol = [o for o in run.obs if o['verdict'] == 'violated']
    und = [o for o in run.obs if o['verdict'] == 'undecided']
    new = []
    for o in viol:
        k = matches_known(o, prop, known)
        if replay is not None:
            if o['rule'] != replay.get('rule') or o['subject'] != replay.get('subject') or o['disc'] != replay.get('disc'):
                continue
        if k is not None:
            print('KNOWN-FINDING: property=%s %s %s [%s] %s' % (prop, o['rule'], o['subject'], o['disc'], k.get('what', '')))
        else:
            new.append(o)
    rdir = os.environ.get('STV_REPLAY_DIR') or os.path.join(VERIF, 'replays')
    os.makedirs(rdir, exist_ok=True)
    for n, o in enumerate(new):
        print('-' * 78)
        print('rule      : %s' % o['rule'])
        print('construct : %s' % o['subject'])
        if o['loc']:
            print('location  : %s' % o['loc'])
        if o['disc']:
            print('case      : %s' % o['disc'])
        print('finding   : %s' % o['detail'])
        if 'witness' in o:
            print('witness   : %s' % (o['witness'],))
        rp = os.path.join(rdir, '%s_%d.json' % (prop, n))
        with open(rp, 'w') as fp:
            json.dump(dict(property=prop, rule=o['rule'], subject=o['subject'], disc=o['disc'], loc=o['loc'],
                           detail=o['detail'], witness=o.get('witness')), fp, indent=1)
        print('VIOLATION property=%s replay=%s' % (prop, rp))
    if os.environ.get('STV_SHOW_UND') and not a.verbose:
        for o in und:
            print('%-11s %-8s %s %s %s' % (o['verdict'], o['rule'], o['subject'][:100], o['disc'], o['detail'][:300]))
    if a.verbose:
        for o in run.obs:
            if replay is not None and (o['rule'] != replay.get('rule') or o['subject'] != replay.get('subject')):
                continue
            print('%-11s %-8s %s %s %s' % (o['verdict'], o['rule'], o['subject'][:100], o['disc'], o['detail'][:160]))
    if broken is not None:
        print(broken + ' (after the violations above had been established; the remaining rules did not run)')
    if replay is None and not os.environ.get('STV_NO_EVIDENCE') and broken is None:
        level = getattr(mod, 'LEVEL', 'other')
        write_evidence(run, level, len(new), explanation=getattr(mod, 'EXPLANATION', ''))
    nd = sum(1 for o in run.obs if o['verdict'] == 'discharged')
    print('%s tier=%s: %d obligations, %d discharged, %d undecided, %d violated (%d known) in %.1fs' %
          (prop, a.tier, len(run.obs), nd, len(und), len(viol), len(viol) - len(new), time.time() - run.t0))
    for r, c in sorted(run.counts.items()):
        print('  instances %-40s %d' % (r, c))
    if broken is not None and not new:
        return 2
    return 1 if new else 0


if __name__ == '__main__':
    sys.exit(main())
