"""Reader for the line-oriented JSON produced by tools/irdump.cpp.

The module header is parsed eagerly; function bodies are parsed on demand and
cached.  Operands keep the list encoding of the dump:

  ['v', id]  SSA value (argument or instruction)      ['i', value, bits]  integer constant (unsigned)
  ['n'] null   ['u'] undef   ['z'] zeroinitializer    ['g', name] global / function
  ['b', id] block   ['f', text] fp constant           ['ce', opcode, type, [ops], extra?] constant expression
"""
import json
import os
import re


class Inst(object):
    __slots__ = ('id', 'op', 'ty', 'name', 'line', 'file', 'a', 'd', 'block')

    def __init__(self, d, fnfile, block):
        self.id = d['i']
        self.op = d['op']
        self.ty = d['ty']
        self.name = d.get('n', '')
        self.line = d.get('l', 0)
        self.file = d.get('f', fnfile)
        self.a = d.get('a', [])
        self.d = d
        self.block = block

    def __repr__(self):
        return '<%%%d %s %s>' % (self.id, self.op, self.name)

    @property
    def callee(self):
        c = self.d.get('callee')
        if c and c[0] == 'g':
            return c[1]
        return None


class Block(object):
    __slots__ = ('id', 'name', 'insts')

    def __init__(self, d, fnfile):
        self.id = d['id']
        self.name = d['name']
        self.insts = [Inst(i, fnfile, self.id) for i in d['insts']]

    @property
    def term(self):
        return self.insts[-1]

    def succs(self):
        t = self.insts[-1]
        if t.op == 'br':
            return list(t.d['succ'])
        if t.op == 'switch':
            return [t.d['default']] + [c[1] for c in t.d['cases']]
        if t.op == 'invoke':
            return [t.d['normal'], t.d['unwind']]
        return []


class Func(object):
    def __init__(self, d, module):
        self.module = module
        self.name = d['name']
        self.dem = d['dem']
        self.ret = d['ret']
        self.params = d['params']
        self.argnames = d.get('argnames', [])
        self.nounwind = d.get('nounwind', False)
        self.noreturn = d.get('noreturn', False)
        self.linkage = d.get('linkage')
        self.fileid = d.get('file', 0)
        self.file = module.files[self.fileid] if self.fileid < len(module.files) else ''
        self.line = d.get('line', 0)
        self.access = d.get('access', '')
        self.scope = d.get('scope', '')
        self.spname = d.get('spname', '')
        self.vars = dict((int(k), v) for k, v in d.get('vars', {}).items())
        self.blocks = [Block(b, self.fileid) for b in d['blocks']]
        self.nargs = len(self.params)
        self.insts = {}
        for b in self.blocks:
            for i in b.insts:
                self.insts[i.id] = i
        self._preds = None

    def inst(self, vid):
        return self.insts.get(vid)

    def all_insts(self):
        for b in self.blocks:
            for i in b.insts:
                yield i

    def preds(self):
        if self._preds is None:
            p = dict((b.id, []) for b in self.blocks)
            for b in self.blocks:
                for s in b.succs():
                    if b.id not in p[s]:
                        p[s].append(b.id)
            self._preds = p
        return self._preds

    def loc(self, inst):
        f = self.module.files[inst.file] if inst.file < len(self.module.files) else ''
        return '%s:%d' % (f, inst.line)

    def is_const_method(self):
        return self.name.startswith('_ZNK')

    def sret_index(self):
        for k, p in enumerate(self.params):
            if 'sret' in p['attrs']:
                return k
        return None

    def this_index(self):
        """LLVM parameter index of `this` for member functions (after a leading sret slot)."""
        return 1 if self.sret_index() == 0 else 0

    def varname(self, vid):
        if vid in self.vars:
            return self.vars[vid]
        if vid < self.nargs and vid < len(self.argnames):
            return self.argnames[vid]
        i = self.insts.get(vid)
        if i is not None and i.name:
            return i.name
        return '%%%d' % vid


class Module(object):
    def __init__(self, path, repo_include):
        self.path = path
        self.repo_include = repo_include.rstrip('/') + '/'
        with open(path, 'rb') as fp:
            data = fp.read()
        nl = data.index(b'\n')
        hdr = json.loads(data[:nl])
        self.structs = hdr['structs']
        self.globals = hdr['globals']
        self.aliases = hdr['aliases']
        self.decls = hdr['decls']
        self.files = hdr['files']
        self.enums = hdr.get('enums', {})
        self.triple = hdr['triple']
        self._raw = {}
        self._order = []
        pos = nl + 1
        namere = re.compile(rb'\{"name":"((?:[^"\\]|\\.)*)"')
        n = len(data)
        while pos < n:
            e = data.index(b'\n', pos)
            m = namere.match(data, pos, e)
            name = json.loads(b'"' + m.group(1) + b'"')
            self._raw[name] = (pos, e)
            self._order.append(name)
            pos = e + 1
        self._data = data
        self._cache = {}

    def function_names(self):
        return list(self._order)

    def has(self, name):
        return self.resolve(name) in self._raw

    def resolve(self, name):
        seen = 0
        while name in self.aliases and self.aliases[name] and seen < 4:
            name = self.aliases[name]
            seen += 1
        return name

    def func(self, name):
        name = self.resolve(name)
        f = self._cache.get(name)
        if f is None:
            s, e = self._raw[name]
            f = Func(json.loads(self._data[s:e]), self)
            self._cache[name] = f
        return f

    def funcs(self):
        for n in self._order:
            yield self.func(n)

    def is_lib_file(self, path):
        return path.startswith(self.repo_include)

    def is_lib(self, f):
        return self.is_lib_file(f.file)

    def lib_funcs(self):
        for f in self.funcs():
            if self.is_lib(f):
                yield f

    def dem(self, name):
        name2 = self.resolve(name)
        if name2 in self._raw:
            return self.func(name2).dem
        if name in self.decls:
            return self.decls[name]['dem']
        return name


def ptr_depth(ty):
    n = 0
    while ty.endswith('*'):
        ty = ty[:-1]
        n += 1
    return n


def is_ptr(ty):
    return ty.endswith('*')


def int_bits(ty):
    if ty and ty[0] == 'i' and ty[1:].isdigit():
        return int(ty[1:])
    return None
